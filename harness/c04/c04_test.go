package c04

import (
	"os"
	"encoding/json"
	"fmt"
	"regexp"
	"sort"
	"strings"
	"testing"
	"time"

	"github.com/bufbuild/protocompile/linker"
	"github.com/pentops/j5/internal/bcl/internal/verif/j5sgen"
	"github.com/pentops/j5/internal/bcl/internal/verif/j5sx"
	"github.com/pentops/j5/internal/bcl/internal/verif/vf"
	"github.com/pentops/j5/lib/j5schema"
	"google.golang.org/protobuf/reflect/protoreflect"
	"google.golang.org/protobuf/reflect/protoregistry"
	"pgregory.net/rapid"
)

const prop = "C04"

func laneCase(raw json.RawMessage) ([]vf.Failure, error) {
	var b j5sgen.Bundle
	if err := json.Unmarshal(raw, &b); err != nil {
		return nil, err
	}
	return check(&b), nil
}

var lanes = map[string]vf.LaneFunc{"readback": laneCase, "matrix": laneCase}

func TestReplay(t *testing.T) {
	if !vf.RunReplayMode(t, prop, lanes) {
		t.Skip("no VERIF_REPLAY")
	}
}

func TestWitness(t *testing.T) { vf.Witnesses(t, prop, lanes) }

const callLimit = 120 * time.Second

var idxRe = regexp.MustCompile(`\[[^\]]*\]`)

// classOf reduces a schema line to its structural class: the path with names and
// indices removed, without the value.
func classOf(line string) string {
	slash := strings.Index(line, "/")
	i := slash + strings.Index(line[slash:], ".")
	path := line[i+1:]
	if k := strings.Index(path, " = "); k >= 0 {
		path = path[:k]
	}
	path = idxRe.ReplaceAllString(path, "[]")
	path = strings.TrimPrefix(path, "object.")
	path = strings.TrimPrefix(path, "oneof.")
	return coarse(path)
}

// coarse groups everything below an array item / map value by the item kind and
// the sort of annotation (rules, list_rules, format, type): one root cause in the
// reader or writer loses all leaves of such a group together.
func coarse(class string) string {
	class = strings.TrimPrefix(class, "properties[].")
	if os.Getenv("VERIF_FINE") == "1" {
		return class
	}
	for _, c := range []struct{ marker, name string }{{"schema.map.item_schema.", "map-item"}, {"schema.array.items.", "array-item"}} {
		if i := strings.Index(class, c.marker); i >= 0 {
			rest := strings.Split(class[i+len(c.marker):], ".")
			if len(rest) > 2 {
				rest = rest[:2]
			}
			sub := strings.Join(rest, ".")
			switch {
			case c.name == "map-item":
				// the reader does not look at the options of a map's value field
				return "map-item"
			case strings.HasSuffix(sub, ".list_rules"):
				return c.name + ":list_rules"
			case sub == "type" || sub == "date.rules" || sub == "decimal.rules" || sub == "key.format":
				// the array annotation replaces the item's own (j5.ext.v1.field):
				// what the item keeps there (date and decimal rules, the key format,
				// and with it the distinction between a key and a string) is lost
				return c.name + ":j5-annotation"
			case sub == "object.rules" || strings.HasSuffix(class, ".integer.rules.multiple_of"):
				// rules the compiler has no target for are lost wherever they are written
				return "schema." + strings.Join(strings.Split(class[i+len(c.marker):], "."), ".")
			default:
				// anything else an array item declares (validate rules, entity-key
				// annotations, ext) is read back on the unchanged tree: its own class
				return c.name + ":" + strings.Join(strings.Split(class[i+len(c.marker):], "."), ".")
			}
		}
	}
	if strings.HasSuffix(class, "description") {
		return "description"
	}
	if strings.HasPrefix(class, "schema.map.rules.") {
		return "schema.map.rules"
	}
	return class
}

// normal form applied to both sides: representation that does not change meaning
func keep(line string) bool {
	switch {
	case strings.Contains(line, ".key_schema."):
		return false // map keys are always strings
	case strings.HasSuffix(line, ".key.format.type = informal"):
		return false // an informal key is a key without a format
	}
	return true
}

func filter(lines []string) []string {
	var out []string
	for _, l := range lines {
		if keep(l) {
			out = append(out, l)
		}
	}
	return out
}

func schemaLinesOf(files []protoreflect.FileDescriptor, pkgs map[string]bool) (map[string][]string, error) {
	reg := &protoregistry.Files{}
	for _, f := range files {
		if err := reg.RegisterFile(f); err != nil {
			return nil, err
		}
	}
	return schemaLinesFromRegistry(reg, files, pkgs)
}

func schemaLinesFromRegistry(reg *protoregistry.Files, files []protoreflect.FileDescriptor, pkgs map[string]bool) (map[string][]string, error) {
	mine := map[string]bool{}
	for _, f := range files {
		mine[f.Path()] = true
	}
	set, err := j5schema.SchemaSetFromFiles(reg, func(fd protoreflect.FileDescriptor) bool { return mine[fd.Path()] })
	if err != nil {
		return nil, err
	}
	out := map[string][]string{}
	for pn, p := range set.Packages {
		if !pkgs[pn] {
			continue
		}
		for n, ref := range p.Schemas {
			if ref.To == nil {
				return nil, fmt.Errorf("unlinked schema %s/%s", pn, n)
			}
			out[pn+"/"+n] = filter(j5sgen.SchemaLines(pn, ref.To.ToJ5Root()))
		}
	}
	return out, nil
}

func compare(stage string, want, got map[string][]string) (fails []vf.Failure) {
	var keys []string
	for k := range want {
		keys = append(keys, k)
	}
	sort.Strings(keys)
	seen := map[string]bool{}
	add := func(key, format string, a ...any) {
		if !seen[key] {
			seen[key] = true
			fails = append(fails, vf.Failf(key, format, a...))
		}
	}
	for _, k := range keys {
		g, ok := got[k]
		if !ok {
			where := "top-level"
			if strings.Contains(k[strings.Index(k, "/"):], "_") {
				where = "nested"
			}
			add("schema-missing|"+where, "%s: schema %s declared in the source is not reflected", stage, k)
			continue
		}
		missing, extra := j5sgen.DiffLines(filter(want[k]), g)
		paired := map[string]bool{}
		for _, m := range missing {
			cls := classOf(m)
			if cls == "description" {
				// a description that differs only by its blank lines (paragraph
				// breaks) is one specific, known loss; anything else is not
				path := m[:strings.Index(m, " = ")]
				for _, e := range extra {
					if strings.HasPrefix(e, path+" = ") {
						if strings.ReplaceAll(m, `\n\n`, `\n`) == e {
							cls = "description:paragraph-break"
							paired[e] = true
						}
					}
				}
			}
			add("lost|"+cls, "%s: declared but not read back: %s\n(read back instead: %s)", stage, m, pick(extra, classOf(m)))
		}
		for _, e := range extra {
			if paired[e] {
				continue
			}
			cls := classOf(e)
			// an array item that loses its key annotation (the known j5-annotation
			// loss) comes back as a string carrying the custom key pattern: the same
			// loss seen from the other side, only when the lost line pairs with it
			if strings.Contains(e, ".schema.array.items.string.rules.pattern = ") {
				twin := strings.Replace(e, ".items.string.rules.pattern = ", ".items.key.format.custom.pattern = ", 1)
				for _, m := range missing {
					if m == twin {
						cls = "array-item:j5-annotation"
					}
				}
			}
			add("invented|"+cls, "%s: read back but not declared: %s", stage, e)
		}
	}
	for k := range got {
		if _, ok := want[k]; !ok {
			add("schema-extra", "%s: reflected schema %s was not declared", stage, k)
		}
	}
	return fails
}

func pick(lines []string, class string) string {
	for _, l := range lines {
		if classOf(l) == class {
			return l
		}
	}
	return "-"
}

func check(b *j5sgen.Bundle) (fails []vf.Failure) {
	src := &j5sx.Bundle{Files: b.Render()}
	for _, p := range b.Packages {
		var files linker.Files
		var err error
		if f := vf.GuardTimed("CompilePackage", callLimit, func() { files, err = j5sx.Compile(src, p.Name) }); f != nil {
			return append(fails, *f)
		}
		if err != nil {
			return append(fails, vf.Failf("compile|error", "package %s does not compile (C07's verdict): %v", p.Name, err))
		}
		pkgs := map[string]bool{p.Name: true, p.Name + ".service": true, p.Name + ".topic": true}
		want := b.ExpectedSchemas(p.Name)
		var fds []protoreflect.FileDescriptor
		for _, f := range files {
			fds = append(fds, f)
		}
		var got map[string][]string
		if f := vf.GuardTimed("SchemaSetFromFiles", callLimit, func() { got, err = schemaLinesOf(fds, pkgs) }); f != nil {
			fails = append(fails, *f)
			continue
		}
		if err != nil {
			fails = append(fails, vf.Failf("descriptors|reflect-error|"+vf.ErrClass(err), "reflecting the compiled descriptors of %s fails: %v", p.Name, err))
			continue
		}
		fails = append(fails, compare("descriptors", want, got)...)

		// the same through the generated .proto text
		texts := map[string]string{}
		var paths []string
		// every package printed so far is available for imports
		for _, q := range b.Packages {
			qf, qerr := j5sx.Compile(src, q.Name)
			if qerr != nil {
				continue
			}
			for _, f := range qf {
				if t, perr := j5sx.Print(f); perr == nil {
					texts[f.Path()] = t
				}
			}
		}
		for _, f := range files {
			paths = append(paths, f.Path())
		}
		var reg *protoregistry.Files
		if f := vf.GuardTimed("ReadFSImage", callLimit, func() { _, reg, err = j5sx.ReadImage(texts) }); f != nil {
			fails = append(fails, *f)
			continue
		}
		if err != nil {
			fails = append(fails, vf.Failf("text|reparse-error", "printed proto of %s does not re-parse (C05's verdict): %v", p.Name, err))
			continue
		}
		var rfds []protoreflect.FileDescriptor
		for _, pth := range paths {
			fd, ferr := reg.FindFileByPath(pth)
			if ferr != nil {
				fails = append(fails, vf.Failf("text|file-missing", "%s missing from the image: %v", pth, ferr))
				continue
			}
			rfds = append(rfds, fd)
		}
		var got2 map[string][]string
		if f := vf.GuardTimed("SchemaSetFromFiles(text)", callLimit, func() { got2, err = schemaLinesFromRegistry(reg, rfds, pkgs) }); f != nil {
			fails = append(fails, *f)
			continue
		}
		if err != nil {
			fails = append(fails, vf.Failf("text|reflect-error|"+vf.ErrClass(err), "reflecting the re-parsed text of %s fails: %v", p.Name, err))
			continue
		}
		fails = append(fails, compare("text", want, got2)...)
	}
	return fails
}

func TestReadback(t *testing.T) {
	r := vf.Start(t, prop, "readback")
	rapid.Check(t, func(t *rapid.T) {
		o := j5sgen.DefaultOpts()
		o.UndocumentedRules = true
		o.MaxPackages, o.MaxFiles = 2, 2
		o.Noise = false
		b, classes := j5sgen.Draw(t, o)
		nt := false
		cls := []string{}
		for k := range classes {
			cls = append(cls, k)
			if strings.HasPrefix(k, "rules:") || strings.HasPrefix(k, "list:") || k == "flatten" || strings.HasPrefix(k, "key:") || k == "description" {
				nt = true
			}
		}
		r.Eval(nt, vf.Hash(b.Render()), cls...)
		if nt && len(b.Packages) == 1 && len(b.Packages[0].Files) == 1 && r.WantSample() {
			r.Sample(map[string]any{"files": b.Render()})
		}
		r.Journal(b)
		r.Judge(t, b, check(b))
	})
}
