// Package codecx holds what the codec checks (C01, C03, C06, C08, C10, C18) share:
// the serialisable case, schema+message drawing, and codec construction.
package codecx

import (
	"encoding/base64"
	"fmt"
	"sort"
	"strings"

	_ "github.com/pentops/j5/gen/j5/state/v1/psm_j5pb"
	"github.com/pentops/j5/internal/bcl/internal/verif/j5sgen"
	"github.com/pentops/j5/internal/bcl/internal/verif/j5sx"

	"github.com/pentops/j5/internal/bcl/internal/verif/j5ref"
	"github.com/pentops/j5/internal/bcl/internal/verif/mgen"
	"github.com/pentops/j5/internal/bcl/internal/verif/pgen"
	"github.com/pentops/j5/internal/codec"
	"google.golang.org/protobuf/encoding/prototext"
	"google.golang.org/protobuf/proto"
	"google.golang.org/protobuf/reflect/protoreflect"
	"google.golang.org/protobuf/reflect/protoregistry"
	"google.golang.org/protobuf/types/descriptorpb"
	"google.golang.org/protobuf/types/dynamicpb"
	"pgregory.net/rapid"
)

// Case is one (schema, message) pair in serialisable form.
type Case struct {
	Files  []string `json:"files_b64"` // FileDescriptorProto, in dependency order
	Root   string   `json:"root"`
	Msg    string   `json:"msg_b64"`
	Source string   `json:"source,omitempty"` // raw | j5s
	// Before: messages of the same schema handled earlier in the same generated
	// case, in order (root, message): a session. Replay handles them first.
	Before [][2]string `json:"before,omitempty"`
	// Human-readable copies (not used by replay).
	MsgText string `json:"msg_text,omitempty"`
	Doc     string `json:"doc,omitempty"`
}

type Schema struct {
	FilePBs []*descriptorpb.FileDescriptorProto
	Files   *protoregistry.Files
	FDs     []protoreflect.FileDescriptor
	Types   *dynamicpb.Types
	Msgs    []protoreflect.MessageDescriptor // all messages (incl. nested, excl. map entries)
	Classes map[string]bool
}

func collect(mds protoreflect.MessageDescriptors, out *[]protoreflect.MessageDescriptor) {
	for i := 0; i < mds.Len(); i++ {
		md := mds.Get(i)
		if md.IsMapEntry() {
			continue
		}
		*out = append(*out, md)
		collect(md.Messages(), out)
	}
}

func NewSchema(pbs ...*descriptorpb.FileDescriptorProto) (*Schema, error) {
	files, fds, err := pgen.Link(pbs...)
	if err != nil {
		return nil, err
	}
	s := &Schema{FilePBs: pbs, Files: files, FDs: fds, Types: dynamicpb.NewTypes(files), Classes: map[string]bool{}}
	for _, fd := range fds {
		collect(fd.Messages(), &s.Msgs)
	}
	return s, nil
}

// typeResolver resolves generated types first, then the global registry.
type typeResolver struct {
	local *dynamicpb.Types
}

func (r typeResolver) FindMessageByName(n protoreflect.FullName) (protoreflect.MessageType, error) {
	if mt, err := r.local.FindMessageByName(n); err == nil {
		return mt, nil
	}
	return protoregistry.GlobalTypes.FindMessageByName(n)
}

func (s *Schema) Resolver() j5ref.Resolver { return typeResolver{s.Types} }

// NewCodec builds a fresh codec that can resolve the schema's types in Any fields.
func (s *Schema) NewCodec() *codec.Codec {
	return codec.NewCodec(codec.WithResolver(typeResolver{s.Types}), codec.WithProtoToAny())
}

func (s *Schema) Find(name string) protoreflect.MessageDescriptor {
	for _, md := range s.Msgs {
		if string(md.FullName()) == name {
			return md
		}
	}
	return nil
}

// DrawSchema draws a raw-proto schema (G2).
func DrawSchema(t *rapid.T, mode pgen.Mode) (*Schema, error) {
	pkg := fmt.Sprintf("vt%d.v1", rapid.IntRange(0, 9).Draw(t, "pkgn"))
	res := pgen.Draw(t, mode, pkg)
	s, err := NewSchema(res.File)
	if err != nil {
		return nil, fmt.Errorf("generated schema does not link: %w\n%s", err, prototext.Format(res.File))
	}
	for k := range res.Classes {
		s.Classes[k] = true
	}
	return s, nil
}

func (s *Schema) MsgCtx(extended bool) *mgen.Ctx {
	return &mgen.Ctx{
		AnyTargets: s.Msgs,
		Enc:        &j5ref.Encoder{Types: s.Resolver()},
		MaxDepth:   4,
		Extended:   extended,
		Classes:    map[string]bool{},
	}
}

func (s *Schema) Case(msg protoreflect.Message, source string) Case {
	c := Case{Root: string(msg.Descriptor().FullName()), Source: source}
	for _, pb := range s.FilePBs {
		b, _ := proto.MarshalOptions{Deterministic: true}.Marshal(pb)
		c.Files = append(c.Files, base64.StdEncoding.EncodeToString(b))
	}
	b, _ := proto.MarshalOptions{Deterministic: true}.Marshal(msg.Interface())
	c.Msg = base64.StdEncoding.EncodeToString(b)
	c.MsgText = prototext.MarshalOptions{Multiline: false}.Format(msg.Interface())
	if len(c.MsgText) > 1500 {
		c.MsgText = c.MsgText[:1500] + "…"
	}
	return c
}

// Build reconstructs schema and message from a case (replay path).
func (c Case) Build() (*Schema, protoreflect.Message, error) {
	var pbs []*descriptorpb.FileDescriptorProto
	for _, f := range c.Files {
		b, err := base64.StdEncoding.DecodeString(f)
		if err != nil {
			return nil, nil, err
		}
		pb := &descriptorpb.FileDescriptorProto{}
		if err := proto.Unmarshal(b, pb); err != nil {
			return nil, nil, err
		}
		pbs = append(pbs, pb)
	}
	s, err := NewSchema(pbs...)
	if err != nil {
		return nil, nil, err
	}
	md := s.Find(c.Root)
	if md == nil {
		return nil, nil, fmt.Errorf("root %s not in case files", c.Root)
	}
	msg := dynamicpb.NewMessage(md)
	b, err := base64.StdEncoding.DecodeString(c.Msg)
	if err != nil {
		return nil, nil, err
	}
	if err := (proto.UnmarshalOptions{Resolver: s.Types}).Unmarshal(b, msg); err != nil {
		return nil, nil, err
	}
	return s, msg, nil
}

func B64(s string) ([]byte, error) { return base64.StdEncoding.DecodeString(s) }
func ToB64(b []byte) string        { return base64.StdEncoding.EncodeToString(b) }

// BuildSchemaOnly links the case's files without decoding a message.
func (c Case) BuildSchemaOnly() (*Schema, protoreflect.Message, error) {
	var pbs []*descriptorpb.FileDescriptorProto
	for _, f := range c.Files {
		b, err := base64.StdEncoding.DecodeString(f)
		if err != nil {
			return nil, nil, err
		}
		pb := &descriptorpb.FileDescriptorProto{}
		if err := proto.Unmarshal(b, pb); err != nil {
			return nil, nil, err
		}
		pbs = append(pbs, pb)
	}
	s, err := NewSchema(pbs...)
	return s, nil, err
}

// DrawCompiled draws a j5s package (G1), compiles it with the production compiler
// and wraps the resulting descriptors as a Schema: the codec then sees exactly the
// annotations the compiler writes (keys, dates, decimals, oneof wrappers, flattened
// objects, entity parts) rather than the ones the raw generator writes.
func DrawCompiled(t *rapid.T) (*Schema, error) {
	o := j5sgen.DefaultOpts()
	o.MaxPackages, o.MaxFiles = 1, 2
	o.Entities = true
	b, classes := j5sgen.Draw(t, o)
	src := &j5sx.Bundle{Files: b.Render()}
	// production path: compile, print to .proto text, read the text back
	texts := map[string]string{}
	for _, p := range b.Packages {
		files, err := j5sx.Compile(src, p.Name)
		if err != nil {
			return nil, fmt.Errorf("generated package does not compile (C07's subject): %w\nsource:\n%s", err, renderAll(src))
		}
		for _, f := range files {
			tx, err := j5sx.Print(f)
			if err != nil {
				return nil, fmt.Errorf("print (C05's subject): %w", err)
			}
			texts[f.Path()] = tx
		}
	}
	img, _, err := j5sx.ReadImage(texts)
	if err != nil {
		return nil, fmt.Errorf("printed files do not read back (C05/C16's subject): %w", err)
	}
	byName := map[string]*descriptorpb.FileDescriptorProto{}
	for _, f := range img.File {
		if _, err := protoregistry.GlobalFiles.FindFileByPath(f.GetName()); err == nil {
			continue // built-in (j5, google, buf): resolved from the registry
		}
		byName[f.GetName()] = f
	}
	var pbs []*descriptorpb.FileDescriptorProto
	seen := map[string]bool{}
	var add func(name string)
	add = func(name string) {
		f := byName[name]
		if f == nil || seen[name] {
			return
		}
		seen[name] = true
		for _, d := range f.Dependency {
			add(d)
		}
		pbs = append(pbs, f)
	}
	names := make([]string, 0, len(byName))
	for n := range byName {
		names = append(names, n)
	}
	sort.Strings(names)
	for _, n := range names {
		add(n)
	}
	s, err := NewSchema(pbs...)
	if err != nil {
		return nil, fmt.Errorf("compiled files do not link: %w", err)
	}
	// request/response/topic messages are included; keep only messages with fields first
	sort.SliceStable(s.Msgs, func(i, j int) bool { return s.Msgs[i].Fields().Len() > s.Msgs[j].Fields().Len() })
	for k := range classes {
		s.Classes[k] = true
	}
	return s, nil
}

// DrawFrom draws a schema from the named source: "raw" (G2, supported subset) or
// "j5s" (G1 compiled by the production compiler).
func DrawFrom(t *rapid.T, source string) (*Schema, error) {
	if source == "j5s" {
		return DrawCompiled(t)
	}
	return DrawSchema(t, pgen.Supported)
}

func renderAll(b *j5sx.Bundle) string {
	var names []string
	for n := range b.Files {
		names = append(names, n)
	}
	sort.Strings(names)
	var sb strings.Builder
	for _, n := range names {
		fmt.Fprintf(&sb, "=== %s\n%s\n", n, b.Files[n])
	}
	return sb.String()
}

// Earlier rebuilds the messages of c.Before.
func (c Case) Earlier(s *Schema) ([]protoreflect.Message, error) {
	var out []protoreflect.Message
	for _, b := range c.Before {
		md := s.Find(b[0])
		if md == nil {
			return nil, fmt.Errorf("root %s missing", b[0])
		}
		raw, err := base64.StdEncoding.DecodeString(b[1])
		if err != nil {
			return nil, err
		}
		m := dynamicpb.NewMessage(md)
		if err := (proto.UnmarshalOptions{Resolver: s.Types}).Unmarshal(raw, m); err != nil {
			return nil, err
		}
		out = append(out, m)
	}
	return out, nil
}
