// Package pdiff reports where two protobuf messages differ, as field-name paths
// without list indices or map keys (stable violation keys) plus a detail string.
package pdiff

import (
	"fmt"
	"sort"

	"google.golang.org/protobuf/proto"
	"google.golang.org/protobuf/reflect/protoreflect"
)

type Diff struct {
	Path   string // a.b.c (no indices)
	Where  string // a[2].b{"k"}.c
	Detail string
}

// Messages returns up to max differences between a and b (same descriptor).
func Messages(a, b proto.Message, max int) []Diff {
	d := &differ{max: max}
	d.msg("", "", a.ProtoReflect(), b.ProtoReflect())
	return d.out
}

type differ struct {
	out []Diff
	max int
}

func (d *differ) add(path, where, format string, a ...any) {
	if len(d.out) < d.max {
		d.out = append(d.out, Diff{Path: path, Where: where, Detail: fmt.Sprintf(format, a...)})
	}
}

func join(p, n string) string {
	if p == "" {
		return n
	}
	return p + "." + n
}

func (d *differ) msg(path, where string, a, b protoreflect.Message) {
	if a.Descriptor().FullName() != b.Descriptor().FullName() {
		d.add(path, where, "message types differ: %s vs %s", a.Descriptor().FullName(), b.Descriptor().FullName())
		return
	}
	if a.IsValid() != b.IsValid() {
		d.add(path, where, "one side is nil")
		return
	}
	fields := a.Descriptor().Fields()
	for i := 0; i < fields.Len(); i++ {
		f := fields.Get(i)
		ha, hb := a.Has(f), b.Has(f)
		p, w := join(path, string(f.Name())), join(where, string(f.Name()))
		if ha != hb {
			side := "second"
			v := a.Get(f)
			if hb {
				side = "first"
				v = b.Get(f)
			}
			d.add(p, w, "absent on the %s side; other side has %s", side, short(f, v))
			continue
		}
		if !ha {
			continue
		}
		d.value(p, w, f, a.Get(f), b.Get(f))
	}
}

func short(f protoreflect.FieldDescriptor, v protoreflect.Value) string {
	s := v.String()
	if f.Message() != nil && !f.IsList() && !f.IsMap() {
		s = fmt.Sprint(v.Message().Interface())
	}
	if len(s) > 160 {
		s = s[:160] + "…"
	}
	return s
}

func (d *differ) value(path, where string, f protoreflect.FieldDescriptor, a, b protoreflect.Value) {
	switch {
	case f.IsList():
		la, lb := a.List(), b.List()
		if la.Len() != lb.Len() {
			d.add(path, where, "list length %d vs %d", la.Len(), lb.Len())
			return
		}
		for i := 0; i < la.Len(); i++ {
			d.single(path, fmt.Sprintf("%s[%d]", where, i), f, la.Get(i), lb.Get(i))
		}
	case f.IsMap():
		ma, mb := a.Map(), b.Map()
		keys := map[string]protoreflect.MapKey{}
		ma.Range(func(k protoreflect.MapKey, _ protoreflect.Value) bool { keys[k.String()] = k; return true })
		mb.Range(func(k protoreflect.MapKey, _ protoreflect.Value) bool { keys[k.String()] = k; return true })
		var ks []string
		for k := range keys {
			ks = append(ks, k)
		}
		sort.Strings(ks)
		for _, k := range ks {
			mk := keys[k]
			if ma.Has(mk) != mb.Has(mk) {
				d.add(path, fmt.Sprintf("%s{%q}", where, k), "map key %q on one side only", k)
				continue
			}
			d.single(path, fmt.Sprintf("%s{%q}", where, k), f.MapValue(), ma.Get(mk), mb.Get(mk))
		}
	default:
		d.single(path, where, f, a, b)
	}
}

func (d *differ) single(path, where string, f protoreflect.FieldDescriptor, a, b protoreflect.Value) {
	if f.Message() != nil {
		d.msg(path, where, a.Message(), b.Message())
		return
	}
	if !a.Equal(b) {
		d.add(path, where, "%v vs %v", a, b)
	}
}
