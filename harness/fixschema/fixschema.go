// Package fixschema builds the fixed synthetic schema used by the bounded-
// exhaustive decoder matrix (C06) and by C03: one message that carries every J5
// field kind in every position (plain, optional, array element, map value, oneof
// arm, exposed-oneof arm, flattened member, nested member).
package fixschema

import (
	"fmt"

	"github.com/pentops/j5/gen/j5/ext/v1/ext_j5pb"
	"github.com/pentops/j5/internal/bcl/internal/verif/codecx"
	"google.golang.org/protobuf/proto"
	"google.golang.org/protobuf/types/descriptorpb"
)

type Kind struct {
	Name     string
	Type     descriptorpb.FieldDescriptorProto_Type
	TypeName string
	Key      bool
	NoMulti  bool   // no array / map position (any)
	Valid    string // a valid JSON value for this kind
}

const Pkg = "fixed.v1"

var Kinds = []Kind{
	{Name: "string", Type: descriptorpb.FieldDescriptorProto_TYPE_STRING, Valid: `"s"`},
	{Name: "key", Type: descriptorpb.FieldDescriptorProto_TYPE_STRING, Key: true, Valid: `"k"`},
	{Name: "bool", Type: descriptorpb.FieldDescriptorProto_TYPE_BOOL, Valid: `true`},
	{Name: "int32", Type: descriptorpb.FieldDescriptorProto_TYPE_INT32, Valid: `-7`},
	{Name: "int64", Type: descriptorpb.FieldDescriptorProto_TYPE_INT64, Valid: `"-7"`},
	{Name: "uint32", Type: descriptorpb.FieldDescriptorProto_TYPE_UINT32, Valid: `7`},
	{Name: "uint64", Type: descriptorpb.FieldDescriptorProto_TYPE_UINT64, Valid: `"7"`},
	{Name: "float", Type: descriptorpb.FieldDescriptorProto_TYPE_FLOAT, Valid: `1.5`},
	{Name: "double", Type: descriptorpb.FieldDescriptorProto_TYPE_DOUBLE, Valid: `2.5`},
	{Name: "bytes", Type: descriptorpb.FieldDescriptorProto_TYPE_BYTES, Valid: `"AQID"`},
	{Name: "enum", Type: descriptorpb.FieldDescriptorProto_TYPE_ENUM, TypeName: "." + Pkg + ".Color", Valid: `"RED"`},
	{Name: "timestamp", Type: descriptorpb.FieldDescriptorProto_TYPE_MESSAGE, TypeName: ".google.protobuf.Timestamp", Valid: `"2020-01-02T03:04:05Z"`},
	{Name: "date", Type: descriptorpb.FieldDescriptorProto_TYPE_MESSAGE, TypeName: ".j5.types.date.v1.Date", Valid: `"2020-01-02"`},
	{Name: "decimal", Type: descriptorpb.FieldDescriptorProto_TYPE_MESSAGE, TypeName: ".j5.types.decimal.v1.Decimal", Valid: `"1.25"`},
	{Name: "object", Type: descriptorpb.FieldDescriptorProto_TYPE_MESSAGE, TypeName: "." + Pkg + ".Leaf", Valid: `{"leafName":"x"}`},
	{Name: "oneof", Type: descriptorpb.FieldDescriptorProto_TYPE_MESSAGE, TypeName: "." + Pkg + ".Choice", Valid: `{"!type":"leaf","leaf":{"leafName":"x"}}`},
	{Name: "rec", Type: descriptorpb.FieldDescriptorProto_TYPE_MESSAGE, TypeName: "." + Pkg + ".Rec", Valid: `{"next":{"label":"x"}}`},
	{Name: "j5any", Type: descriptorpb.FieldDescriptorProto_TYPE_MESSAGE, TypeName: ".j5.types.any.v1.Any", NoMulti: true, Valid: `{"!type":"fixed.v1.Leaf","value":{"leafName":"x"}}`},
	{Name: "pbany", Type: descriptorpb.FieldDescriptorProto_TYPE_MESSAGE, TypeName: ".google.protobuf.Any", NoMulti: true, Valid: `{"!type":"fixed.v1.Leaf","value":{"leafName":"x"}}`},
}

func camel(s string) string { return string(s[0]-'a'+'A') + s[1:] }

func field(name string, num int32, k Kind) *descriptorpb.FieldDescriptorProto {
	f := &descriptorpb.FieldDescriptorProto{
		Name:   proto.String(name),
		Number: proto.Int32(num),
		Type:   k.Type.Enum(),
		Label:  descriptorpb.FieldDescriptorProto_LABEL_OPTIONAL.Enum(),
	}
	if k.TypeName != "" {
		f.TypeName = proto.String(k.TypeName)
	}
	if k.Key {
		f.Options = &descriptorpb.FieldOptions{}
		proto.SetExtension(f.Options, ext_j5pb.E_Field, &ext_j5pb.FieldOptions{Type: &ext_j5pb.FieldOptions_Key{Key: &ext_j5pb.KeyField{}}})
	}
	return f
}

// allKinds returns a message with one plain field per kind named <prefix>_<kind>.
func allKinds(name, prefix string) *descriptorpb.DescriptorProto {
	d := &descriptorpb.DescriptorProto{Name: proto.String(name)}
	for i, k := range Kinds {
		d.Field = append(d.Field, field(prefix+"_"+k.Name, int32(i+1), k))
	}
	return d
}

// JSON names used by the matrix.
func Plain(k Kind) string    { return "p" + camel(k.Name) }
func Optional(k Kind) string { return "o" + camel(k.Name) }
func Repeated(k Kind) string { return "r" + camel(k.Name) }
func Map(k Kind) string      { return "m" + camel(k.Name) }
func Arm(k Kind) string      { return "a" + camel(k.Name) }
func ExpArm(k Kind) string   { return "e" + camel(k.Name) }
func Flat(k Kind) string     { return "f" + camel(k.Name) }
func Nested(k Kind) string   { return "n" + camel(k.Name) }

// File builds the fixed file.
func File() *descriptorpb.FileDescriptorProto {
	fd := &descriptorpb.FileDescriptorProto{
		Name:    proto.String("fixed/v1/fixed.proto"),
		Package: proto.String(Pkg),
		Syntax:  proto.String("proto3"),
		Dependency: []string{
			"google/protobuf/any.proto", "google/protobuf/timestamp.proto", "j5/ext/v1/annotations.proto",
			"j5/types/any/v1/any.proto", "j5/types/date/v1/date.proto", "j5/types/decimal/v1/decimal.proto",
		},
	}
	fd.EnumType = append(fd.EnumType, &descriptorpb.EnumDescriptorProto{
		Name: proto.String("Color"),
		Value: []*descriptorpb.EnumValueDescriptorProto{
			{Name: proto.String("COLOR_UNSPECIFIED"), Number: proto.Int32(0)},
			{Name: proto.String("COLOR_RED"), Number: proto.Int32(1)},
			{Name: proto.String("COLOR_GREEN"), Number: proto.Int32(2)},
		},
	})
	fd.MessageType = append(fd.MessageType, &descriptorpb.DescriptorProto{
		Name: proto.String("Leaf"),
		Field: []*descriptorpb.FieldDescriptorProto{
			field("leaf_name", 1, Kinds[0]),
			field("leaf_count", 2, Kinds[3]),
		},
	})
	// recursive object
	fd.MessageType = append(fd.MessageType, &descriptorpb.DescriptorProto{
		Name: proto.String("Rec"),
		Field: []*descriptorpb.FieldDescriptorProto{
			field("label", 1, Kinds[0]),
			field("next", 2, Kind{Type: descriptorpb.FieldDescriptorProto_TYPE_MESSAGE, TypeName: "." + Pkg + ".Rec"}),
			{Name: proto.String("kids"), Number: proto.Int32(3), Type: descriptorpb.FieldDescriptorProto_TYPE_MESSAGE.Enum(), TypeName: proto.String("." + Pkg + ".Rec"), Label: descriptorpb.FieldDescriptorProto_LABEL_REPEATED.Enum()},
			field("choice", 4, Kind{Type: descriptorpb.FieldDescriptorProto_TYPE_MESSAGE, TypeName: "." + Pkg + ".RecChoice"}),
		},
	})
	recChoice := &descriptorpb.DescriptorProto{
		Name:      proto.String("RecChoice"),
		OneofDecl: []*descriptorpb.OneofDescriptorProto{{Name: proto.String("type")}},
		Options:   &descriptorpb.MessageOptions{},
		Field: []*descriptorpb.FieldDescriptorProto{
			field("rec", 1, Kind{Type: descriptorpb.FieldDescriptorProto_TYPE_MESSAGE, TypeName: "." + Pkg + ".Rec"}),
			field("again", 2, Kind{Type: descriptorpb.FieldDescriptorProto_TYPE_MESSAGE, TypeName: "." + Pkg + ".RecChoice"}),
		},
	}
	proto.SetExtension(recChoice.Options, ext_j5pb.E_Message, &ext_j5pb.MessageOptions{IsOneofWrapper: true})
	for _, f := range recChoice.Field {
		f.OneofIndex = proto.Int32(0)
	}
	fd.MessageType = append(fd.MessageType, recChoice)

	// small oneof used as the "oneof" kind
	choice := &descriptorpb.DescriptorProto{
		Name:      proto.String("Choice"),
		OneofDecl: []*descriptorpb.OneofDescriptorProto{{Name: proto.String("type")}},
		Options:   &descriptorpb.MessageOptions{},
		Field: []*descriptorpb.FieldDescriptorProto{
			field("leaf", 1, Kind{Type: descriptorpb.FieldDescriptorProto_TYPE_MESSAGE, TypeName: "." + Pkg + ".Leaf"}),
			field("text", 2, Kinds[0]),
		},
	}
	proto.SetExtension(choice.Options, ext_j5pb.E_Message, &ext_j5pb.MessageOptions{IsOneofWrapper: true})
	for _, f := range choice.Field {
		f.OneofIndex = proto.Int32(0)
	}
	fd.MessageType = append(fd.MessageType, choice)

	// wrapper with one arm per kind
	wrap := &descriptorpb.DescriptorProto{
		Name:      proto.String("Wrap"),
		OneofDecl: []*descriptorpb.OneofDescriptorProto{{Name: proto.String("type")}},
		Options:   &descriptorpb.MessageOptions{},
	}
	proto.SetExtension(wrap.Options, ext_j5pb.E_Message, &ext_j5pb.MessageOptions{IsOneofWrapper: true})
	for i, k := range Kinds {
		f := field("a_"+k.Name, int32(i+1), k)
		f.OneofIndex = proto.Int32(0)
		wrap.Field = append(wrap.Field, f)
	}
	fd.MessageType = append(fd.MessageType, wrap)
	fd.MessageType = append(fd.MessageType, allKinds("Flat", "f"))
	fd.MessageType = append(fd.MessageType, allKinds("Nest", "n"))

	all := &descriptorpb.DescriptorProto{Name: proto.String("All")}
	num := int32(0)
	next := func() int32 { num++; return num }
	for _, k := range Kinds {
		all.Field = append(all.Field, field("p_"+k.Name, next(), k))
	}
	for _, k := range Kinds {
		f := field("o_"+k.Name, next(), k)
		f.Proto3Optional = proto.Bool(true)
		all.Field = append(all.Field, f)
	}
	for _, k := range Kinds {
		if k.NoMulti {
			continue
		}
		f := field("r_"+k.Name, next(), k)
		f.Label = descriptorpb.FieldDescriptorProto_LABEL_REPEATED.Enum()
		all.Field = append(all.Field, f)
	}
	for _, k := range Kinds {
		if k.NoMulti {
			continue
		}
		entry := fmt.Sprintf("M%sEntry", camel(k.Name))
		vf := field("value", 2, Kind{Type: k.Type, TypeName: k.TypeName})
		all.NestedType = append(all.NestedType, &descriptorpb.DescriptorProto{
			Name:    proto.String(entry),
			Field:   []*descriptorpb.FieldDescriptorProto{field("key", 1, Kinds[0]), vf},
			Options: &descriptorpb.MessageOptions{MapEntry: proto.Bool(true)},
		})
		f := &descriptorpb.FieldDescriptorProto{
			Name: proto.String("m_" + k.Name), Number: proto.Int32(next()),
			Type:     descriptorpb.FieldDescriptorProto_TYPE_MESSAGE.Enum(),
			TypeName: proto.String("." + Pkg + ".All." + entry),
			Label:    descriptorpb.FieldDescriptorProto_LABEL_REPEATED.Enum(),
		}
		all.Field = append(all.Field, f)
	}
	all.Field = append(all.Field, field("w", next(), Kind{Type: descriptorpb.FieldDescriptorProto_TYPE_MESSAGE, TypeName: "." + Pkg + ".Wrap"}))
	all.Field = append(all.Field, field("n", next(), Kind{Type: descriptorpb.FieldDescriptorProto_TYPE_MESSAGE, TypeName: "." + Pkg + ".Nest"}))
	flat := field("flat", next(), Kind{Type: descriptorpb.FieldDescriptorProto_TYPE_MESSAGE, TypeName: "." + Pkg + ".Flat"})
	flat.Options = &descriptorpb.FieldOptions{}
	proto.SetExtension(flat.Options, ext_j5pb.E_Field, &ext_j5pb.FieldOptions{Type: &ext_j5pb.FieldOptions_Object{Object: &ext_j5pb.ObjectField{Flatten: true}}})
	all.Field = append(all.Field, flat)
	// exposed oneof with one arm per kind
	od := &descriptorpb.OneofDescriptorProto{Name: proto.String("exp"), Options: &descriptorpb.OneofOptions{}}
	proto.SetExtension(od.Options, ext_j5pb.E_Oneof, &ext_j5pb.OneofOptions{Expose: true})
	all.OneofDecl = append(all.OneofDecl, od)
	for _, k := range Kinds {
		f := field("e_"+k.Name, next(), k)
		f.OneofIndex = proto.Int32(0)
		all.Field = append(all.Field, f)
	}
	// synthetic oneofs for the optional fields come after the real one
	for _, f := range all.Field {
		if f.GetProto3Optional() {
			f.OneofIndex = proto.Int32(int32(len(all.OneofDecl)))
			all.OneofDecl = append(all.OneofDecl, &descriptorpb.OneofDescriptorProto{Name: proto.String("_" + f.GetName())})
		}
	}
	fd.MessageType = append(fd.MessageType, all)
	return fd
}

// Schema links the fixed file.
func Schema() (*codecx.Schema, error) {
	return codecx.NewSchema(File())
}
