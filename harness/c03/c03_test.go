package c03

import (
	"encoding/base64"
	"encoding/json"
	"fmt"
	"net/url"
	"regexp"
	"strconv"
	"strings"
	"testing"
	"time"

	"github.com/pentops/j5/internal/bcl/internal/verif/codecx"
	"github.com/pentops/j5/internal/bcl/internal/verif/j5ref"
	"github.com/pentops/j5/internal/bcl/internal/verif/jx"
	"github.com/pentops/j5/internal/bcl/internal/verif/vf"
	"google.golang.org/protobuf/reflect/protoreflect"
	"google.golang.org/protobuf/types/dynamicpb"
	"pgregory.net/rapid"
)

const prop = "C03"

// docCase: schema + original message + the document offered to the decoder.
type docCase struct {
	codecx.Case
	Lane  string              `json:"lane"` // spelling | fault | query
	Doc   string              `json:"document"`
	Query map[string][]string `json:"query,omitempty"`
	Canon string              `json:"canonical,omitempty"` // for query: canonical JSON of the same members
	What  string              `json:"what"`
	// EarlierDocs: documents offered to a decoder for the same root earlier in the
	// same generated case (a session); replay offers them first.
	EarlierDocs []string `json:"earlier_documents,omitempty"`
}

// session replays the earlier documents of the case (their verdicts were given
// when they were the subject).
func session(s *codecx.Schema, md protoreflect.MessageDescriptor, docs []string) {
	for _, d := range docs {
		vf.GuardTimed("JSONToProto", callLimit, func() { _ = s.NewCodec().JSONToProto([]byte(d), dynamicpb.NewMessage(md)) })
	}
}

func laneDoc(raw json.RawMessage) ([]vf.Failure, error) {
	var c docCase
	if err := json.Unmarshal(raw, &c); err != nil {
		return nil, err
	}
	s, msg, err := c.Build()
	if err != nil {
		return nil, err
	}
	session(s, msg.Descriptor(), c.EarlierDocs)
	return check(s, msg, c), nil
}

var lanes = map[string]vf.LaneFunc{"spelling": laneDoc, "fault": laneDoc, "query": laneDoc, "spelling-j5s": laneDoc, "fault-j5s": laneDoc, "query-j5s": laneDoc}

// source selects the schema source of the running lane: raw (G2) or j5s (G1 compiled).
var source = "raw"

func TestReplay(t *testing.T) {
	if !vf.RunReplayMode(t, prop, lanes) {
		t.Skip("no VERIF_REPLAY")
	}
}

func TestWitness(t *testing.T) { vf.Witnesses(t, prop, lanes) }

const callLimit = 20 * time.Second

func check(s *codecx.Schema, orig protoreflect.Message, c docCase) (fails []vf.Failure) {
	cdc := s.NewCodec()
	md := orig.Descriptor()
	q := &j5ref.Equiv{Types: s.Resolver()}
	switch c.Lane {
	case "spelling":
		got := dynamicpb.NewMessage(md)
		var err error
		if f := vf.GuardTimed("JSONToProto", callLimit, func() { err = cdc.JSONToProto([]byte(c.Doc), got) }); f != nil {
			return []vf.Failure{*f}
		}
		if err != nil {
			return []vf.Failure{vf.Failf("spelling|rejected|"+c.What, "documented spelling (%s) rejected: %v\ndocument: %s", c.What, err, clip(c.Doc))}
		}
		if cls, d := q.Diff(orig, got, string(md.Name())); cls != "" {
			return []vf.Failure{vf.Failf("spelling|diff|"+c.What+"|"+cls, "spelling %s changes the message: %s\ndocument: %s", c.What, d, clip(c.Doc))}
		}
		// "produce the same message as the canonical spelling": the two decodes are
		// compared literally (presence included; decimals and Any by value)
		if c.Canon != "" {
			want := dynamicpb.NewMessage(md)
			if err := cdc.JSONToProto([]byte(c.Canon), want); err == nil {
				strict := &j5ref.Equiv{Types: s.Resolver(), Strict: true}
				// a j5 Any keeps its payload as the JSON it was given: payloads are
				// compared as the messages they decode to
				strict.DecodeJSON = func(typeName string, data []byte) (protoreflect.Message, error) {
					mt, err := s.Resolver().FindMessageByName(protoreflect.FullName(typeName))
					if err != nil {
						return nil, err
					}
					inner := mt.New()
					if err := cdc.JSONToProto(data, inner); err != nil {
						return nil, err
					}
					return inner, nil
				}
				if cls, d := strict.Diff(want, got, string(md.Name())); cls != "" {
					return []vf.Failure{vf.Failf("spelling|differs-from-canonical|"+c.What+"|"+cls, "spelling %s decodes to a different message than the canonical spelling: %s\ndocument: %s\ncanonical: %s", c.What, d, clip(c.Doc), clip(c.Canon))}
				}
			}
		}
	case "fault":
		got := dynamicpb.NewMessage(md)
		var err error
		if f := vf.GuardTimed("JSONToProto", callLimit, func() { err = cdc.JSONToProto([]byte(c.Doc), got) }); f != nil {
			return []vf.Failure{*f}
		}
		if err == nil {
			return []vf.Failure{vf.Failf("fault|accepted|"+c.What, "document with fault %q accepted\ndocument: %s", c.What, clip(c.Doc))}
		}
	case "query":
		want := dynamicpb.NewMessage(md)
		if err := cdc.JSONToProto([]byte(c.Canon), want); err != nil {
			return []vf.Failure{vf.Failf("harness|canon", "canonical subset document rejected: %v\n%s", err, c.Canon)}
		}
		got := dynamicpb.NewMessage(md)
		var err error
		if f := vf.GuardTimed("QueryToProto", callLimit, func() { err = cdc.QueryToProto(url.Values(c.Query), got) }); f != nil {
			return []vf.Failure{*f}
		}
		if err != nil {
			return []vf.Failure{vf.Failf("query|rejected|"+c.What, "scalar values as query parameters rejected (%s): %v\nquery: %q", c.What, err, c.Query)}
		}
		if cls, d := q.Diff(want, got, string(md.Name())); cls != "" {
			return []vf.Failure{vf.Failf("query|diff|"+c.What+"|"+cls, "query spelling differs from JSON spelling: %s\nquery: %q\njson: %s", d, c.Query, c.Canon)}
		}
	}
	return nil
}

func clip(s string) string {
	if len(s) > 700 {
		return s[:700] + "…"
	}
	return s
}

// ---------------------------------------------------------------------------
// spelling variations (meaning preserving)

var jsonNumRe = regexp.MustCompile(`^-?(0|[1-9][0-9]*)(\.[0-9]+)?$`)

type enumInfo struct {
	prefix    string
	ambiguous bool
	shorts    []string
}

func enumOf(s *codecx.Schema, full string) *enumInfo {
	var found protoreflect.EnumDescriptor
	for _, fd := range s.FDs {
		var walk func(enums protoreflect.EnumDescriptors, msgs protoreflect.MessageDescriptors)
		walk = func(enums protoreflect.EnumDescriptors, msgs protoreflect.MessageDescriptors) {
			for i := 0; i < enums.Len(); i++ {
				if string(enums.Get(i).FullName()) == full {
					found = enums.Get(i)
				}
			}
			for i := 0; i < msgs.Len(); i++ {
				walk(msgs.Get(i).Enums(), msgs.Get(i).Messages())
			}
		}
		walk(fd.Enums(), fd.Messages())
	}
	if found == nil {
		return nil
	}
	ei := &enumInfo{prefix: j5ref.EnumPrefix(found)}
	for i := 0; i < found.Values().Len(); i++ {
		sh := strings.TrimPrefix(string(found.Values().Get(i).Name()), ei.prefix)
		ei.shorts = append(ei.shorts, sh)
	}
	for _, sh := range ei.shorts {
		for _, other := range ei.shorts {
			if ei.prefix+sh == other || strings.HasPrefix(sh, ei.prefix) {
				ei.ambiguous = true
			}
		}
	}
	return ei
}

// vary applies spelling variations in place and returns their names.
func vary(t *rapid.T, s *codecx.Schema, root *jx.Value) []string {
	applied := map[string]bool{}
	var rec func(v *jx.Value, inAny bool)
	rec = func(v *jx.Value, inAny bool) {
		tag := v.Sem
		switch v.Kind {
		case jx.Obj:
			if strings.HasPrefix(tag, "object:") && !inAny && rapid.IntRange(0, 3).Draw(t, "addnull") == 0 {
				if md := s.Find(strings.TrimPrefix(tag, "object:")); md != nil {
					for _, p := range j5ref.Props(md) {
						if v.Get(p.Name) == nil && rapid.IntRange(0, 2).Draw(t, "nullthis") == 0 {
							v.Members = append(v.Members, jx.Member{Key: p.Name, Val: jx.NullV()})
							applied["explicit-null"] = true
						}
					}
				}
			}
			if len(v.Members) > 1 && rapid.IntRange(0, 2).Draw(t, "reorder") == 0 {
				perm := rapid.Permutation(v.Members).Draw(t, "perm")
				v.Members = perm
				applied["reorder"] = true
			}
			for _, m := range v.Members {
				rec(m.Val, inAny || tag == "any")
			}
		case jx.Arr:
			for _, it := range v.Items {
				rec(it, inAny)
			}
		case jx.Num:
			if rapid.IntRange(0, 1).Draw(t, "quote") == 0 {
				switch tag {
				case "int32", "uint32":
					v.Kind, v.Sem = jx.Str, ""
					applied["quoted-int32"] = true
				case "f32", "f64":
					v.Kind, v.Sem = jx.Str, ""
					applied["quoted-float"] = true
				}
			}
		case jx.Str:
			if rapid.IntRange(0, 1).Draw(t, "alt") != 0 {
				return
			}
			switch {
			case tag == "int64" || tag == "uint64":
				v.Kind, v.Sem = jx.Num, ""
				if tag == "uint64" {
					if u, _ := strconv.ParseUint(v.S, 10, 64); u > 1<<63-1 {
						applied["bare-uint64>maxint64"] = true
						return
					}
				}
				applied["bare-int64"] = true
			case tag == "decimal":
				if jsonNumRe.MatchString(v.S) {
					v.Kind, v.Sem = jx.Num, ""
					applied["bare-decimal"] = true
				}
			case tag == "bytes":
				raw, err := base64.StdEncoding.DecodeString(v.S)
				if err != nil {
					return
				}
				switch rapid.IntRange(0, 2).Draw(t, "b64") {
				case 0:
					v.S = base64.URLEncoding.EncodeToString(raw)
					applied["base64-url"] = true
				case 1:
					v.S = base64.RawStdEncoding.EncodeToString(raw)
					applied["base64-nopad"] = true
				default:
					v.S = base64.RawURLEncoding.EncodeToString(raw)
					applied["base64-url-nopad"] = true
				}
			case strings.HasPrefix(tag, "enum:"):
				ei := enumOf(s, strings.TrimPrefix(tag, "enum:"))
				if ei != nil && !ei.ambiguous {
					v.S = ei.prefix + v.S
					applied["enum-with-prefix"] = true
				}
			case tag == "timestamp":
				tm, err := time.Parse(time.RFC3339Nano, v.S)
				if err != nil {
					return
				}
				off := rapid.SampledFrom([]int{19800, -28800, 3600, -3600, 45 * 60, 0}).Draw(t, "tzoff")
				shifted := tm.In(time.FixedZone("", off))
				if shifted.Year() < 1 || shifted.Year() > 9999 {
					return
				}
				v.S = shifted.Format(time.RFC3339Nano)
				applied["timestamp-offset"] = true
			}
		}
	}
	rec(root, false)
	var out []string
	for k := range applied {
		out = append(out, k)
	}
	sortStrings(out)
	return out
}

func sortStrings(s []string) {
	for i := 1; i < len(s); i++ {
		for j := i; j > 0 && s[j] < s[j-1]; j-- {
			s[j], s[j-1] = s[j-1], s[j]
		}
	}
}

// noisy renders the tree with insignificant whitespace.
func noisy(t *rapid.T, v *jx.Value) string {
	wsPool := []string{"", "", " ", "\n", "\t", " \r\n ", "  "}
	var sb strings.Builder
	ws := func() { sb.WriteString(rapid.SampledFrom(wsPool).Draw(t, "ws")) }
	var rec func(v *jx.Value)
	rec = func(v *jx.Value) {
		switch v.Kind {
		case jx.Arr:
			sb.WriteByte('[')
			for i, it := range v.Items {
				if i > 0 {
					sb.WriteByte(',')
				}
				ws()
				rec(it)
				ws()
			}
			if len(v.Items) == 0 {
				ws()
			}
			sb.WriteByte(']')
		case jx.Obj:
			sb.WriteByte('{')
			for i, m := range v.Members {
				if i > 0 {
					sb.WriteByte(',')
				}
				ws()
				sb.Write(jx.S(m.Key).Bytes())
				ws()
				sb.WriteByte(':')
				ws()
				rec(m.Val)
				ws()
			}
			if len(v.Members) == 0 {
				ws()
			}
			sb.WriteByte('}')
		default:
			sb.Write(v.Bytes())
		}
	}
	ws()
	rec(v)
	ws()
	return sb.String()
}

// ---------------------------------------------------------------------------
// single-fault injection

type site struct {
	slot  **jx.Value
	depth int
	pos   string
}

func sites(root **jx.Value) []site {
	var out []site
	var rec func(s **jx.Value, depth int, pos string, inAny bool)
	rec = func(s **jx.Value, depth int, pos string, inAny bool) {
		v := *s
		if !inAny {
			out = append(out, site{s, depth, pos})
		}
		switch v.Kind {
		case jx.Arr:
			for i := range v.Items {
				rec(&v.Items[i], depth+1, "array-element", inAny)
			}
		case jx.Obj:
			childPos := "object-member"
			switch {
			case strings.HasPrefix(v.Sem, "oneof:"), strings.HasPrefix(v.Sem, "exposed:"):
				childPos = "oneof-arm"
			case v.Sem == "map":
				childPos = "map-value"
			}
			for i := range v.Members {
				if v.Members[i].Key == "!type" {
					continue
				}
				// the pre-encoded payload of an Any is opaque to the outer decoder
				rec(&v.Members[i].Val, depth+1, childPos, inAny || v.Sem == "any")
			}
		}
	}
	rec(root, 0, "top", false)
	return out
}

func raw(text string) *jx.Value { return jx.N(text) } // written verbatim

// inject applies exactly one fault at the site; returns its name or "".
func inject(t *rapid.T, s *codecx.Schema, st site) string {
	v := *st.slot
	tag := v.Sem
	pick := func(label string, opts ...string) string { return rapid.SampledFrom(opts).Draw(t, label) }
	switch {
	case tag == "int32":
		switch pick("f", "type", "unparsable", "range", "fraction") {
		case "type":
			*st.slot = raw(pick("wt", "true", "{}", "[]"))
			return "wrong-type:int32"
		case "unparsable":
			*st.slot = jx.S(pick("up", "abc", "1x", "", "0x10", "1 "))
			return "unparsable-number:int32"
		case "range":
			lit := pick("rg", "2147483648", "-2147483649", "9223372036854775808", "99999999999999999999", "3e9", "2147483648.0", "2e19", "18446744073709551621.0")
			if rapid.Bool().Draw(t, "quoted") {
				*st.slot = jx.S(lit)
			} else {
				*st.slot = raw(lit)
			}
			return "out-of-range:int32"
		default:
			*st.slot = raw("1.5")
			return "fraction-into-integer:int32"
		}
	case tag == "uint32":
		switch pick("f", "type", "unparsable", "range") {
		case "type":
			*st.slot = raw(pick("wt", "false", "{}", "[]"))
			return "wrong-type:uint32"
		case "unparsable":
			*st.slot = jx.S(pick("up", "abc", "1x", ""))
			return "unparsable-number:uint32"
		default:
			lit := pick("rg", "4294967296", "-1", "18446744073709551616", "5e9", "4294967296.0", "2e19")
			if rapid.Bool().Draw(t, "quoted") {
				*st.slot = jx.S(lit)
			} else {
				*st.slot = raw(lit)
			}
			return "out-of-range:uint32"
		}
	case tag == "int64":
		switch pick("f", "type", "unparsable", "range") {
		case "type":
			*st.slot = raw(pick("wt", "true", "{}", "[]"))
			return "wrong-type:int64"
		case "unparsable":
			*st.slot = jx.S(pick("up", "abc", "12a", "", "1.5"))
			return "unparsable-number:int64"
		default:
			lit := pick("rg", "9223372036854775808", "-9223372036854775809", "99999999999999999999", "1e19", "9223372036854775808.0", "2e19", "18446744073709551621.0")
			if rapid.Bool().Draw(t, "quoted") {
				*st.slot = jx.S(lit)
			} else {
				*st.slot = raw(lit)
			}
			return "out-of-range:int64"
		}
	case tag == "uint64":
		switch pick("f", "type", "unparsable", "range") {
		case "type":
			*st.slot = raw(pick("wt", "true", "{}", "[]"))
			return "wrong-type:uint64"
		case "unparsable":
			*st.slot = jx.S(pick("up", "abc", "12a", ""))
			return "unparsable-number:uint64"
		default:
			lit := pick("rg", "18446744073709551616", "-1", "99999999999999999999", "2e19", "18446744073709551616.0", "1e30")
			if rapid.Bool().Draw(t, "quoted") {
				*st.slot = jx.S(lit)
			} else {
				*st.slot = raw(lit)
			}
			return "out-of-range:uint64"
		}
	case tag == "f32" || tag == "f64":
		switch pick("f", "type", "unparsable", "range") {
		case "type":
			*st.slot = raw(pick("wt", "true", "{}", "[]"))
			return "wrong-type:float"
		case "unparsable":
			*st.slot = jx.S(pick("up", "abc", "1.2.3", "", "1,5"))
			return "unparsable-number:float"
		default:
			if tag == "f32" {
				*st.slot = raw(pick("rg", "1e39", "-3.5e38", "1e400"))
				return "out-of-range:float32"
			}
			*st.slot = raw(pick("rg", "1e400", "-1e999"))
			return "out-of-range:float64"
		}
	case tag == "bool":
		*st.slot = raw(pick("wt", "1", "0", "{}", "[]", `"yes"`))
		return "wrong-type:bool"
	case tag == "string":
		*st.slot = raw(pick("wt", "5", "true", "{}", "[]"))
		return "wrong-type:string"
	case tag == "bytes":
		if rapid.Bool().Draw(t, "f") {
			*st.slot = raw(pick("wt", "5", "true", "{}", "[]"))
			return "wrong-type:bytes"
		}
		*st.slot = jx.S(pick("b64", "!!!!", "A", "AQI*", "=AQID", "AQ=D"))
		return "invalid-base64"
	case strings.HasPrefix(tag, "enum:"):
		if rapid.Bool().Draw(t, "f") {
			*st.slot = raw(pick("wt", "1", "true", "{}", "[]"))
			return "wrong-type:enum"
		}
		*st.slot = jx.S(pick("en", "NO_SUCH_OPTION", "", "unspecified", v.S+"X"))
		return "unknown-enum-name"
	case tag == "timestamp":
		if rapid.Bool().Draw(t, "f") {
			*st.slot = raw(pick("wt", "5", "true", "{}", "[]"))
			return "wrong-type:timestamp"
		}
		*st.slot = jx.S(pick("ts", "2020-01-01", "not a time", "2020-01-01T00:00:00", "2020-13-01T00:00:00Z", ""))
		return "invalid-timestamp"
	case tag == "date":
		if rapid.Bool().Draw(t, "f") {
			*st.slot = raw(pick("wt", "5", "true", "{}", "[]"))
			return "wrong-type:date"
		}
		*st.slot = jx.S(pick("dt", "2020-01", "20200101", "abcd-01-01", "2020-01-01-01", "", "2020/01/01", "2020-13-01", "2020-00-10", "2021-02-29", "2020-02-30", "2020-04-31", "2020-01-32", "2020-01-00", "4294969316-01-01", "2020-4294967297-01", "2020-01-4294967297", "99999999999999999999-01-01"))
		return "invalid-date"
	case tag == "decimal":
		if rapid.Bool().Draw(t, "f") {
			*st.slot = raw(pick("wt", "true", "{}", "[]"))
			return "wrong-type:decimal"
		}
		*st.slot = jx.S(pick("dc", "1.2.3", "abc", "", "1,5", "--1"))
		return "invalid-decimal"
	case tag == "array":
		*st.slot = raw(pick("wt", "5", `"x"`, "{}", "true"))
		return "wrong-type:array"
	case tag == "map":
		*st.slot = raw(pick("wt", "5", `"x"`, "[]", "true"))
		return "wrong-type:map"
	case tag == "any":
		*st.slot = raw(pick("wt", "5", `"x"`, "[]", "true"))
		return "wrong-type:any"
	case strings.HasPrefix(tag, "object:"):
		choice := pick("f", "type", "unknown-key", "plain-oneof")
		if choice == "plain-oneof" {
			// two members of one proto oneof whose members are plain properties of
			// the object: only one can be stored, so the document must be refused
			if md := s.Find(strings.TrimPrefix(tag, "object:")); md != nil {
				flat := map[string]bool{}
				for _, p := range j5ref.Props(md) {
					flat[p.Name] = true
				}
				present := map[string]bool{}
				for _, m := range v.Members {
					if m.Val != nil && m.Val.Kind != jx.Null {
						present[m.Key] = true
					}
				}
				for i := 0; i < md.Oneofs().Len(); i++ {
					od := md.Oneofs().Get(i)
					if od.IsSynthetic() {
						continue
					}
					var have, add protoreflect.FieldDescriptor
					for k := 0; k < od.Fields().Len(); k++ {
						fd := od.Fields().Get(k)
						if !flat[fd.JSONName()] {
							have, add = nil, nil
							break
						}
						if present[fd.JSONName()] {
							have = fd
						} else if add == nil && simpleValid(fd) != nil {
							add = fd
						}
					}
					if have != nil && add != nil {
						v.Members = append(v.Members, jx.Member{Key: add.JSONName(), Val: simpleValid(add)})
						if rapid.Bool().Draw(t, "plainfirst") {
							last := len(v.Members) - 1
							v.Members[0], v.Members[last] = v.Members[last], v.Members[0]
						}
						return "two-members-of-plain-oneof"
					}
				}
			}
			choice = "unknown-key"
		}
		switch choice {
		case "type":
			if st.depth == 0 {
				*st.slot = raw(pick("wt", "5", `"x"`, "[]", "true", "null"))
			} else {
				*st.slot = raw(pick("wt", "5", `"x"`, "[]", "true"))
			}
			return "wrong-type:object"
		default:
			key := pick("uk", "noSuchField", "", "NoSuchField", "no_such_field", "sibling", "sibling", "sibling")
			if key == "sibling" {
				// another spelling of a member the object does have: snake_case,
				// UpperCamel, all lower case, a trailing underscore. Not its JSON name,
				// so an unknown key - and one a lenient lookup would take for the member
				key = "noSuchField"
				if md := s.Find(strings.TrimPrefix(tag, "object:")); md != nil {
					var names, absent []string
					inDoc := map[string]bool{}
					for _, m := range v.Members {
						inDoc[m.Key] = true
					}
					for _, p := range j5ref.Props(md) {
						names = append(names, p.Name)
						// a member the document leaves out, with a value it would take
						if fd := md.Fields().ByJSONName(p.Name); fd != nil && !inDoc[p.Name] && simpleValid(fd) != nil && fd.ContainingOneof() == nil {
							absent = append(absent, p.Name)
						}
					}
					if len(absent) > 0 {
						n := rapid.SampledFrom(absent).Draw(t, "siblingname")
						var snake strings.Builder
						for i, r := range n {
							if r >= 'A' && r <= 'Z' {
								if i > 0 {
									snake.WriteByte('_')
								}
								r = r - 'A' + 'a'
							}
							snake.WriteRune(r)
						}
						alt := pick("respell", snake.String(), strings.ToUpper(n[:1])+n[1:], strings.ToLower(n), n+"_", "_"+n)
						taken := false
						for _, x := range names {
							if x == alt {
								taken = true
							}
						}
						for _, m := range v.Members {
							if m.Key == alt {
								taken = true
							}
						}
						if !taken && alt != n {
							key = alt
							v.Members = append(v.Members, jx.Member{Key: key, Val: simpleValid(md.Fields().ByJSONName(n))})
							return "unknown-key:respelled-sibling"
						}
					}
				}
			}
			v.Members = append(v.Members, jx.Member{Key: key, Val: jx.S("x")})
			return "unknown-key"
		}
	case strings.HasPrefix(tag, "oneof:") || strings.HasPrefix(tag, "exposed:"):
		var names []string
		if strings.HasPrefix(tag, "oneof:") {
			md := s.Find(strings.TrimPrefix(tag, "oneof:"))
			if md != nil {
				for _, p := range j5ref.Props(md) {
					names = append(names, p.Name)
				}
			}
		} else {
			full := strings.TrimPrefix(tag, "exposed:")
			for _, md := range s.Msgs {
				for i := 0; i < md.Oneofs().Len(); i++ {
					if string(md.Oneofs().Get(i).FullName()) == full {
						fs := md.Oneofs().Get(i).Fields()
						for k := 0; k < fs.Len(); k++ {
							names = append(names, fs.Get(k).JSONName())
						}
					}
				}
			}
		}
		var armKey string
		var armVal *jx.Value
		for _, m := range v.Members {
			if m.Key != "!type" {
				armKey, armVal = m.Key, m.Val
			}
		}
		if armVal == nil {
			// empty oneof: only faults that do not need an arm
			v.Members = append(v.Members, jx.Member{Key: "noSuchArm", Val: jx.S("x")})
			return "unknown-key:oneof"
		}
		var others []string
		for _, n := range names {
			if n != armKey {
				others = append(others, n)
			}
		}
		choice := pick("f", "type", "unknown-key", "two-keys", "type-mismatch")
		if len(others) == 0 && (choice == "two-keys" || choice == "type-mismatch") {
			choice = "unknown-key"
		}
		switch choice {
		case "type":
			*st.slot = raw(pick("wt", "5", `"x"`, "[]", "true"))
			return "wrong-type:oneof"
		case "unknown-key":
			v.Members = append(v.Members, jx.Member{Key: "noSuchArm", Val: jx.S("x")})
			return "unknown-key:oneof"
		case "two-keys":
			// a second, different arm. Its value: reuse null-free simplest valid?
			// A second arm with any non-null value is a fault regardless of that
			// value's validity, so an empty object / string is enough when typed
			// compatibly; use the same value under the same-kinded arm if any.
			other := rapid.SampledFrom(others).Draw(t, "otherarm")
			v.Members = append(v.Members, jx.Member{Key: other, Val: armVal.Clone()})
			if rapid.Bool().Draw(t, "extrafirst") {
				for i, j := 0, len(v.Members)-1; i < j; i, j = i+1, j-1 {
					v.Members[i], v.Members[j] = v.Members[j], v.Members[i]
				}
			}
			return "two-keys-in-oneof"
		default:
			other := rapid.SampledFrom(others).Draw(t, "otherarm")
			for i := range v.Members {
				if v.Members[i].Key == "!type" {
					v.Members[i].Val = jx.S(other)
				}
			}
			// member order is free in JSON: the contradicting "!type" may come after
			// the arm it contradicts
			if rapid.Bool().Draw(t, "typelast") {
				for i, j := 0, len(v.Members)-1; i < j; i, j = i+1, j-1 {
					v.Members[i], v.Members[j] = v.Members[j], v.Members[i]
				}
				return "type-contradicts-key:type-last"
			}
			return "type-contradicts-key"
		}
	}
	return ""
}

// ---------------------------------------------------------------------------

func drawBase(t *rapid.T) (*codecx.Schema, protoreflect.Message, *jx.Value, map[string]bool) {
	s, err := codecx.DrawFrom(t, source)
	if err != nil {
		t.Fatalf("generator: %v", err)
	}
	md := s.Msgs[0]
	if rapid.IntRange(0, 3).Draw(t, "otherroot") == 0 {
		md = rapid.SampledFrom(s.Msgs).Draw(t, "root")
	}
	ctx := s.MsgCtx(false)
	msg := ctx.Message(t, md, 0, "m.")
	enc := &j5ref.Encoder{Types: s.Resolver()}
	tree, err := enc.Encode(msg)
	if err != nil {
		t.Fatalf("reference encoder: %v", err)
	}
	return s, msg, tree, ctx.Classes
}

func TestSpelling(t *testing.T) { runSpelling(t, "spelling") }
func TestSpellingCompiled(t *testing.T) {
	source = "j5s"
	runSpelling(t, "spelling-j5s")
}

func runSpelling(t *testing.T, lane string) {
	r := vf.Start(t, prop, lane)
	rapid.Check(t, func(t *rapid.T) {
		s, msg, tree, _ := drawBase(t)
		for i := 0; i < 4; i++ {
			v := tree.Clone()
			applied := vary(t, s, v)
			doc := noisy(t, v)
			if doc != string(v.Bytes()) {
				applied = append(applied, "whitespace")
			}
			c := docCase{Case: s.Case(msg, source), Lane: "spelling", Doc: doc, Canon: string(tree.Bytes()), What: strings.Join(applied, "+")}
			cls := []string{}
			for _, a := range applied {
				cls = append(cls, "var:"+a)
			}
			r.Eval(len(applied) >= 2, vf.Hash(c.Files, c.Root, doc), cls...)
			if len(applied) >= 3 && len(doc) < 400 && r.WantSample() {
				r.Sample(map[string]string{"root": c.Root, "document": doc, "variations": c.What})
			}
			fails := check(s, msg, c)
			// key failures by the single variation when it can be isolated
			r.Judge(t, c, refine(s, msg, tree, c, fails))
		}
	})
}

// refine re-tries a failing multi-variation document to find which single
// variation is responsible, so the finding key names it.
// simpleValid returns a value every decoder accepts for a singular scalar field of
// the kind, nil for kinds this helper does not cover.
func simpleValid(fd protoreflect.FieldDescriptor) *jx.Value {
	if fd.IsList() || fd.IsMap() {
		return nil
	}
	switch fd.Kind() {
	case protoreflect.StringKind:
		if fd.Options() != nil && fd.Options().ProtoReflect().IsValid() && len(fd.Options().ProtoReflect().GetUnknown()) == 0 && fieldHasOptions(fd) {
			return nil // annotated strings (keys, dates-as-strings) have formats of their own
		}
		return jx.S("x")
	case protoreflect.BoolKind:
		return raw("true")
	case protoreflect.Int32Kind, protoreflect.Sint32Kind, protoreflect.Uint32Kind:
		return raw("1")
	case protoreflect.Int64Kind, protoreflect.Sint64Kind, protoreflect.Uint64Kind:
		return jx.S("1")
	case protoreflect.DoubleKind, protoreflect.FloatKind:
		return raw("1.5")
	}
	return nil
}

func fieldHasOptions(fd protoreflect.FieldDescriptor) bool {
	n := 0
	fd.Options().ProtoReflect().Range(func(protoreflect.FieldDescriptor, protoreflect.Value) bool { n++; return true })
	return n > 0
}

func refine(s *codecx.Schema, msg protoreflect.Message, tree *jx.Value, c docCase, fails []vf.Failure) []vf.Failure {
	return fails
}

func TestFault(t *testing.T) { runFault(t, "fault") }
func TestFaultCompiled(t *testing.T) {
	source = "j5s"
	runFault(t, "fault-j5s")
}

func runFault(t *testing.T, lane string) {
	r := vf.Start(t, prop, lane)
	rapid.Check(t, func(t *rapid.T) {
		s, msg, tree, _ := drawBase(t)
		var offered []string
		for i := 0; i < 6; i++ {
			v := tree.Clone()
			ss := sites(&v)
			if len(ss) == 0 {
				r.Discard()
				continue
			}
			// prefer leaves: containers are few but large, scalars carry most fault classes
			var leaves []site
			for _, x := range ss {
				if k := (*x.slot).Kind; k != jx.Obj && k != jx.Arr {
					leaves = append(leaves, x)
				}
			}
			pool := ss
			if len(leaves) > 0 && rapid.IntRange(0, 9).Draw(t, "leaf") < 7 {
				pool = leaves
			}
			st := pool[rapid.IntRange(0, len(pool)-1).Draw(t, "site")]
			what := inject(t, s, st)
			if what == "" {
				r.Discard()
				continue
			}
			doc := string(v.Bytes())
			c := docCase{Case: s.Case(msg, source), Lane: "fault", Doc: doc, What: what, EarlierDocs: append([]string(nil), offered...)}
			offered = append(offered, doc)
			r.Eval(st.depth >= 1, vf.Hash(c.Files, c.Root, doc), "fault:"+what, "pos:"+st.pos, fmt.Sprintf("depth:%d", min(st.depth, 4)))
			if st.depth >= 2 && len(doc) < 400 && r.WantSample() {
				r.Sample(map[string]string{"root": c.Root, "document": doc, "fault": what, "position": st.pos})
			}
			r.Judge(t, c, check(s, msg, c))
		}
		// after the refused documents, the canonical one must still decode to the
		// message it was encoded from
		if len(offered) > 0 {
			doc := string(tree.Bytes())
			c := docCase{Case: s.Case(msg, source), Lane: "spelling", Doc: doc, What: "after-refused-documents", EarlierDocs: offered}
			r.Eval(true, vf.Hash(c.Files, c.Root, doc, offered), "session:canonical-after-faults")
			r.Judge(t, c, check(s, msg, c))
		}
	})
}

// query lane: scalar members (top level, dotted paths into nested objects,
// scalar arrays as repeated values) moved to url.Values.
func TestQuery(t *testing.T) { runQuery(t, "query") }
func TestQueryCompiled(t *testing.T) {
	source = "j5s"
	runQuery(t, "query-j5s")
}

var listShaped = []string{"a,b", "1,2,3", "Smith, John", ",", "a,", ",a", "a;b", "a|b", "a b", "a+b", "a%2Cb", "[a,b]", "[\"a\",\"b\"]", "a&b=c", "a\tb", "a\nb"}

func allStrings(items []*jx.Value) bool {
	for _, it := range items {
		if it.Kind != jx.Str || it.Sem != "string" {
			return false
		}
	}
	return len(items) > 0
}

func runQuery(t *testing.T, lane string) {
	r := vf.Start(t, prop, lane)
	rapid.Check(t, func(t *rapid.T) {
		s, msg, tree, _ := drawBase(t)
		if tree.Kind != jx.Obj || !strings.HasPrefix(tree.Sem, "object:") {
			r.Discard()
			return
		}
		q := map[string][]string{}
		canon := jx.O()
		kinds := map[string]bool{}
		var collect func(v *jx.Value, path []string, into *jx.Value, depth int)
		strOf := func(v *jx.Value) (string, bool) {
			switch v.Kind {
			case jx.Str, jx.Num:
				return v.S, true
			case jx.Bool:
				return strconv.FormatBool(v.B), true
			}
			return "", false
		}
		collect = func(v *jx.Value, path []string, into *jx.Value, depth int) {
			for _, m := range v.Members {
				p := append(append([]string{}, path...), m.Key)
				switch {
				case m.Val.Kind == jx.Obj && strings.HasPrefix(m.Val.Sem, "object:") && depth < 2 && rapid.Bool().Draw(t, "descend"):
					sub := jx.O()
					collect(m.Val, p, sub, depth+1)
					if len(sub.Members) > 0 {
						into.Members = append(into.Members, jx.Member{Key: m.Key, Val: sub})
						kinds["nested-path"] = true
					}
				case m.Val.Kind == jx.Arr && m.Val.Sem == "array":
					if len(m.Val.Items) == 0 || rapid.IntRange(0, 2).Draw(t, "arr") != 0 {
						continue
					}
					var vals []string
					ok := true
					for _, it := range m.Val.Items {
						sv, isScalar := strOf(it)
						if !isScalar {
							ok = false
							break
						}
						vals = append(vals, sv)
					}
					if !ok {
						continue
					}
					arr := m.Val.Clone()
					if allStrings(m.Val.Items) && rapid.Bool().Draw(t, "listshaped") {
						// one element that looks like a list in some other convention (comma, pipe,
						// space, semicolon separated; bracketed; percent-encoded): a repeated
						// parameter given once is one element, stored as written
						one := rapid.SampledFrom(listShaped).Draw(t, "listshapedval")
						n := rapid.IntRange(1, 2).Draw(t, "listshapedn")
						vals = vals[:0]
						arr.Items = arr.Items[:0]
						for i := 0; i < n; i++ {
							it := jx.S(one)
							it.Sem = "string"
							vals = append(vals, one)
							arr.Items = append(arr.Items, it)
						}
						kinds["list-shaped-element"] = true
					}
					q[strings.Join(p, ".")] = vals
					into.Members = append(into.Members, jx.Member{Key: m.Key, Val: arr})
					kinds["scalar-array"] = true
				default:
					sv, isScalar := strOf(m.Val)
					if !isScalar || rapid.IntRange(0, 2).Draw(t, "take") == 0 {
						continue
					}
					q[strings.Join(p, ".")] = []string{sv}
					into.Members = append(into.Members, jx.Member{Key: m.Key, Val: m.Val.Clone()})
					kinds["kind:"+strings.SplitN(m.Val.Sem, ":", 2)[0]] = true
				}
			}
		}
		collect(tree, nil, canon, 0)
		if len(q) == 0 {
			r.Discard()
			return
		}
		var ks []string
		for k := range kinds {
			ks = append(ks, k)
		}
		sortStrings(ks)
		c := docCase{Case: s.Case(msg, source), Lane: "query", Query: q, Canon: string(canon.Bytes()), What: strings.Join(ks, "+")}
		r.Eval(len(q) >= 2 || kinds["nested-path"], vf.Hash(c.Files, c.Root, q), ks...)
		if len(q) >= 2 && r.WantSample() {
			r.Sample(map[string]any{"root": c.Root, "query": q, "json": c.Canon})
		}
		r.Judge(t, c, check(s, msg, c))
	})
}
