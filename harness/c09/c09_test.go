package c09

import (
	"encoding/json"
	"os"
	"path/filepath"
	"strings"
	"testing"
	"time"

	"github.com/pentops/j5/internal/bcl/internal/parser"
	"github.com/pentops/j5/internal/bcl/internal/verif/bclgen"
	"github.com/pentops/j5/internal/bcl/internal/verif/bclx"
	"github.com/pentops/j5/internal/bcl/internal/verif/vf"
	"pgregory.net/rapid"
)

const prop = "C09"

type textCase struct {
	Text string `json:"text"`
}

func laneText(raw json.RawMessage) ([]vf.Failure, error) {
	var c textCase
	if err := json.Unmarshal(raw, &c); err != nil {
		return nil, err
	}
	fails, _ := checkFmt(c.Text)
	return fails, nil
}

var lanes = map[string]vf.LaneFunc{"fuzz": laneText, "generated": laneText, "corpus": laneText, "strings": laneText}

func TestReplay(t *testing.T) {
	if !vf.RunReplayMode(t, prop, lanes) {
		t.Skip("no VERIF_REPLAY")
	}
}

func TestWitness(t *testing.T) { vf.Witnesses(t, prop, lanes) }

const callLimit = 30 * time.Second

// checkFmt returns the failures and whether the input was in the property's
// domain (accepted by the parser).
func checkFmt(text string) (fails []vf.Failure, accepted bool) {
	var t0 *parser.File
	var err error
	if f := vf.GuardTimed("ParseFile", callLimit, func() { t0, err = parser.ParseFile(text, true) }); f != nil {
		return nil, false // C11's business
	}
	if err != nil || t0 == nil {
		return nil, false
	}
	var out string
	if f := vf.GuardTimed("Fmt", callLimit, func() { out, err = parser.Fmt(text) }); f != nil {
		return []vf.Failure{*f}, true
	}
	if err != nil {
		return []vf.Failure{vf.Failf("fmt|error", "Fmt rejects a file the parser accepts: %v", err)}, true
	}
	var t1 *parser.File
	if f := vf.GuardTimed("ParseFile(Fmt)", callLimit, func() { t1, err = parser.ParseFile(out, true) }); f != nil {
		return []vf.Failure{*f}, true
	}
	if err != nil {
		fails = append(fails, vf.Failf("reparse|error", "formatter output is not accepted: %v\n--- output ---\n%s", err, out))
		return fails, true
	}
	if cls, d := bclx.DiffTrees(bclx.Canon(t0), bclx.Canon(t1), "file"); cls != "" {
		fails = append(fails, vf.Failf("tree|"+cls, "%s\n--- output ---\n%s", d, out))
	}
	c0, e0 := bclx.Comments(text)
	c1, e1 := bclx.Comments(out)
	if e0 == nil && e1 == nil {
		if strings.Join(c0, "\x00") != strings.Join(c1, "\x00") {
			fails = append(fails, vf.Failf("comments|differ", "comments before %q after %q", c0, c1))
		}
	}
	var out2 string
	if f := vf.GuardTimed("Fmt(Fmt)", callLimit, func() { out2, err = parser.Fmt(out) }); f != nil {
		return append(fails, *f), true
	}
	if err != nil {
		fails = append(fails, vf.Failf("idempotent|error", "second Fmt fails: %v", err))
	} else if out2 != out {
		fails = append(fails, vf.Failf("idempotent|differs", "Fmt(Fmt(x)) != Fmt(x):\n--- first ---\n%s\n--- second ---\n%s", out, out2))
	}
	return fails, true
}

var nontrivialClasses = []string{"escaped-newline", "regex-slash-or-comment-in-value", "array", "block-comment", "multiline-description", "blank-run", "ws-only-line", "trailing-comment", "stmt-after-close", "qualifier", "inline-description"}

func TestGenerated(t *testing.T) {
	r := vf.Start(t, prop, "generated")
	rapid.Check(t, func(t *rapid.T) {
		text, classes := bclgen.File(t)
		fails, ok := checkFmt(text)
		if !ok {
			r.Discard()
			r.Class("rejected-by-parser")
			return
		}
		nt := false
		cls := []string{"accepted"}
		for _, c := range nontrivialClasses {
			if classes[c] {
				nt = true
			}
		}
		for c := range classes {
			cls = append(cls, c)
		}
		if strings.Contains(text, `\\`) || strings.Contains(text, `\"`) {
			nt = true
			cls = append(cls, "string-escape")
		}
		r.Eval(nt, vf.Hash(text), cls...)
		if nt && len(text) < 400 && r.WantSample() {
			r.Sample(textCase{text})
		}
		r.Judge(t, textCase{text}, fails)
	})
}

// TestStrings concentrates on the literal re-rendering: one assignment whose
// value is a string / regex over the whole escapable alphabet.
func TestStrings(t *testing.T) {
	r := vf.Start(t, prop, "strings")
	rapid.Check(t, func(t *rapid.T) {
		text := bclgen.LiteralStatement(t)
		fails, ok := checkFmt(text)
		if !ok {
			r.Discard()
			return
		}
		r.Eval(true, vf.Hash(text), "accepted")
		if r.WantSample() {
			r.Sample(textCase{text})
		}
		r.Judge(t, textCase{text}, fails)
	})
}

func corpusFiles() map[string]string {
	out := map[string]string{}
	repo := os.Getenv("VERIF_REPO")
	if repo == "" {
		repo = "/repo"
	}
	for _, g := range []string{
		"internal/bcl/internal/parser/testdata/*", "internal/bcl/examples/*.bcl", "j5stest/proto/j5st/v1/*.j5s",
		"proto/j5/j5/*/v1/*.j5s",
	} {
		ms, _ := filepath.Glob(filepath.Join(repo, g))
		for _, m := range ms {
			if b, err := os.ReadFile(m); err == nil && len(b) < 1<<20 {
				out[m] = string(b)
			}
		}
	}
	return out
}

func TestCorpus(t *testing.T) {
	r := vf.Start(t, prop, "corpus")
	for _, text := range corpusFiles() {
		fails, ok := checkFmt(text)
		if !ok {
			r.Discard()
			continue
		}
		r.Eval(true, vf.Hash(text), "accepted")
		r.JudgeNoFatal(textCase{text}, fails)
	}
}

// FuzzFmt: coverage-guided texts. Inputs the parser rejects are outside the
// quantifier (only accepted sources are formatted) and pass trivially.
func FuzzFmt(f *testing.F) {
	for _, text := range corpusFiles() {
		f.Add(text)
	}
	f.Add("a = \"x\\\ny\"\n")
	f.Add("block a.b:q // c\n  | desc\n\n\n/* c */ x = [1, [2, \"s\"]] // t\n} y = /a\\/b/\n")
	known := vf.KnownOpen(prop)
	f.Fuzz(func(t *testing.T, text string) {
		if len(text) > 1<<13 {
			return
		}
		fails, _ := checkFmt(text)
		for _, fl := range fails {
			if !known[fl.Key] {
				t.Fatalf("c09 fuzz: [%s] %s", fl.Key, fl.Detail)
			}
		}
	})
}

// TestFuzzInput pushes crashers found by FuzzFmt through the normal verdict path.
func TestFuzzInput(t *testing.T) {
	r := vf.Start(t, prop, "fuzz")
	for _, p := range vf.FuzzInputs() {
		vals, err := vf.ReadFuzzInput(p)
		if err != nil || len(vals) != 1 {
			r.Note("unreadable fuzz input %s: %v", p, err)
			continue
		}
		text := vals[0].(string)
		c := textCase{text}
		r.Eval(true, vf.Hash(text), "fuzz-crasher")
		r.Journal(c)
		fails, _ := checkFmt(text)
		r.JudgeNoFatal(c, fails)
	}
}
