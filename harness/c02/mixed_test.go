package c02

import (
	"encoding/json"
	"fmt"
	"sort"
	"strings"
	"testing"

	"github.com/bufbuild/protocompile/linker"
	"github.com/pentops/j5/internal/bcl/internal/verif/j5sx"
	"github.com/pentops/j5/internal/bcl/internal/verif/vf"
	"google.golang.org/protobuf/reflect/protoreflect"
	"pgregory.net/rapid"
)

// The proto <-> j5s clause of C02: j5s fields that refer to types declared in
// hand-written .proto files of the same or another package of the bundle, and
// .proto files that refer to types declared in j5s.

type mixedExpect struct {
	Field     string `json:"field"`     // JSON name in mix.a.v1.Thing
	Target    string `json:"target"`    // full name of the referenced type
	Enum      bool   `json:"enum"`      // enum (else message)
	Container string `json:"container"` // "", array, map
	File      string `json:"file"`      // file that declares the target: must be a dependency
}

type mixedCase struct {
	Files  map[string]string `json:"files"`
	Expect []mixedExpect     `json:"expect"`
	// UsesJ5: a .proto file of the package that imports main.j5s.proto and refers
	// to these j5s-declared types
	UsesJ5 []string `json:"uses_j5,omitempty"`
}

func init() {
	lanes["mixed"] = func(raw json.RawMessage) ([]vf.Failure, error) {
		var c mixedCase
		if err := json.Unmarshal(raw, &c); err != nil {
			return nil, err
		}
		return checkMixed(c), nil
	}
}

func checkMixed(c mixedCase) (fails []vf.Failure) {
	src := &j5sx.Bundle{Files: c.Files}
	var files linker.Files
	var err error
	if f := vf.GuardTimed("CompilePackage", callLimit, func() { files, err = j5sx.Compile(src, "mix.a.v1") }); f != nil {
		return []vf.Failure{*f}
	}
	if err != nil {
		return []vf.Failure{vf.Failf("mixed|compile-error", "valid mixed proto/j5s bundle rejected: %v\n%s", err, c.Files["mix/a/v1/main.j5s"])}
	}
	byPath := map[string]protoreflect.FileDescriptor{}
	for _, f := range files {
		byPath[f.Path()] = f
	}
	main := byPath["mix/a/v1/main.j5s.proto"]
	if main == nil {
		return []vf.Failure{vf.Failf("mixed|file-missing|j5s", "mix/a/v1/main.j5s.proto is not in the compile result")}
	}
	thing := main.Messages().ByName("Thing")
	if thing == nil {
		return []vf.Failure{vf.Failf("mixed|message-missing", "Thing not compiled")}
	}
	deps := map[string]bool{}
	for i := 0; i < main.Imports().Len(); i++ {
		deps[main.Imports().Get(i).Path()] = true
	}
	if thing.Fields().Len() != len(c.Expect) {
		fails = append(fails, vf.Failf("mixed|field-count", "Thing has %d fields, %d declared", thing.Fields().Len(), len(c.Expect)))
	}
	for i, e := range c.Expect {
		f := thing.Fields().ByJSONName(e.Field)
		if f == nil {
			fails = append(fails, vf.Failf("mixed|field-missing", "field %s not compiled", e.Field))
			continue
		}
		if int(f.Number()) != i+1 {
			fails = append(fails, vf.Failf("mixed|number", "field %s has number %d, declared at position %d", e.Field, f.Number(), i+1))
		}
		leaf := f
		switch e.Container {
		case "map":
			if !f.IsMap() {
				fails = append(fails, vf.Failf("mixed|container|map", "field %s is not a map", e.Field))
				continue
			}
			leaf = f.MapValue()
		case "array":
			if !f.IsList() {
				fails = append(fails, vf.Failf("mixed|container|array", "field %s is not repeated", e.Field))
			}
		default:
			if f.IsList() || f.IsMap() {
				fails = append(fails, vf.Failf("mixed|container|plain", "field %s is repeated", e.Field))
			}
		}
		var got, gotFile string
		switch {
		case leaf.Kind() == protoreflect.EnumKind:
			got, gotFile = string(leaf.Enum().FullName()), leaf.Enum().ParentFile().Path()
			if !e.Enum {
				fails = append(fails, vf.Failf("mixed|kind", "field %s is an enum, declared object", e.Field))
			}
		case leaf.Kind() == protoreflect.MessageKind:
			got, gotFile = string(leaf.Message().FullName()), leaf.Message().ParentFile().Path()
			if e.Enum {
				fails = append(fails, vf.Failf("mixed|kind", "field %s is a message, declared enum", e.Field))
			}
		default:
			fails = append(fails, vf.Failf("mixed|kind", "field %s has kind %s", e.Field, leaf.Kind()))
			continue
		}
		where := "same-package"
		if !strings.HasPrefix(e.Target, "mix.a.v1.") {
			where = "other-package"
		}
		if got != e.Target {
			fails = append(fails, vf.Failf("mixed|resolves-to-other-type|"+where, "field %s resolves to %s, declared %s", e.Field, got, e.Target))
		}
		if gotFile != e.File {
			fails = append(fails, vf.Failf("mixed|declaring-file|"+where, "field %s: type comes from %s, want %s", e.Field, gotFile, e.File))
		}
		if e.File != main.Path() && !deps[e.File] {
			fails = append(fails, vf.Failf("mixed|import-missing|"+where, "main.j5s.proto does not import %s (needed by field %s); imports: %v", e.File, e.Field, keys(deps)))
		}
	}
	if len(c.UsesJ5) > 0 {
		uses := byPath["mix/a/v1/uses.proto"]
		if uses == nil {
			fails = append(fails, vf.Failf("mixed|file-missing|proto", "mix/a/v1/uses.proto is not in the compile result for its package"))
		} else {
			md := uses.Messages().ByName("UsesJ5")
			for i, name := range c.UsesJ5 {
				f := md.Fields().ByNumber(protoreflect.FieldNumber(i + 1))
				var got, gotFile string
				if f != nil && f.IsMap() {
					f = f.MapValue()
				}
				switch {
				case f == nil:
				case f.Kind() == protoreflect.EnumKind:
					got, gotFile = string(f.Enum().FullName()), f.Enum().ParentFile().Path()
				case f.Kind() == protoreflect.MessageKind:
					got, gotFile = string(f.Message().FullName()), f.Message().ParentFile().Path()
				}
				if got != "mix.a.v1."+name || gotFile != "mix/a/v1/main.j5s.proto" {
					fails = append(fails, vf.Failf("mixed|proto-to-j5s", "uses.proto field %d resolves to %q in %q, want mix.a.v1.%s declared by main.j5s.proto", i+1, got, gotFile, name))
				}
			}
		}
	}
	if byPath["mix/a/v1/ext.proto"] == nil {
		fails = append(fails, vf.Failf("mixed|file-missing|proto", "mix/a/v1/ext.proto is not in the compile result for its package"))
	}
	return fails
}

func keys(m map[string]bool) []string {
	var out []string
	for k := range m {
		out = append(out, k)
	}
	sort.Strings(out)
	return out
}

func TestMixed(t *testing.T) {
	r := vf.Start(t, prop, "mixed")
	type target struct {
		name, pkg, file string
		enum            bool
	}
	targets := []target{
		{"ProtoBar", "mix.a.v1", "mix/a/v1/ext.proto", false},
		{"ProtoKind", "mix.a.v1", "mix/a/v1/ext.proto", true},
		{"Remote", "mix.b.v1", "mix/b/v1/other.proto", false},
		{"RemoteKind", "mix.b.v1", "mix/b/v1/other.proto", true},
		{"Local", "mix.a.v1", "mix/a/v1/main.j5s.proto", false},
		{"ThingKind", "mix.a.v1", "mix/a/v1/main.j5s.proto", true},
		{"More", "mix.a.v1", "mix/a/v1/more.j5s.proto", false},
	}
	rapid.Check(t, func(t *rapid.T) {
		c := mixedCase{Files: map[string]string{
			"mix/a/v1/ext.proto":   "syntax = \"proto3\";\npackage mix.a.v1;\nmessage ProtoBar {\n  string f1 = 1;\n  message Inner { string f2 = 1; }\n  Inner inner = 2;\n}\nenum ProtoKind { PROTO_KIND_UNSPECIFIED = 0; PROTO_KIND_A = 1; PROTO_KIND_B = 2; }\n",
			"mix/b/v1/other.proto": "syntax = \"proto3\";\npackage mix.b.v1;\nmessage Remote { string f1 = 1; }\nenum RemoteKind { REMOTE_KIND_UNSPECIFIED = 0; REMOTE_KIND_X = 1; }\n",
			"mix/a/v1/more.j5s":    "package mix.a.v1\n\nobject More {\n\tfield name string\n}\n",
		}}
		var sb strings.Builder
		sb.WriteString("package mix.a.v1\n\n")
		importStyle := rapid.SampledFrom([]string{"package", "alias", "file"}).Draw(t, "importstyle")
		var body strings.Builder
		n := rapid.IntRange(1, 7).Draw(t, "nfields")
		usesRemote := false
		cls := []string{"import:" + importStyle}
		for i := 0; i < n; i++ {
			tg := rapid.SampledFrom(targets).Draw(t, "target")
			cont := rapid.SampledFrom([]string{"", "", "array", "map"}).Draw(t, "container")
			name := fmt.Sprintf("f%c", 'A'+i)
			var spelled string
			switch {
			case tg.pkg == "mix.a.v1":
				spelled = tg.name
				if rapid.IntRange(0, 4).Draw(t, "qualifiedlocal") == 0 {
					spelled = "mix.a.v1." + tg.name
				}
			default:
				usesRemote = true
				switch importStyle {
				case "alias":
					spelled = "rb." + tg.name
				case "file":
					spelled = "mix.b.v1." + tg.name
				default:
					spelled = rapid.SampledFrom([]string{"b.", "mix.b.v1."}).Draw(t, "pkgspelling") + tg.name
				}
			}
			kind := "object"
			if tg.enum {
				kind = "enum"
			}
			q := kind + ":" + spelled
			if cont != "" {
				q = cont + ":" + q
			}
			fmt.Fprintf(&body, "\tfield %s %s\n", name, q)
			c.Expect = append(c.Expect, mixedExpect{Field: name, Target: tg.pkg + "." + tg.name, Enum: tg.enum, Container: cont, File: tg.file})
			where := "j5s"
			if strings.HasSuffix(tg.file, ".proto") && !strings.HasSuffix(tg.file, ".j5s.proto") {
				where = "proto"
			}
			cls = append(cls, "target:"+where+":"+kind, "container:"+cont)
			if tg.pkg != "mix.a.v1" {
				cls = append(cls, "target:other-package")
			}
		}
		if usesRemote {
			switch importStyle {
			case "alias":
				sb.WriteString("import mix.b.v1 : rb\n\n")
			case "file":
				sb.WriteString("import \"mix/b/v1/other.proto\"\n\n")
			default:
				sb.WriteString("import mix.b.v1\n\n")
			}
		}
		sb.WriteString("object Thing {\n" + body.String() + "}\n\nobject Local {\n\tfield name string\n}\n\nenum ThingKind {\n\toption ONE\n\toption TWO\n}\n")
		c.Files["mix/a/v1/main.j5s"] = sb.String()
		// a .proto file of the same package that uses j5s-declared types. Only when
		// Thing does not itself depend on ext.proto through it (no cycle is created:
		// uses.proto -> main.j5s.proto -> ext.proto is a chain).
		if rapid.Bool().Draw(t, "usesj5") {
			c.UsesJ5 = []string{"Thing", "ThingKind", "Local"}
			c.Files["mix/a/v1/uses.proto"] = "syntax = \"proto3\";\npackage mix.a.v1;\nimport \"mix/a/v1/main.j5s.proto\";\nmessage UsesJ5 {\n  Thing thing = 1;\n  repeated ThingKind kinds = 2;\n  map<string, Local> locals = 3;\n}\n"
			cls = append(cls, "proto-uses-j5s")
		}
		r.Eval(n >= 2, vf.Hash(c.Files), cls...)
		if r.WantSample() {
			r.Sample(map[string]any{"main.j5s": c.Files["mix/a/v1/main.j5s"]})
		}
		r.Judge(t, c, checkMixed(c))
	})
}
