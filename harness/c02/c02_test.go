package c02

import (
	"encoding/json"
	"fmt"
	"strings"
	"testing"
	"time"

	"github.com/bufbuild/protocompile/linker"
	"github.com/pentops/j5/internal/bcl/internal/verif/j5sgen"
	"github.com/pentops/j5/internal/bcl/internal/verif/j5sx"
	"github.com/pentops/j5/internal/bcl/internal/verif/vf"
	"google.golang.org/protobuf/reflect/protoreflect"
	"pgregory.net/rapid"
)

const prop = "C02"

func laneCase(raw json.RawMessage) ([]vf.Failure, error) {
	var b j5sgen.Bundle
	if err := json.Unmarshal(raw, &b); err != nil {
		return nil, err
	}
	return check(&b), nil
}

var lanes = map[string]vf.LaneFunc{"contract": laneCase}

func TestReplay(t *testing.T) {
	if !vf.RunReplayMode(t, prop, lanes) {
		t.Skip("no VERIF_REPLAY")
	}
}

func TestWitness(t *testing.T) { vf.Witnesses(t, prop, lanes) }

const callLimit = 60 * time.Second

// lineClass reduces a contract line to its class for finding keys: the element
// kind and which attribute differs is worked out by pairing lines on their
// subject (second word).
func classify(missing, extra []string) []string {
	subj := func(l string) (kind, name string) {
		parts := strings.SplitN(l, " ", 3)
		if len(parts) < 2 {
			return l, ""
		}
		return parts[0], parts[1]
	}
	extraBy := map[string]string{}
	for _, e := range extra {
		k, n := subj(e)
		extraBy[k+" "+n] = e
	}
	seen := map[string]bool{}
	var out []string
	add := func(c string) {
		if !seen[c] {
			seen[c] = true
			out = append(out, c)
		}
	}
	for _, m := range missing {
		k, n := subj(m)
		if e, ok := extraBy[k+" "+n]; ok {
			// same element, different attributes: name the attributes that differ
			ma, ea := strings.Fields(m), strings.Fields(e)
			for i := 2; i < len(ma) && i < len(ea); i++ {
				if ma[i] != ea[i] {
					attr := strings.SplitN(ma[i], "=", 2)[0]
					add(k + "-differs:" + attr)
				}
			}
			if len(ma) != len(ea) {
				add(k + "-differs:shape")
			}
			delete(extraBy, k+" "+n)
			continue
		}
		add(k + "-missing")
	}
	for key := range extraBy {
		add(strings.SplitN(key, " ", 2)[0] + "-extra")
	}
	return out
}

func check(b *j5sgen.Bundle) (fails []vf.Failure) {
	src := &j5sx.Bundle{Files: b.Render()}
	for _, p := range b.Packages {
		var files linker.Files
		var err error
		if f := vf.GuardTimed("CompilePackage", callLimit, func() { files, err = j5sx.Compile(src, p.Name) }); f != nil {
			return append(fails, *f)
		}
		if err != nil {
			// acceptance is C07's verdict; without descriptors there is nothing to compare
			fails = append(fails, vf.Failf("compile|error", "package %s does not compile (see C07): %v", p.Name, err))
			continue
		}
		var fds []protoreflect.FileDescriptor
		for _, f := range files {
			fds = append(fds, f)
		}
		want, wantDeps := b.ExpectedLines(p.Name)
		got, gotDeps := j5sgen.ActualLines(fds)
		missing, extra := j5sgen.DiffLines(want, got)
		if len(missing)+len(extra) > 0 {
			for _, cls := range classify(missing, extra) {
				fails = append(fails, vf.Failf("contract|"+cls, "package %s\nexpected but absent:\n  %s\npresent but not declared:\n  %s", p.Name, strings.Join(head(missing), "\n  "), strings.Join(head(extra), "\n  ")))
			}
		}
		depMissing, _ := j5sgen.DiffLines(wantDeps, gotDeps)
		if len(depMissing) > 0 {
			fails = append(fails, vf.Failf("imports|missing", "package %s: referenced type's file is not imported:\n  %s", p.Name, strings.Join(head(depMissing), "\n  ")))
		}
	}
	return fails
}

func head(s []string) []string {
	if len(s) > 12 {
		return append(s[:12:12], fmt.Sprintf("… %d more", len(s)-12))
	}
	return s
}

func TestContract(t *testing.T) {
	r := vf.Start(t, prop, "contract")
	rapid.Check(t, func(t *rapid.T) {
		o := j5sgen.DefaultOpts()
		o.Rules, o.ListRules = false, false // rules do not change the structural contract (C04/C12 cover them)
		o.MaxPackages, o.MaxFiles = 3, 3
		o.OddMethodNames = true
		b, classes := j5sgen.Draw(t, o)
		nt := classes["multi-file-package"] || classes["ref-cross-package"] || classes["inline-depth>=2"] || classes["path-parameter"]
		cls := []string{}
		for k := range classes {
			cls = append(cls, k)
		}
		files := b.Render()
		r.Eval(nt, vf.Hash(files), cls...)
		if nt && len(files) <= 2 && r.WantSample() {
			r.Sample(map[string]any{"files": files})
		}
		r.Journal(b)
		r.Judge(t, b, check(b))
	})
}
