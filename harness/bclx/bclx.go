// Package bclx holds what the parser checks share: a position-free canonical form
// of a parsed file, comment extraction, and a walk over every positioned node.
package bclx

import (
	"encoding/json"
	"fmt"
	"strings"

	"github.com/pentops/j5/internal/bcl/errpos"
	"github.com/pentops/j5/internal/bcl/internal/parser"
)

type CTag struct {
	Mark int    `json:"mark"`
	Kind string `json:"kind"` // ref | value
	Val  string `json:"val"`
}

type CNode struct {
	Kind    string     `json:"kind"` // block | assign | description
	Type    string     `json:"type,omitempty"`
	Tags    []CTag     `json:"tags,omitempty"`
	Quals   []CTag     `json:"quals,omitempty"`
	Open    bool       `json:"open,omitempty"`
	Desc    [][]string `json:"desc,omitempty"`
	Key     string     `json:"key,omitempty"`
	Append  bool       `json:"append,omitempty"`
	Value   any        `json:"value,omitempty"`
	Comment *string    `json:"comment,omitempty"`
	Body    []CNode    `json:"body,omitempty"`
}

// Paragraphs splits a description into paragraphs of whitespace-separated words.
func Paragraphs(s string) [][]string {
	var out [][]string
	var cur []string
	for _, line := range strings.Split(s, "\n") {
		w := strings.Fields(line)
		if len(w) == 0 {
			if len(cur) > 0 {
				out = append(out, cur)
				cur = nil
			}
			continue
		}
		cur = append(cur, w...)
	}
	if len(cur) > 0 {
		out = append(out, cur)
	}
	return out
}

func canonValue(v parser.Value) any {
	if v.IsArray() {
		elems, _ := v.AsArray()
		out := make([]any, 0, len(elems))
		for _, e := range elems {
			if pv, ok := e.(parser.Value); ok {
				out = append(out, canonValue(pv))
			} else {
				out = append(out, fmt.Sprintf("%#v", e))
			}
		}
		return out
	}
	// GoString renders "value(TYPE:literal)" without positions.
	return v.GoString()
}

func canonTag(tv parser.TagValue) CTag {
	ct := CTag{Mark: int(tv.Mark)}
	if tv.Reference != nil {
		ct.Kind = "ref"
		ct.Val = tv.Reference.String()
	} else if tv.Value != nil {
		ct.Kind = "value"
		ct.Val = tv.Value.GoString()
	}
	return ct
}

func normComment(s string) string {
	lines := strings.Split(s, "\n")
	for i := range lines {
		lines[i] = strings.TrimSpace(lines[i])
	}
	return strings.Join(lines, "\n")
}

func commentOf(sn parser.SourceNode) *string {
	if sn.Comment == nil {
		return nil
	}
	s := normComment(sn.Comment.Value)
	return &s
}

func canonBody(b parser.Body) []CNode {
	var out []CNode
	for _, st := range b.Statements {
		switch s := st.(type) {
		case *parser.Block:
			n := CNode{Kind: "block", Type: s.Type.String(), Open: s.Open, Comment: commentOf(s.SourceNode)}
			for _, tg := range s.Tags {
				n.Tags = append(n.Tags, canonTag(tg))
			}
			for _, q := range s.Qualifiers {
				n.Quals = append(n.Quals, canonTag(q))
			}
			if s.Description != nil {
				// a description without words denotes nothing: same as absent
				n.Desc = Paragraphs(s.Description.Value)
			}
			n.Body = canonBody(s.Body)
			out = append(out, n)
		case *parser.Assignment:
			out = append(out, CNode{Kind: "assign", Key: s.Key.String(), Append: s.Append, Value: canonValue(s.Value), Comment: commentOf(s.SourceNode)})
		case *parser.Description:
			d := Paragraphs(s.Value)
			if d == nil {
				// a description block without any word denotes nothing
				continue
			}
			out = append(out, CNode{Kind: "description", Desc: d})
		default:
			out = append(out, CNode{Kind: fmt.Sprintf("unknown:%T", st)})
		}
	}
	return out
}

func Canon(f *parser.File) []CNode {
	if f == nil {
		return nil
	}
	return canonBody(f.Body)
}

// Comments returns every comment token (line and block) of the text in order,
// whitespace-normalised per line, tagged with its kind.
func Comments(text string) (out []string, err error) {
	defer func() {
		if r := recover(); r != nil {
			out, err = nil, fmt.Errorf("lexer panicked: %v", r)
		}
	}()
	l := parser.NewLexer(text)
	toks, ok, lerr := l.AllTokens(true)
	if lerr != nil {
		return nil, lerr
	}
	if !ok {
		return nil, fmt.Errorf("lexer errors: %v", l.Errors)
	}
	for _, tk := range toks {
		switch tk.Type {
		case parser.COMMENT:
			out = append(out, "L:"+normComment(tk.Lit))
		case parser.BLOCK_COMMENT:
			out = append(out, "B:"+normComment(tk.Lit))
		}
	}
	return out, nil
}

// Node is one positioned element of the tree.
type Node struct {
	Kind  string
	Start errpos.Point
	End   errpos.Point
}

func walkValue(v parser.Value, kind string, emit func(Node)) {
	emit(Node{kind, v.Start, v.End})
	if v.IsArray() {
		elems, _ := v.AsArray()
		for _, e := range elems {
			if pv, ok := e.(parser.Value); ok {
				walkValue(pv, "array-element", emit)
			}
		}
	}
}

func walkRef(r parser.Reference, kind string, emit func(Node)) {
	emit(Node{kind, r.Start, r.End})
	for _, id := range r.Idents {
		emit(Node{kind + ".ident", id.Start, id.End})
		emit(Node{kind + ".ident.token", id.Token.Start, id.Token.End})
	}
}

func walkTag(tv parser.TagValue, kind string, emit func(Node)) {
	emit(Node{kind, tv.Start, tv.End})
	if tv.Mark != parser.TagMarkNone {
		emit(Node{kind + ".mark", tv.MarkToken.Start, tv.MarkToken.End})
	}
	if tv.Reference != nil {
		walkRef(*tv.Reference, kind+".ref", emit)
	}
	if tv.Value != nil {
		walkValue(*tv.Value, kind+".value", emit)
	}
}

func walkDesc(d *parser.Description, kind string, emit func(Node)) {
	emit(Node{kind, d.Start, d.End})
	for _, tk := range d.Tokens {
		emit(Node{kind + ".token", tk.Start, tk.End})
	}
}

func walkComment(sn parser.SourceNode, kind string, emit func(Node)) {
	if sn.Comment != nil {
		emit(Node{kind + ".comment", sn.Comment.Start, sn.Comment.End})
	}
}

func walkBody(b parser.Body, emit func(Node)) {
	for _, st := range b.Statements {
		switch s := st.(type) {
		case *parser.Block:
			kind := "block"
			if s.SourceNode.Comment != nil {
				kind = "block-with-trailing-comment"
			}
			emit(Node{kind, s.Start, s.End})
			walkRef(s.Type, "block.type", emit)
			for _, tg := range s.Tags {
				walkTag(tg, "block.tag", emit)
			}
			for _, q := range s.Qualifiers {
				walkTag(q, "block.qualifier", emit)
			}
			if s.Description != nil {
				walkDesc(s.Description, "block.description", emit)
			}
			walkComment(s.SourceNode, "block", emit)
			walkBody(s.Body, emit)
		case *parser.Assignment:
			emit(Node{"assignment", s.Start, s.End})
			walkRef(s.Key, "assignment.key", emit)
			walkValue(s.Value, "assignment.value", emit)
			walkComment(s.SourceNode, "assignment", emit)
		case *parser.Description:
			walkDesc(s, "description", emit)
		}
	}
}

// WalkNodes calls emit for every positioned node of the tree.
func WalkNodes(f *parser.File, emit func(Node)) {
	if f == nil {
		return
	}
	walkBody(f.Body, emit)
}

// LineLens returns the rune length of every line of text (split on "\n").
func LineLens(text string) []int {
	lines := strings.Split(text, "\n")
	out := make([]int, len(lines))
	for i, l := range lines {
		out[i] = len([]rune(l))
	}
	return out
}

// InBounds checks one point against the text: 0 <= line < #lines and
// 0 <= column <= rune length of that line.
func InBounds(p errpos.Point, lens []int) bool {
	if p.Line < 0 || p.Line >= len(lens) {
		return false
	}
	return p.Column >= 0 && p.Column <= lens[p.Line]
}

func NotAfter(a, b errpos.Point) bool {
	return a.Line < b.Line || (a.Line == b.Line && a.Column <= b.Column)
}

// DiffTrees returns the class and description of the first difference between two
// canonical trees, or "" when they are equal.
func DiffTrees(a, b []CNode, path string) (class, detail string) {
	if len(a) != len(b) {
		return "count", fmt.Sprintf("%s: %d statements vs %d", path, len(a), len(b))
	}
	for i := range a {
		x, y := a[i], b[i]
		p := fmt.Sprintf("%s[%d]", path, i)
		if x.Kind != y.Kind {
			return "kind", fmt.Sprintf("%s: %s vs %s", p, x.Kind, y.Kind)
		}
		js := func(v any) string { b, _ := jsonMarshal(v); return string(b) }
		switch x.Kind {
		case "block":
			if x.Type != y.Type {
				return "block.type", fmt.Sprintf("%s: %q vs %q", p, x.Type, y.Type)
			}
			if js(x.Tags) != js(y.Tags) {
				return "block.tags", fmt.Sprintf("%s: %s vs %s", p, js(x.Tags), js(y.Tags))
			}
			if js(x.Quals) != js(y.Quals) {
				return "block.qualifiers", fmt.Sprintf("%s: %s vs %s", p, js(x.Quals), js(y.Quals))
			}
			if x.Open != y.Open {
				return "block.open", fmt.Sprintf("%s: open %v vs %v", p, x.Open, y.Open)
			}
			if js(x.Desc) != js(y.Desc) {
				return "block.description", fmt.Sprintf("%s: %s vs %s", p, js(x.Desc), js(y.Desc))
			}
			if js(x.Comment) != js(y.Comment) {
				return "block.comment", fmt.Sprintf("%s: %s vs %s", p, js(x.Comment), js(y.Comment))
			}
			if c, d := DiffTrees(x.Body, y.Body, p+".body"); c != "" {
				return c, d
			}
		case "assign":
			if x.Key != y.Key {
				return "assign.key", fmt.Sprintf("%s: %q vs %q", p, x.Key, y.Key)
			}
			if x.Append != y.Append {
				return "assign.operator", fmt.Sprintf("%s: append %v vs %v", p, x.Append, y.Append)
			}
			if js(x.Value) != js(y.Value) {
				return "assign.value", fmt.Sprintf("%s: %s vs %s", p, js(x.Value), js(y.Value))
			}
			if js(x.Comment) != js(y.Comment) {
				return "assign.comment", fmt.Sprintf("%s: %s vs %s", p, js(x.Comment), js(y.Comment))
			}
		case "description":
			if js(x.Desc) != js(y.Desc) {
				return "description", fmt.Sprintf("%s: %s vs %s", p, js(x.Desc), js(y.Desc))
			}
		}
	}
	return "", ""
}

func jsonMarshal(v any) ([]byte, error) { return json.Marshal(v) }
