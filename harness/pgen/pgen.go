// Package pgen is G2: raw proto3 descriptor sets built directly as
// FileDescriptorProto and linked against the global registry (which holds the
// j5, buf.validate and google well-known files).
package pgen

import (
	"fmt"
	"math"
	"strings"

	"buf.build/gen/go/bufbuild/protovalidate/protocolbuffers/go/buf/validate"
	"github.com/pentops/j5/gen/j5/ext/v1/ext_j5pb"
	"github.com/pentops/j5/gen/j5/list/v1/list_j5pb"
	_ "github.com/pentops/j5/j5types/any_j5t"
	_ "github.com/pentops/j5/j5types/date_j5t"
	_ "github.com/pentops/j5/j5types/decimal_j5t"
	"google.golang.org/protobuf/proto"
	"google.golang.org/protobuf/reflect/protodesc"
	"google.golang.org/protobuf/reflect/protoreflect"
	"google.golang.org/protobuf/reflect/protoregistry"
	"google.golang.org/protobuf/types/descriptorpb"
	_ "google.golang.org/protobuf/types/known/anypb"
	_ "google.golang.org/protobuf/types/known/durationpb"
	_ "google.golang.org/protobuf/types/known/emptypb"
	_ "google.golang.org/protobuf/types/known/structpb"
	_ "google.golang.org/protobuf/types/known/timestamppb"
	_ "google.golang.org/protobuf/types/known/wrapperspb"
	"pgregory.net/rapid"
)

type Mode int

const (
	Supported Mode = iota // only shapes J5 documents as representable, annotations consistent
	Arbitrary             // anything that links (C18)
	Annotated             // Supported, plus validate / list / j5 annotations consistent with the field they sit on (C15)
)

var stdImports = []string{
	"google/protobuf/any.proto",
	"google/protobuf/timestamp.proto",
	"google/protobuf/duration.proto",
	"google/protobuf/struct.proto",
	"google/protobuf/empty.proto",
	"google/protobuf/wrappers.proto",
	"buf/validate/validate.proto",
	"j5/ext/v1/annotations.proto",
	"j5/list/v1/annotations.proto",
	"j5/types/any/v1/any.proto",
	"j5/types/date/v1/date.proto",
	"j5/types/decimal/v1/decimal.proto",
}

var words = []string{"alpha", "beta", "gamma", "delta", "eps", "zeta", "eta", "theta", "iota", "kappa", "lam", "mu", "nu", "xi", "omi", "pi", "rho", "sigma", "tau", "ups", "phi", "chi", "psi", "omega"}

type scalarKind struct {
	name string
	typ  descriptorpb.FieldDescriptorProto_Type
}

var supportedScalars = []scalarKind{
	{"string", descriptorpb.FieldDescriptorProto_TYPE_STRING},
	{"bool", descriptorpb.FieldDescriptorProto_TYPE_BOOL},
	{"int32", descriptorpb.FieldDescriptorProto_TYPE_INT32},
	{"sint32", descriptorpb.FieldDescriptorProto_TYPE_SINT32},
	{"int64", descriptorpb.FieldDescriptorProto_TYPE_INT64},
	{"sint64", descriptorpb.FieldDescriptorProto_TYPE_SINT64},
	{"uint32", descriptorpb.FieldDescriptorProto_TYPE_UINT32},
	{"uint64", descriptorpb.FieldDescriptorProto_TYPE_UINT64},
	{"float", descriptorpb.FieldDescriptorProto_TYPE_FLOAT},
	{"double", descriptorpb.FieldDescriptorProto_TYPE_DOUBLE},
	{"bytes", descriptorpb.FieldDescriptorProto_TYPE_BYTES},
}

var unsupportedScalars = []scalarKind{
	{"fixed32", descriptorpb.FieldDescriptorProto_TYPE_FIXED32},
	{"sfixed32", descriptorpb.FieldDescriptorProto_TYPE_SFIXED32},
	{"fixed64", descriptorpb.FieldDescriptorProto_TYPE_FIXED64},
	{"sfixed64", descriptorpb.FieldDescriptorProto_TYPE_SFIXED64},
}

var supportedWKT = []string{
	".google.protobuf.Timestamp", ".j5.types.date.v1.Date", ".j5.types.decimal.v1.Decimal",
}

var anyTypes = []string{".j5.types.any.v1.Any", ".google.protobuf.Any"}

var otherWKT = []string{
	".google.protobuf.Duration", ".google.protobuf.Struct", ".google.protobuf.Empty", ".google.protobuf.StringValue",
	".google.protobuf.Int64Value", ".google.protobuf.Value", ".google.protobuf.ListValue", ".google.protobuf.BoolValue",
}

type msgPlan struct {
	name     string // simple name
	full     string // full name with leading dot
	shape    string // object | wrapper-flag | wrapper-opt | wrapper-implicit
	parent   int    // index of the message it is nested in, -1 for top level
	desc     *descriptorpb.DescriptorProto
	clientNm map[string]bool // JSON names visible on this message's client surface (for flatten collisions)
	canFlat  bool            // plain object with no message refs to lower-or-equal indices (safe flatten target)
	index    int
}

type enumPlan struct {
	name, full, prefix string
	values             []string
	noDefault          bool
	sparse             bool
}

type gen struct {
	t          *rapid.T
	mode       Mode
	pkg        string
	msgs       []*msgPlan
	enums      []*enumPlan
	nameSeq    int
	plainTaken map[string]bool // plain names used in this file
	Classes    map[string]bool
}

func (g *gen) cls(c string) { g.Classes[c] = true }

// plainNames are field names without a sequence number: the ones other code is
// likely to look for by name (entity parts, wrapper members, map entries).
var plainNames = []string{"keys", "data", "status", "metadata", "event", "value", "key", "state", "id", "page", "query"}

func (g *gen) fieldName() string {
	g.nameSeq++
	if rapid.IntRange(0, 14).Draw(g.t, "plainname") == 0 {
		n := rapid.SampledFrom(plainNames).Draw(g.t, "plainnamev")
		if !g.plainTaken[n] {
			g.plainTaken[n] = true
			g.cls("field-named:" + n)
			return n
		}
	}
	w := rapid.SampledFrom(words).Draw(g.t, "word")
	switch rapid.IntRange(0, 5).Draw(g.t, "namestyle") {
	case 0:
		w2 := rapid.SampledFrom(words).Draw(g.t, "word2")
		return fmt.Sprintf("%s_%s_%d", w, w2, g.nameSeq)
	case 1:
		return fmt.Sprintf("%s%d", w, g.nameSeq)
	default:
		return fmt.Sprintf("%s_%d", w, g.nameSeq)
	}
}

// Result of a generation.
type Result struct {
	File    *descriptorpb.FileDescriptorProto
	Classes map[string]bool
}

// Draw builds one proto3 file. In Supported mode every message is a shape the J5
// codec documents as representable.
func Draw(t *rapid.T, mode Mode, pkg string) Result {
	g := &gen{t: t, mode: mode, pkg: pkg, Classes: map[string]bool{}}
	nMsg := rapid.IntRange(1, 6).Draw(t, "nmsg")
	nEnum := rapid.IntRange(0, 3).Draw(t, "nenum")

	for i := 0; i < nEnum; i++ {
		g.enums = append(g.enums, g.planEnum(i))
	}
	for i := 0; i < nMsg; i++ {
		p := &msgPlan{name: fmt.Sprintf("Msg%d", i), parent: -1, index: i, clientNm: map[string]bool{}}
		if i > 0 && rapid.IntRange(0, 4).Draw(t, "nest") == 0 {
			p.parent = rapid.IntRange(0, i-1).Draw(t, "nestin")
			g.cls("nested-message")
			if rapid.Bool().Draw(t, "nestchain") && g.msgs[i-1].parent >= 0 {
				// deeper: inside the previous nested message
				p.parent = i - 1
			}
			if g.msgs[p.parent].parent >= 0 {
				g.cls("nested-depth>=3")
			}
			// simple names recur under different parents (Req.Filter.Range,
			// Res.Filter.Range): only siblings must differ
			if rapid.Bool().Draw(t, "nestname") {
				taken := map[string]bool{}
				for _, q := range g.msgs {
					if q.parent == p.parent {
						taken[q.name] = true
					}
				}
				for _, cand := range rapid.Permutation([]string{"Filter", "Range", "Item", "Inner"}).Draw(t, "nestnames") {
					if !taken[cand] && cand != g.msgs[p.parent].name {
						p.name = cand
						g.cls("nested-name-reused")
						break
					}
				}
			}
		}
		shapes := []string{"object", "object", "object", "object", "wrapper-flag", "wrapper-opt", "wrapper-implicit"}
		p.shape = rapid.SampledFrom(shapes).Draw(t, "shape")
		if i == 0 {
			p.shape = "object" // the root is always an object with many fields
		}
		g.msgs = append(g.msgs, p)
	}
	// a top-level declaration spelled like a nested one's flattened name: Foo_Bar
	// next to Foo.Bar (legal proto, if unusual)
	if mode == Arbitrary && rapid.IntRange(0, 9).Draw(t, "flatname") == 0 {
		for _, q := range g.msgs {
			if q.parent >= 0 && g.msgs[q.parent].parent == -1 {
				g.msgs = append(g.msgs, &msgPlan{name: g.msgs[q.parent].name + "_" + q.name, parent: -1, index: len(g.msgs), clientNm: map[string]bool{}, shape: "object"})
				g.cls("top-level-named-like-nested")
				break
			}
		}
	}
	// the same two trailing name components under different outer messages:
	// A.Filter.Range and B.Filter.Range are different types
	var tops []int
	for i, p := range g.msgs {
		if p.parent == -1 {
			tops = append(tops, i)
		}
	}
	if len(tops) >= 2 && rapid.IntRange(0, 4).Draw(t, "twinchains") == 0 {
		for _, top := range tops[:2] {
			mid := &msgPlan{name: "Filter", parent: top, index: len(g.msgs), clientNm: map[string]bool{}, shape: "object"}
			for _, q := range g.msgs {
				if q.parent == top && q.name == "Filter" {
					mid = q
				}
			}
			if mid.index == len(g.msgs) {
				g.msgs = append(g.msgs, mid)
			}
			dup := false
			for _, q := range g.msgs {
				if q.parent == mid.index && q.name == "Range" {
					dup = true
				}
			}
			if !dup {
				g.msgs = append(g.msgs, &msgPlan{name: "Range", parent: mid.index, index: len(g.msgs), clientNm: map[string]bool{}, shape: "object"})
			}
		}
		g.cls("nested-twin-chains")
	}
	for _, p := range g.msgs {
		p.full = g.fullName(p)
	}
	// build bodies from the last to the first so that flatten targets (higher
	// index) are complete before they are referenced.
	for i := len(g.msgs) - 1; i >= 0; i-- {
		g.buildMessage(g.msgs[i])
	}

	// a flatten cycle that does not pass through the message that starts it:
	// A flattens B, and B flattens itself (or C, which flattens B)
	if mode == Arbitrary && len(g.msgs) >= 2 && rapid.IntRange(0, 5).Draw(t, "flattencycle") == 0 {
		ix := rapid.Permutation(g.msgs).Draw(t, "cyclemsgs")
		a, b := ix[0], ix[1]
		c := b
		if len(ix) >= 3 && rapid.Bool().Draw(t, "cycle3") {
			c = ix[2]
		}
		add := func(from, to *msgPlan, name string) {
			var maxNum int32
			for _, f := range from.desc.Field {
				if f.GetNumber() > maxNum {
					maxNum = f.GetNumber()
				}
			}
			opts := &descriptorpb.FieldOptions{}
			proto.SetExtension(opts, ext_j5pb.E_Field, &ext_j5pb.FieldOptions{Type: &ext_j5pb.FieldOptions_Object{Object: &ext_j5pb.ObjectField{Flatten: true}}})
			from.desc.Field = append(from.desc.Field, &descriptorpb.FieldDescriptorProto{
				Name: proto.String(name), JsonName: proto.String(jsonName(name)), Number: proto.Int32(maxNum + 1),
				Type: descriptorpb.FieldDescriptorProto_TYPE_MESSAGE.Enum(), TypeName: proto.String(to.full),
				Label: descriptorpb.FieldDescriptorProto_LABEL_OPTIONAL.Enum(), Options: opts,
			})
		}
		add(a, b, fmt.Sprintf("cyc_in_%d", a.index))
		add(b, c, fmt.Sprintf("cyc_on_%d", b.index))
		if c != b {
			add(c, b, fmt.Sprintf("cyc_back_%d", c.index))
		}
		g.cls("flatten-cycle-off-root")
	}

	fd := &descriptorpb.FileDescriptorProto{
		Name:       proto.String(strings.ReplaceAll(pkg, ".", "/") + "/gen.proto"),
		Package:    proto.String(pkg),
		Syntax:     proto.String("proto3"),
		Dependency: append([]string(nil), stdImports...),
	}
	for _, p := range g.msgs {
		if p.parent == -1 {
			fd.MessageType = append(fd.MessageType, p.desc)
		}
	}
	// nest after all are built
	for _, p := range g.msgs {
		if p.parent >= 0 {
			par := g.msgs[p.parent]
			par.desc.NestedType = append(par.desc.NestedType, p.desc)
		}
	}
	for _, e := range g.enums {
		fd.EnumType = append(fd.EnumType, g.enumDesc(e))
	}
	return Result{File: fd, Classes: g.Classes}
}

func (g *gen) fullName(p *msgPlan) string {
	if p.parent == -1 {
		return "." + g.pkg + "." + p.name
	}
	return g.fullName(g.msgs[p.parent]) + "." + p.name
}

func (g *gen) planEnum(i int) *enumPlan {
	t := g.t
	name := fmt.Sprintf("Enum%d", i)
	e := &enumPlan{name: name, full: "." + g.pkg + "." + name, prefix: strings.ToUpper(name) + "_"}
	if rapid.IntRange(0, 3).Draw(t, "oddprefix") == 0 {
		e.prefix = fmt.Sprintf(rapid.SampledFrom([]string{"E%d_", "KIND%d_", "X%dX"}).Draw(t, "prefix"), i)
	}
	e.values = append(e.values, e.prefix+"UNSPECIFIED")
	n := rapid.IntRange(1, 4).Draw(t, "nvals")
	for k := 0; k < n; k++ {
		e.values = append(e.values, fmt.Sprintf("%s%s", e.prefix, strings.ToUpper(words[(i*5+k)%len(words)])))
	}
	if rapid.IntRange(0, 3).Draw(t, "ambig") == 0 {
		// an option whose short name starts with the enum prefix
		e.values = append(e.values, e.prefix+e.values[1])
		g.cls("enum-prefix-ambiguity")
	}
	if rapid.IntRange(0, 2).Draw(t, "sparseenum") == 0 {
		e.sparse = true
		g.cls("enum-sparse-numbers")
	}
	if g.mode == Annotated && rapid.IntRange(0, 4).Draw(t, "enumnodefault") == 0 {
		// (j5.ext.v1.enum).no_default: reflection drops the zero option, the exported
		// option list starts at 1
		e.noDefault = true
		g.cls("enum-no-default")
	}
	if g.mode == Arbitrary {
		switch rapid.IntRange(0, 5).Draw(t, "enumodd") {
		case 0:
			e.values[0] = e.prefix + "NONE" // no *_UNSPECIFIED
			g.cls("enum-without-unspecified")
		case 1:
			e.noDefault = true
		}
	}
	return e
}

func (g *gen) enumDesc(e *enumPlan) *descriptorpb.EnumDescriptorProto {
	ed := &descriptorpb.EnumDescriptorProto{Name: proto.String(e.name)}
	num := int32(0)
	for i, v := range e.values {
		if i > 0 {
			num++
			if e.sparse {
				// option numbers need not be contiguous: 0, 2, 3, 7, ...
				num += int32(rapid.IntRange(0, 3).Draw(g.t, "enumgap"))
			}
		}
		ed.Value = append(ed.Value, &descriptorpb.EnumValueDescriptorProto{Name: proto.String(v), Number: proto.Int32(num)})
	}
	// nor do option numbers have to ascend (only the first must be zero)
	if len(ed.Value) > 2 && rapid.IntRange(0, 3).Draw(g.t, "enumorder") == 0 {
		rest := ed.Value[1:]
		nums := make([]int32, len(rest))
		for i, v := range rest {
			nums[i] = v.GetNumber()
		}
		for i, v := range rapid.Permutation(rest).Draw(g.t, "enumperm") {
			v.Number = proto.Int32(nums[i])
		}
		for i, v := range rest {
			if v.GetNumber() != nums[i] {
				g.cls("enum-numbers-out-of-order")
				break
			}
		}
	}
	if e.noDefault {
		ed.Options = &descriptorpb.EnumOptions{}
		proto.SetExtension(ed.Options, ext_j5pb.E_Enum, &ext_j5pb.EnumOptions{NoDefault: true})
	}
	if g.mode == Annotated && rapid.Bool().Draw(g.t, "enuminfo") {
		// option info: declared on the enum, values on each option
		ed.Options = &descriptorpb.EnumOptions{}
		proto.SetExtension(ed.Options, ext_j5pb.E_Enum, &ext_j5pb.EnumOptions{InfoFields: []*ext_j5pb.EnumInfoField{{Name: "color", Label: "Colour"}, {Name: "size", Description: "how big"}}})
		for i, v := range ed.Value {
			if i == 0 {
				continue
			}
			v.Options = &descriptorpb.EnumValueOptions{}
			proto.SetExtension(v.Options, ext_j5pb.E_EnumValue, &ext_j5pb.EnumValueOptions{Description: "option " + v.GetName(), Info: map[string]string{"color": "red", "size": fmt.Sprint(i)}})
		}
		g.cls("ann:enum-info")
	}
	return ed
}

type fieldType struct {
	typ      descriptorpb.FieldDescriptorProto_Type
	typeName string
	class    string
	msgIndex int // index of referenced generated message, -1 otherwise
}

func (g *gen) drawType(forMsg *msgPlan, onlyMessages bool, allowAny bool) fieldType {
	t := g.t
	for {
		k := rapid.IntRange(0, 19).Draw(t, "ftype")
		switch {
		case k <= 7 && !onlyMessages:
			pool := supportedScalars
			if g.mode == Arbitrary && rapid.IntRange(0, 3).Draw(t, "unsup") == 0 {
				pool = unsupportedScalars
				g.cls("unsupported-scalar")
			}
			s := rapid.SampledFrom(pool).Draw(t, "scalar")
			return fieldType{typ: s.typ, class: s.name, msgIndex: -1}
		case k <= 9 && !onlyMessages:
			if len(g.enums) == 0 {
				continue
			}
			e := rapid.SampledFrom(g.enums).Draw(t, "enum")
			return fieldType{typ: descriptorpb.FieldDescriptorProto_TYPE_ENUM, typeName: e.full, class: "enum", msgIndex: -1}
		case k <= 12:
			w := rapid.SampledFrom(supportedWKT).Draw(t, "wkt")
			if g.mode == Arbitrary && rapid.IntRange(0, 2).Draw(t, "otherwkt") == 0 {
				w = rapid.SampledFrom(otherWKT).Draw(t, "owkt")
				g.cls("other-wkt")
			}
			return fieldType{typ: descriptorpb.FieldDescriptorProto_TYPE_MESSAGE, typeName: w, class: "wkt:" + w[strings.LastIndex(w, ".")+1:], msgIndex: -1}
		case k == 13:
			if !allowAny {
				continue
			}
			a := rapid.SampledFrom(anyTypes).Draw(t, "any")
			g.cls("any")
			return fieldType{typ: descriptorpb.FieldDescriptorProto_TYPE_MESSAGE, typeName: a, class: "any", msgIndex: -1}
		default:
			m := rapid.SampledFrom(g.msgs).Draw(t, "msgref")
			if m.index <= forMsg.index {
				g.cls("recursive-ref")
			}
			return fieldType{typ: descriptorpb.FieldDescriptorProto_TYPE_MESSAGE, typeName: m.full, class: "message", msgIndex: m.index}
		}
	}
}

func (g *gen) buildMessage(p *msgPlan) {
	t := g.t
	if g.plainTaken == nil {
		// once per file: flattened members share their holder's JSON names, and
		// duplicates there are a finding of their own (C18)
		g.plainTaken = map[string]bool{}
	}
	d := &descriptorpb.DescriptorProto{Name: proto.String(p.name)}
	p.desc = d
	num := int32(0)
	nextNum := func() int32 {
		num += int32(rapid.IntRange(1, 3).Draw(t, "numgap"))
		if num >= 19000 && num <= 19999 {
			num = 20000
		}
		return num
	}
	addField := func(ft fieldType, card string, oneofIdx int, opts *descriptorpb.FieldOptions) *descriptorpb.FieldDescriptorProto {
		name := g.fieldName()
		f := &descriptorpb.FieldDescriptorProto{
			Name:   proto.String(name),
			Number: proto.Int32(nextNum()),
			Type:   ft.typ.Enum(),
			Label:  descriptorpb.FieldDescriptorProto_LABEL_OPTIONAL.Enum(),
		}
		if ft.typeName != "" {
			f.TypeName = proto.String(ft.typeName)
		}
		if opts != nil {
			f.Options = opts
		}
		switch card {
		case "repeated":
			f.Label = descriptorpb.FieldDescriptorProto_LABEL_REPEATED.Enum()
		case "optional":
			f.Proto3Optional = proto.Bool(true)
			idx := int32(len(d.OneofDecl))
			d.OneofDecl = append(d.OneofDecl, &descriptorpb.OneofDescriptorProto{Name: proto.String("_" + name)})
			f.OneofIndex = proto.Int32(idx)
		case "map":
			entryName := mapEntryName(name)
			keyType := descriptorpb.FieldDescriptorProto_TYPE_STRING
			if g.mode == Arbitrary && rapid.IntRange(0, 3).Draw(t, "mapkey") == 0 {
				keyType = rapid.SampledFrom([]descriptorpb.FieldDescriptorProto_Type{descriptorpb.FieldDescriptorProto_TYPE_INT32, descriptorpb.FieldDescriptorProto_TYPE_BOOL, descriptorpb.FieldDescriptorProto_TYPE_UINT64}).Draw(t, "mapkeytype")
				g.cls("non-string-map-key")
			}
			entry := &descriptorpb.DescriptorProto{
				Name: proto.String(entryName),
				Field: []*descriptorpb.FieldDescriptorProto{
					{Name: proto.String("key"), Number: proto.Int32(1), Type: keyType.Enum(), Label: descriptorpb.FieldDescriptorProto_LABEL_OPTIONAL.Enum(), JsonName: proto.String("key")},
					{Name: proto.String("value"), Number: proto.Int32(2), Type: ft.typ.Enum(), Label: descriptorpb.FieldDescriptorProto_LABEL_OPTIONAL.Enum(), JsonName: proto.String("value")},
				},
				Options: &descriptorpb.MessageOptions{MapEntry: proto.Bool(true)},
			}
			if ft.typeName != "" {
				entry.Field[1].TypeName = proto.String(ft.typeName)
			}
			d.NestedType = append(d.NestedType, entry)
			f.Label = descriptorpb.FieldDescriptorProto_LABEL_REPEATED.Enum()
			f.Type = descriptorpb.FieldDescriptorProto_TYPE_MESSAGE.Enum()
			f.TypeName = proto.String(p.full + "." + entryName)
		}
		if oneofIdx >= 0 {
			f.OneofIndex = proto.Int32(int32(oneofIdx))
		}
		d.Field = append(d.Field, f)
		return f
	}

	if strings.HasPrefix(p.shape, "wrapper") {
		g.cls(p.shape)
		d.OneofDecl = append(d.OneofDecl, &descriptorpb.OneofDescriptorProto{Name: proto.String("type")})
		switch p.shape {
		case "wrapper-flag":
			d.Options = &descriptorpb.MessageOptions{}
			proto.SetExtension(d.Options, ext_j5pb.E_Message, &ext_j5pb.MessageOptions{IsOneofWrapper: true})
		case "wrapper-opt":
			d.Options = &descriptorpb.MessageOptions{}
			proto.SetExtension(d.Options, ext_j5pb.E_Message, &ext_j5pb.MessageOptions{Type: &ext_j5pb.MessageOptions_Oneof{Oneof: &ext_j5pb.OneofMessageOptions{}}})
		}
		n := rapid.IntRange(1, 4).Draw(t, "narms")
		for i := 0; i < n; i++ {
			ft := g.drawType(p, p.shape == "wrapper-implicit", false)
			f := addField(ft, "", 0, nil)
			p.clientNm[jsonName(f.GetName())] = true
		}
		return
	}

	// plain object
	if g.mode == Arbitrary && rapid.IntRange(0, 5).Draw(t, "objopt") == 0 {
		d.Options = &descriptorpb.MessageOptions{}
		proto.SetExtension(d.Options, ext_j5pb.E_Message, &ext_j5pb.MessageOptions{Type: &ext_j5pb.MessageOptions_Object{Object: &ext_j5pb.ObjectMessageOptions{}}})
	} else if g.mode == Arbitrary && rapid.IntRange(0, 5).Draw(t, "objoptany") == 0 {
		// any value of the message-level annotations (message kind, entity part)
		d.Options = &descriptorpb.MessageOptions{}
		for i, ext := range []protoreflect.ExtensionType{ext_j5pb.E_Message, ext_j5pb.E_Psm} {
			if rapid.Bool().Draw(t, fmt.Sprintf("msgext%d", i)) {
				m := ext.New().Message().New()
				g.fillAny(m, 0, fmt.Sprintf("mx%d.", i))
				proto.SetExtension(d.Options, ext, m.Interface())
				g.cls("opt:generic:" + string(ext.TypeDescriptor().FullName()))
			}
		}
	}
	nf := rapid.IntRange(0, 8).Draw(t, "nfields")
	if p.index == 0 {
		nf = rapid.IntRange(3, 12).Draw(t, "nfields0")
	}
	for i := 0; i < nf; i++ {
		ft := g.drawType(p, false, true)
		card := rapid.SampledFrom([]string{"", "", "", "optional", "repeated", "repeated", "map"}).Draw(t, "card")
		if ft.class == "any" && (card == "repeated" || card == "map") {
			if g.mode != Arbitrary {
				card = "" // arrays/maps of any are not in the J5 type list
			}
		}
		var opts *descriptorpb.FieldOptions
		if ft.class == "string" && card != "map" && rapid.IntRange(0, 3).Draw(t, "iskey") == 0 {
			opts = &descriptorpb.FieldOptions{}
			proto.SetExtension(opts, ext_j5pb.E_Field, &ext_j5pb.FieldOptions{Type: &ext_j5pb.FieldOptions_Key{Key: &ext_j5pb.KeyField{}}})
			g.cls("key-field")
		}
		// flatten: a single message field pointing at a later plain object
		if ft.class == "message" && (card == "" || card == "optional") && ft.msgIndex > p.index {
			tgt := g.msgs[ft.msgIndex]
			if tgt.shape == "object" && tgt.canFlat && rapid.IntRange(0, 1).Draw(t, "flatten") == 0 && disjoint(p.clientNm, tgt.clientNm) {
				if card == "optional" {
					g.cls("flatten:optional-field") // the field sits in a synthetic oneof
				}
				opts = &descriptorpb.FieldOptions{}
				if rapid.Bool().Draw(t, "flattenstyle") {
					proto.SetExtension(opts, ext_j5pb.E_Field, &ext_j5pb.FieldOptions{Type: &ext_j5pb.FieldOptions_Message{Message: &ext_j5pb.MessageFieldOptions{Flatten: true}}})
				} else {
					proto.SetExtension(opts, ext_j5pb.E_Field, &ext_j5pb.FieldOptions{Type: &ext_j5pb.FieldOptions_Object{Object: &ext_j5pb.ObjectField{Flatten: true}}})
				}
				g.cls("flatten")
				addField(ft, card, -1, opts)
				for k := range tgt.clientNm {
					p.clientNm[k] = true
				}
				continue
			}
		}
		if g.mode == Annotated && opts == nil {
			opts = g.consistentOptions(ft, card)
		}
		if g.mode == Arbitrary && opts == nil && rapid.IntRange(0, 3).Draw(t, "consistentopts") == 0 {
			opts = g.consistentOptions(ft, card)
		}
		if g.mode == Arbitrary {
			opts = g.arbitraryOptions(ft, card, opts)
			if ft.class == "message" && card == "" && rapid.IntRange(0, 5).Draw(t, "anyflatten") == 0 {
				opts = &descriptorpb.FieldOptions{}
				proto.SetExtension(opts, ext_j5pb.E_Field, &ext_j5pb.FieldOptions{Type: &ext_j5pb.FieldOptions_Object{Object: &ext_j5pb.ObjectField{Flatten: true}}})
				g.cls("flatten-unchecked")
			}
		}
		f := addField(ft, card, -1, opts)
		p.clientNm[jsonName(f.GetName())] = true
		if card != "" {
			g.cls(card + ":" + strings.SplitN(ft.class, ":", 2)[0])
		}
	}
	// a real, unexposed oneof
	if rapid.IntRange(0, 3).Draw(t, "realoneof") == 0 {
		idx := len(d.OneofDecl)
		oneofName := fmt.Sprintf("choice_%d", p.index)
		// a plain oneof that happens to be called "type", as wrappers' oneofs are:
		// with fields outside it (or scalar members) the message is still an object
		typeNamed := len(d.Field) > 0 && rapid.IntRange(0, 2).Draw(t, "oneofnamedtype") == 0
		if typeNamed {
			oneofName = "type"
			g.cls("plain-oneof-named-type")
		}
		d.OneofDecl = append(d.OneofDecl, &descriptorpb.OneofDescriptorProto{Name: proto.String(oneofName)})
		n := rapid.IntRange(1, 3).Draw(t, "nreal")
		for i := 0; i < n; i++ {
			f := addField(g.drawType(p, typeNamed && rapid.Bool().Draw(t, "msgarms"), false), "", idx, nil)
			p.clientNm[jsonName(f.GetName())] = true
		}
		g.cls("plain-oneof")
	}
	// an exposed oneof
	if rapid.IntRange(0, 2).Draw(t, "exposed") == 0 {
		idx := len(d.OneofDecl)
		oname := fmt.Sprintf("exposed_%s_%d", rapid.SampledFrom(words).Draw(t, "eword"), p.index)
		od := &descriptorpb.OneofDescriptorProto{Name: proto.String(oname), Options: &descriptorpb.OneofOptions{}}
		proto.SetExtension(od.Options, ext_j5pb.E_Oneof, &ext_j5pb.OneofOptions{Expose: true})
		d.OneofDecl = append(d.OneofDecl, od)
		n := rapid.IntRange(1, 3).Draw(t, "nexp")
		for i := 0; i < n; i++ {
			addField(g.drawType(p, false, false), "", idx, nil)
		}
		p.clientNm[jsonName(oname)] = true
		g.cls("exposed-oneof")
	}
	if g.mode == Annotated && p.shape == "object" && rapid.IntRange(0, 7).Draw(t, "selfflatten") == 0 {
		// a flattened reference to the message itself (a linked list inlined into its
		// head): valid, and the flag is part of what re-import must keep
		opts := &descriptorpb.FieldOptions{}
		proto.SetExtension(opts, ext_j5pb.E_Field, &ext_j5pb.FieldOptions{Type: &ext_j5pb.FieldOptions_Message{Message: &ext_j5pb.MessageFieldOptions{Flatten: true}}})
		name := fmt.Sprintf("again_%d", p.index)
		d.Field = append(d.Field, &descriptorpb.FieldDescriptorProto{
			Name: proto.String(name), JsonName: proto.String(jsonName(name)), Number: proto.Int32(nextNum()),
			Type: descriptorpb.FieldDescriptorProto_TYPE_MESSAGE.Enum(), TypeName: proto.String(p.full),
			Label: descriptorpb.FieldDescriptorProto_LABEL_OPTIONAL.Enum(), Options: opts,
		})
		g.cls("flatten:self")
	}
	// proto3 requires synthetic oneofs to come after real ones
	reorderOneofs(d)
	// field numbers need not follow the declaration order
	if len(d.Field) > 1 && rapid.IntRange(0, 3).Draw(t, "numorder") == 0 {
		perm := rapid.Permutation(d.Field).Draw(t, "numperm")
		nums := make([]int32, len(d.Field))
		for i, f := range d.Field {
			nums[i] = f.GetNumber()
		}
		moved := false
		for i, f := range perm {
			if f.GetNumber() != nums[i] {
				moved = true
			}
		}
		for i, f := range perm {
			f.Number = proto.Int32(nums[i])
		}
		if moved {
			g.cls("field-numbers-out-of-order")
		}
	}
	// safe flatten target: no flatten of its own cycles back; conservative: only
	// messages that reference no generated message at all or only later ones.
	p.canFlat = true
	for _, f := range d.Field {
		if f.GetType() == descriptorpb.FieldDescriptorProto_TYPE_MESSAGE {
			for _, m := range g.msgs {
				if f.GetTypeName() == m.full && m.index <= p.index && hasFlatten(f) {
					p.canFlat = false
				}
			}
		}
	}
}

func hasFlatten(f *descriptorpb.FieldDescriptorProto) bool {
	if f.Options == nil {
		return false
	}
	ext, _ := proto.GetExtension(f.Options, ext_j5pb.E_Field).(*ext_j5pb.FieldOptions)
	return ext.GetMessage().GetFlatten() || ext.GetObject().GetFlatten()
}

func disjoint(a, b map[string]bool) bool {
	for k := range b {
		if a[k] {
			return false
		}
	}
	return true
}

// reorderOneofs moves synthetic (proto3 optional) oneofs after the real ones and
// fixes the indices, as protoc does.
func reorderOneofs(d *descriptorpb.DescriptorProto) {
	synthetic := map[int32]bool{}
	for _, f := range d.Field {
		if f.GetProto3Optional() && f.OneofIndex != nil {
			synthetic[f.GetOneofIndex()] = true
		}
	}
	remap := map[int32]int32{}
	var out []*descriptorpb.OneofDescriptorProto
	for i, o := range d.OneofDecl {
		if !synthetic[int32(i)] {
			remap[int32(i)] = int32(len(out))
			out = append(out, o)
		}
	}
	for i, o := range d.OneofDecl {
		if synthetic[int32(i)] {
			remap[int32(i)] = int32(len(out))
			out = append(out, o)
		}
	}
	for _, f := range d.Field {
		if f.OneofIndex != nil {
			f.OneofIndex = proto.Int32(remap[f.GetOneofIndex()])
		}
	}
	d.OneofDecl = out
}

func mapEntryName(field string) string {
	// protoc: CamelCase(field) + "Entry"
	var sb strings.Builder
	up := true
	for _, r := range field {
		if r == '_' {
			up = true
			continue
		}
		if up && r >= 'a' && r <= 'z' {
			r = r - 'a' + 'A'
		}
		up = false
		sb.WriteRune(r)
	}
	return sb.String() + "Entry"
}

// jsonName is protoc's default JSON name.
func jsonName(s string) string {
	var sb strings.Builder
	up := false
	for _, r := range s {
		if r == '_' {
			up = true
			continue
		}
		if up && r >= 'a' && r <= 'z' {
			r = r - 'a' + 'A'
		}
		up = false
		sb.WriteRune(r)
	}
	return sb.String()
}

// arbitraryOptions attaches validate / list / j5 options that may or may not be
// consistent with the field they annotate.
func (g *gen) arbitraryOptions(ft fieldType, card string, opts *descriptorpb.FieldOptions) *descriptorpb.FieldOptions {
	t := g.t
	if rapid.IntRange(0, 2).Draw(t, "hasopts") != 0 {
		return opts
	}
	if opts == nil {
		opts = &descriptorpb.FieldOptions{}
	}
	switch rapid.IntRange(0, 19).Draw(t, "optkind") {
	case 14, 15, 16, 17, 18, 19:
		// any value of the option messages: every member is filled (or not) by
		// reflection over the option's own descriptor, oneofs pick an arm, nothing
		// is made to agree with the field it annotates
		for i, ext := range []protoreflect.ExtensionType{ext_j5pb.E_Field, validate.E_Field, list_j5pb.E_Field, ext_j5pb.E_Key} {
			if rapid.IntRange(0, 2).Draw(t, fmt.Sprintf("genericext%d", i)) != 0 {
				continue
			}
			m := ext.New().Message().New()
			g.fillAny(m, 0, fmt.Sprintf("x%d.", i))
			proto.SetExtension(opts, ext, m.Interface())
			g.cls("opt:generic:" + string(ext.TypeDescriptor().FullName()))
		}
	case 0:
		proto.SetExtension(opts, validate.E_Field, &validate.FieldConstraints{Type: &validate.FieldConstraints_Bool{Bool: &validate.BoolRules{Const: proto.Bool(true)}}})
		g.cls("opt:validate.bool.const")
	case 1:
		proto.SetExtension(opts, validate.E_Field, &validate.FieldConstraints{Type: &validate.FieldConstraints_String_{String_: &validate.StringRules{MinLen: proto.Uint64(1), Pattern: proto.String("^a+$")}}})
		g.cls("opt:validate.string")
	case 2:
		proto.SetExtension(opts, validate.E_Field, &validate.FieldConstraints{Type: &validate.FieldConstraints_Int32{Int32: &validate.Int32Rules{GreaterThan: &validate.Int32Rules_Gt{Gt: 1}}}})
		g.cls("opt:validate.int32")
	case 3:
		proto.SetExtension(opts, validate.E_Field, &validate.FieldConstraints{Type: &validate.FieldConstraints_Uint64{Uint64: &validate.UInt64Rules{LessThan: &validate.UInt64Rules_Lte{Lte: 1 << 63}}}})
		g.cls("opt:validate.uint64")
	case 4:
		proto.SetExtension(opts, validate.E_Field, &validate.FieldConstraints{Required: proto.Bool(true)})
		g.cls("opt:validate.required")
	case 5:
		proto.SetExtension(opts, validate.E_Field, &validate.FieldConstraints{Type: &validate.FieldConstraints_Repeated{Repeated: &validate.RepeatedRules{MinItems: proto.Uint64(1), Unique: proto.Bool(true), Items: &validate.FieldConstraints{Type: &validate.FieldConstraints_String_{String_: &validate.StringRules{MaxLen: proto.Uint64(3)}}}}}})
		g.cls("opt:validate.repeated")
	case 6:
		proto.SetExtension(opts, validate.E_Field, &validate.FieldConstraints{Type: &validate.FieldConstraints_Enum{Enum: &validate.EnumRules{DefinedOnly: proto.Bool(true), In: []int32{1, 7}, NotIn: []int32{0, 9}}}})
		g.cls("opt:validate.enum")
	case 7:
		proto.SetExtension(opts, list_j5pb.E_Field, &list_j5pb.FieldConstraint{Type: &list_j5pb.FieldConstraint_String_{String_: &list_j5pb.StringRules{WellKnown: &list_j5pb.StringRules_OpenText{OpenText: &list_j5pb.OpenTextRules{Searching: &list_j5pb.SearchingConstraint{Searchable: true}}}}}})
		g.cls("opt:list.open_text")
	case 8:
		proto.SetExtension(opts, list_j5pb.E_Field, &list_j5pb.FieldConstraint{Type: &list_j5pb.FieldConstraint_String_{String_: &list_j5pb.StringRules{WellKnown: &list_j5pb.StringRules_ForeignKey{ForeignKey: &list_j5pb.ForeignKeyRules{Type: &list_j5pb.ForeignKeyRules_Uuid{Uuid: &list_j5pb.KeyRules{Filtering: &list_j5pb.FilteringConstraint{Filterable: true}}}}}}}})
		g.cls("opt:list.fk.uuid")
	case 9:
		proto.SetExtension(opts, ext_j5pb.E_Field, &ext_j5pb.FieldOptions{Type: &ext_j5pb.FieldOptions_Key{Key: &ext_j5pb.KeyField{Type: &ext_j5pb.KeyField_Format_{Format: ext_j5pb.KeyField_FORMAT_ID62}}}})
		g.cls("opt:j5.key")
	case 10:
		proto.SetExtension(opts, ext_j5pb.E_Field, &ext_j5pb.FieldOptions{Type: &ext_j5pb.FieldOptions_Date{Date: &ext_j5pb.DateField{Rules: &ext_j5pb.DateField_Rules{Minimum: proto.String("2020-01-01")}}}})
		g.cls("opt:j5.date")
	case 11:
		proto.SetExtension(opts, ext_j5pb.E_Key, &ext_j5pb.PSMKeyFieldOptions{PrimaryKey: true})
		g.cls("opt:j5.psmkey")
	case 12:
		// the members of FieldConstraints that are not type rules: ignore, and
		// repeated / map rules with and without their items / values
		ig := rapid.SampledFrom([]validate.Ignore{validate.Ignore_IGNORE_UNSPECIFIED, validate.Ignore_IGNORE_IF_UNPOPULATED, validate.Ignore_IGNORE_IF_DEFAULT_VALUE, validate.Ignore_IGNORE_ALWAYS}).Draw(t, "ignore")
		fc := &validate.FieldConstraints{Ignore: ig.Enum()}
		switch rapid.IntRange(0, 3).Draw(t, "ignorewith") {
		case 0:
			fc.Type = &validate.FieldConstraints_Repeated{Repeated: &validate.RepeatedRules{MinItems: proto.Uint64(1), Unique: proto.Bool(true)}}
		case 1:
			fc.Type = &validate.FieldConstraints_Repeated{Repeated: &validate.RepeatedRules{Items: &validate.FieldConstraints{Type: &validate.FieldConstraints_String_{String_: &validate.StringRules{MinLen: proto.Uint64(1)}}}}}
		case 2:
			fc.Type = &validate.FieldConstraints_Map{Map: &validate.MapRules{MinPairs: proto.Uint64(1)}}
		}
		proto.SetExtension(opts, validate.E_Field, fc)
		g.cls("opt:validate.ignore")
	case 13:
		proto.SetExtension(opts, validate.E_Field, &validate.FieldConstraints{Type: &validate.FieldConstraints_Repeated{Repeated: &validate.RepeatedRules{MaxItems: proto.Uint64(3)}}})
		g.cls("opt:validate.repeated-no-items")
	}
	return opts
}

var optionStrings = []string{"", "x", "^a+$", "[", "2020-01-01", "2020-13-45", "1.5", "-1", "1e400", "id62", "uuid", "name", "a.b", "😀", "01234567890123456789AB"}

// fillAny sets an arbitrary subset of the members of an option message.
func (g *gen) fillAny(m protoreflect.Message, depth int, label string) {
	t := g.t
	fields := m.Descriptor().Fields()
	chosen := map[string]int{} // oneof name -> index of the arm that may be set
	for i := 0; i < m.Descriptor().Oneofs().Len(); i++ {
		od := m.Descriptor().Oneofs().Get(i)
		if od.IsSynthetic() {
			continue
		}
		chosen[string(od.Name())] = rapid.IntRange(-1, od.Fields().Len()-1).Draw(t, label+"arm")
	}
	for i := 0; i < fields.Len(); i++ {
		fd := fields.Get(i)
		if od := fd.ContainingOneof(); od != nil && !od.IsSynthetic() {
			want := chosen[string(od.Name())]
			if want < 0 || od.Fields().Get(want) != fd {
				continue
			}
		} else if rapid.IntRange(0, 2).Draw(t, label+"set") != 0 {
			continue
		}
		one := func() (protoreflect.Value, bool) {
			switch fd.Kind() {
			case protoreflect.BoolKind:
				return protoreflect.ValueOfBool(rapid.Bool().Draw(t, label+"b")), true
			case protoreflect.StringKind:
				return protoreflect.ValueOfString(rapid.SampledFrom(optionStrings).Draw(t, label+"s")), true
			case protoreflect.BytesKind:
				return protoreflect.ValueOfBytes([]byte(rapid.SampledFrom(optionStrings).Draw(t, label+"y"))), true
			case protoreflect.EnumKind:
				vals := fd.Enum().Values()
				return protoreflect.ValueOfEnum(vals.Get(rapid.IntRange(0, vals.Len()-1).Draw(t, label+"e")).Number()), true
			case protoreflect.Int32Kind, protoreflect.Sint32Kind, protoreflect.Sfixed32Kind:
				return protoreflect.ValueOfInt32(rapid.SampledFrom([]int32{0, 1, -1, 7, math.MaxInt32, math.MinInt32}).Draw(t, label+"i")), true
			case protoreflect.Int64Kind, protoreflect.Sint64Kind, protoreflect.Sfixed64Kind:
				return protoreflect.ValueOfInt64(rapid.SampledFrom([]int64{0, 1, -1, 7, math.MaxInt64, math.MinInt64}).Draw(t, label+"l")), true
			case protoreflect.Uint32Kind, protoreflect.Fixed32Kind:
				return protoreflect.ValueOfUint32(rapid.SampledFrom([]uint32{0, 1, 7, math.MaxUint32}).Draw(t, label+"u")), true
			case protoreflect.Uint64Kind, protoreflect.Fixed64Kind:
				return protoreflect.ValueOfUint64(rapid.SampledFrom([]uint64{0, 1, 7, math.MaxUint64}).Draw(t, label+"v")), true
			case protoreflect.FloatKind:
				return protoreflect.ValueOfFloat32(rapid.SampledFrom([]float32{0, 1, -1.5, float32(math.Inf(1)), float32(math.NaN())}).Draw(t, label+"f")), true
			case protoreflect.DoubleKind:
				return protoreflect.ValueOfFloat64(rapid.SampledFrom([]float64{0, 1, -1.5, math.Inf(-1), math.NaN()}).Draw(t, label+"d")), true
			case protoreflect.MessageKind, protoreflect.GroupKind:
				if depth >= 4 {
					return protoreflect.Value{}, false
				}
				sub := m.NewField(fd)
				if fd.IsList() {
					sub = protoreflect.ValueOfMessage(sub.List().NewElement().Message())
				} else if fd.IsMap() {
					return protoreflect.Value{}, false
				}
				g.fillAny(sub.Message(), depth+1, label+string(fd.Name())+".")
				return sub, true
			}
			return protoreflect.Value{}, false
		}
		switch {
		case fd.IsMap():
			continue
		case fd.IsList():
			l := m.Mutable(fd).List()
			for n := rapid.IntRange(0, 2).Draw(t, label+"n"); n > 0; n-- {
				if v, ok := one(); ok {
					l.Append(v)
				}
			}
		default:
			if v, ok := one(); ok {
				m.Set(fd, v)
			}
		}
	}
}

// Link turns file protos into linked descriptors. Dependencies are resolved from
// the earlier files first, then from the global registry.
func Link(files ...*descriptorpb.FileDescriptorProto) (*protoregistry.Files, []protoreflect.FileDescriptor, error) {
	reg := &protoregistry.Files{}
	var out []protoreflect.FileDescriptor
	res := &fallbackResolver{local: reg}
	for _, f := range files {
		fd, err := protodesc.NewFile(f, res)
		if err != nil {
			return nil, nil, err
		}
		if err := reg.RegisterFile(fd); err != nil {
			return nil, nil, err
		}
		out = append(out, fd)
	}
	return reg, out, nil
}

type fallbackResolver struct {
	local *protoregistry.Files
}

func (r *fallbackResolver) FindFileByPath(p string) (protoreflect.FileDescriptor, error) {
	if fd, err := r.local.FindFileByPath(p); err == nil {
		return fd, nil
	}
	return protoregistry.GlobalFiles.FindFileByPath(p)
}

func (r *fallbackResolver) FindDescriptorByName(n protoreflect.FullName) (protoreflect.Descriptor, error) {
	if d, err := r.local.FindDescriptorByName(n); err == nil {
		return d, nil
	}
	return protoregistry.GlobalFiles.FindDescriptorByName(n)
}

// consistentOptions draws annotations that agree with the field's type and
// cardinality: the rules, list rules and j5 field options a hand-written proto
// file in the supported subset may carry.
func (g *gen) consistentOptions(ft fieldType, card string) *descriptorpb.FieldOptions {
	t := g.t
	if card == "map" || card == "optional" || rapid.IntRange(0, 2).Draw(t, "annotate") == 0 {
		return nil
	}
	opts := &descriptorpb.FieldOptions{}
	filtering := func() *list_j5pb.FilteringConstraint {
		return &list_j5pb.FilteringConstraint{Filterable: rapid.Bool().Draw(t, "filterable")}
	}
	sorting := func() *list_j5pb.SortingConstraint {
		return &list_j5pb.SortingConstraint{Sortable: rapid.Bool().Draw(t, "sortable"), DefaultSort: rapid.Bool().Draw(t, "defaultsort")}
	}
	var item *validate.FieldConstraints
	var list *list_j5pb.FieldConstraint
	class := strings.SplitN(ft.class, ":", 2)[0]
	switch {
	case ft.class == "string":
		switch rapid.IntRange(0, 2).Draw(t, "stringkind") {
		case 0:
			sr := &validate.StringRules{}
			if rapid.Bool().Draw(t, "minlen") {
				sr.MinLen = proto.Uint64(uint64(rapid.IntRange(0, 3).Draw(t, "minlenv")))
			}
			if rapid.Bool().Draw(t, "maxlen") {
				sr.MaxLen = proto.Uint64(uint64(rapid.IntRange(3, 9).Draw(t, "maxlenv")))
			}
			if rapid.Bool().Draw(t, "pattern") {
				sr.Pattern = proto.String(rapid.SampledFrom([]string{"^[a-z]+$", "^a.b$", "^\\d{3}$"}).Draw(t, "patternv"))
			}
			item = &validate.FieldConstraints{Type: &validate.FieldConstraints_String_{String_: sr}}
			list = &list_j5pb.FieldConstraint{Type: &list_j5pb.FieldConstraint_String_{String_: &list_j5pb.StringRules{WellKnown: &list_j5pb.StringRules_OpenText{OpenText: &list_j5pb.OpenTextRules{Searching: &list_j5pb.SearchingConstraint{Searchable: rapid.Bool().Draw(t, "searchable"), FieldIdentifier: rapid.SampledFrom([]string{"", "tsv_x"}).Draw(t, "fieldid")}}}}}}
			g.cls("ann:string-rules")
		case 1:
			proto.SetExtension(opts, ext_j5pb.E_Field, &ext_j5pb.FieldOptions{Type: &ext_j5pb.FieldOptions_Key{Key: &ext_j5pb.KeyField{Type: &ext_j5pb.KeyField_Format_{Format: ext_j5pb.KeyField_FORMAT_ID62}}}})
			list = &list_j5pb.FieldConstraint{Type: &list_j5pb.FieldConstraint_String_{String_: &list_j5pb.StringRules{WellKnown: &list_j5pb.StringRules_ForeignKey{ForeignKey: &list_j5pb.ForeignKeyRules{Type: &list_j5pb.ForeignKeyRules_Id62{Id62: &list_j5pb.KeyRules{Filtering: filtering()}}}}}}}
			g.cls("ann:key-id62")
			// entity key markers, with or without the required flag the j5s compiler
			// would add: a hand-written file is free not to
			switch rapid.IntRange(0, 3).Draw(t, "psmkey") {
			case 0:
				proto.SetExtension(opts, ext_j5pb.E_Key, &ext_j5pb.PSMKeyFieldOptions{PrimaryKey: true})
				g.cls("ann:psm-primary-key")
			case 1:
				proto.SetExtension(opts, ext_j5pb.E_Key, &ext_j5pb.PSMKeyFieldOptions{TenantType: proto.String("account")})
				g.cls("ann:psm-tenant-key")
			}
		default:
			proto.SetExtension(opts, ext_j5pb.E_Field, &ext_j5pb.FieldOptions{Type: &ext_j5pb.FieldOptions_Key{Key: &ext_j5pb.KeyField{Type: &ext_j5pb.KeyField_Pattern{Pattern: "^[a-z]{3}-\\d+$"}}}})
			g.cls("ann:key-custom")
		}
	case ft.class == "int32" || ft.class == "sint32":
		item = &validate.FieldConstraints{Type: &validate.FieldConstraints_Int32{Int32: &validate.Int32Rules{GreaterThan: &validate.Int32Rules_Gte{Gte: int32(rapid.IntRange(-5, 5).Draw(t, "gte"))}, LessThan: &validate.Int32Rules_Lt{Lt: int32(rapid.IntRange(6, 100).Draw(t, "lt"))}}}}
		if ft.class == "sint32" {
			item = &validate.FieldConstraints{Type: &validate.FieldConstraints_Sint32{Sint32: &validate.SInt32Rules{GreaterThan: &validate.SInt32Rules_Gt{Gt: 1}}}}
			list = &list_j5pb.FieldConstraint{Type: &list_j5pb.FieldConstraint_Sint32{Sint32: &list_j5pb.IntegerRules{Filtering: filtering(), Sorting: sorting()}}}
		} else {
			list = &list_j5pb.FieldConstraint{Type: &list_j5pb.FieldConstraint_Int32{Int32: &list_j5pb.IntegerRules{Filtering: filtering(), Sorting: sorting()}}}
		}
		g.cls("ann:int32-rules")
	case ft.class == "uint64":
		item = &validate.FieldConstraints{Type: &validate.FieldConstraints_Uint64{Uint64: &validate.UInt64Rules{LessThan: &validate.UInt64Rules_Lte{Lte: 1 << 63}}}}
		list = &list_j5pb.FieldConstraint{Type: &list_j5pb.FieldConstraint_Uint64{Uint64: &list_j5pb.IntegerRules{Sorting: sorting()}}}
		g.cls("ann:uint64-rules")
	case ft.class == "int64":
		item = &validate.FieldConstraints{Type: &validate.FieldConstraints_Int64{Int64: &validate.Int64Rules{GreaterThan: &validate.Int64Rules_Gt{Gt: -1 << 40}, LessThan: &validate.Int64Rules_Lte{Lte: 1 << 40}}}}
		list = &list_j5pb.FieldConstraint{Type: &list_j5pb.FieldConstraint_Int64{Int64: &list_j5pb.IntegerRules{Filtering: filtering()}}}
		g.cls("ann:int64-rules")
	case ft.class == "double" || ft.class == "float":
		if ft.class == "double" {
			list = &list_j5pb.FieldConstraint{Type: &list_j5pb.FieldConstraint_Double{Double: &list_j5pb.FloatRules{Filtering: filtering(), Sorting: sorting()}}}
		} else {
			list = &list_j5pb.FieldConstraint{Type: &list_j5pb.FieldConstraint_Float{Float: &list_j5pb.FloatRules{Filtering: filtering(), Sorting: sorting()}}}
		}
		g.cls("ann:float-list")
	case ft.class == "bool":
		item = &validate.FieldConstraints{Type: &validate.FieldConstraints_Bool{Bool: &validate.BoolRules{Const: proto.Bool(rapid.Bool().Draw(t, "const"))}}}
		list = &list_j5pb.FieldConstraint{Type: &list_j5pb.FieldConstraint_Bool{Bool: &list_j5pb.BoolRules{Filtering: filtering()}}}
		g.cls("ann:bool-rules")
	case ft.class == "bytes":
		item = &validate.FieldConstraints{Type: &validate.FieldConstraints_Bytes{Bytes: &validate.BytesRules{MinLen: proto.Uint64(1), MaxLen: proto.Uint64(64)}}}
		g.cls("ann:bytes-rules")
	case ft.class == "enum":
		item = &validate.FieldConstraints{Type: &validate.FieldConstraints_Enum{Enum: &validate.EnumRules{DefinedOnly: proto.Bool(true)}}}
		list = &list_j5pb.FieldConstraint{Type: &list_j5pb.FieldConstraint_Enum{Enum: &list_j5pb.EnumRules{Filtering: filtering()}}}
		g.cls("ann:enum-rules")
	case ft.class == "wkt:Timestamp":
		list = &list_j5pb.FieldConstraint{Type: &list_j5pb.FieldConstraint_Timestamp{Timestamp: &list_j5pb.TimestampRules{Filtering: filtering(), Sorting: sorting()}}}
		g.cls("ann:timestamp-list")
	case ft.class == "wkt:Date":
		proto.SetExtension(opts, ext_j5pb.E_Field, &ext_j5pb.FieldOptions{Type: &ext_j5pb.FieldOptions_Date{Date: &ext_j5pb.DateField{Rules: &ext_j5pb.DateField_Rules{Minimum: proto.String("2020-01-01"), ExclusiveMaximum: proto.Bool(rapid.Bool().Draw(t, "exmax")), Maximum: proto.String("2030-12-31")}}}})
		list = &list_j5pb.FieldConstraint{Type: &list_j5pb.FieldConstraint_Date{Date: &list_j5pb.DateRules{Filtering: filtering()}}}
		g.cls("ann:date-rules")
	case ft.class == "wkt:Decimal":
		proto.SetExtension(opts, ext_j5pb.E_Field, &ext_j5pb.FieldOptions{Type: &ext_j5pb.FieldOptions_Decimal{Decimal: &ext_j5pb.DecimalField{Rules: &ext_j5pb.DecimalField_Rules{Minimum: proto.String("0.5"), Maximum: proto.String("99.95")}}}})
		list = &list_j5pb.FieldConstraint{Type: &list_j5pb.FieldConstraint_Decimal{Decimal: &list_j5pb.DecimalRules{Filtering: filtering(), Sorting: sorting()}}}
		g.cls("ann:decimal-rules")
	case class == "any":
		af := &ext_j5pb.AnyField{OnlyDefined: rapid.Bool().Draw(t, "onlydefined")}
		if len(g.msgs) > 0 && rapid.Bool().Draw(t, "anytypes") {
			af.Types = []string{strings.TrimPrefix(g.msgs[0].full, ".")}
		}
		proto.SetExtension(opts, ext_j5pb.E_Field, &ext_j5pb.FieldOptions{Type: &ext_j5pb.FieldOptions_Any{Any: af}})
		list = &list_j5pb.FieldConstraint{Type: &list_j5pb.FieldConstraint_Any{Any: &list_j5pb.AnyRules{Filtering: filtering()}}}
		g.cls("ann:any")
	default:
		return nil
	}
	if list != nil && rapid.Bool().Draw(t, "withlist") {
		proto.SetExtension(opts, list_j5pb.E_Field, list)
		g.cls("ann:list-rules")
	}
	required := rapid.IntRange(0, 3).Draw(t, "required") == 0
	switch {
	case card == "repeated":
		rr := &validate.RepeatedRules{Items: item}
		if rapid.Bool().Draw(t, "minitems") {
			rr.MinItems = proto.Uint64(uint64(rapid.IntRange(0, 2).Draw(t, "minitemsv")))
		}
		if rapid.Bool().Draw(t, "unique") && item != nil && class != "wkt" && class != "any" {
			rr.Unique = proto.Bool(true)
		}
		fc := &validate.FieldConstraints{Type: &validate.FieldConstraints_Repeated{Repeated: rr}}
		if required {
			fc.Required = proto.Bool(true)
		}
		proto.SetExtension(opts, validate.E_Field, fc)
		g.cls("ann:repeated-rules")
	case item != nil:
		if required {
			item.Required = proto.Bool(true)
		}
		proto.SetExtension(opts, validate.E_Field, item)
	case required:
		proto.SetExtension(opts, validate.E_Field, &validate.FieldConstraints{Required: proto.Bool(true)})
	}
	if required {
		g.cls("ann:required")
	}
	return opts
}

// CrossFile adds a second package whose only message references types of the
// first file, including an enum referenced only from a field.
func CrossFile(t *rapid.T, first *descriptorpb.FileDescriptorProto, pkg string) *descriptorpb.FileDescriptorProto {
	fd := &descriptorpb.FileDescriptorProto{
		Name:       proto.String(strings.ReplaceAll(pkg, ".", "/") + "/cross.proto"),
		Package:    proto.String(pkg),
		Syntax:     proto.String("proto3"),
		Dependency: []string{first.GetName()},
	}
	msg := &descriptorpb.DescriptorProto{Name: proto.String("Cross")}
	n := int32(1)
	for _, m := range first.MessageType {
		if rapid.Bool().Draw(t, "crossmsg") {
			msg.Field = append(msg.Field, &descriptorpb.FieldDescriptorProto{
				Name: proto.String(fmt.Sprintf("m_%d", n)), JsonName: proto.String(fmt.Sprintf("m%d", n)), Number: proto.Int32(n),
				Type: descriptorpb.FieldDescriptorProto_TYPE_MESSAGE.Enum(), TypeName: proto.String("." + first.GetPackage() + "." + m.GetName()),
				Label: descriptorpb.FieldDescriptorProto_LABEL_OPTIONAL.Enum(),
			})
			n++
		}
	}
	for _, e := range first.EnumType {
		label := descriptorpb.FieldDescriptorProto_LABEL_OPTIONAL
		if rapid.Bool().Draw(t, "crossrep") {
			label = descriptorpb.FieldDescriptorProto_LABEL_REPEATED
		}
		msg.Field = append(msg.Field, &descriptorpb.FieldDescriptorProto{
			Name: proto.String(fmt.Sprintf("e_%d", n)), JsonName: proto.String(fmt.Sprintf("e%d", n)), Number: proto.Int32(n),
			Type: descriptorpb.FieldDescriptorProto_TYPE_ENUM.Enum(), TypeName: proto.String("." + first.GetPackage() + "." + e.GetName()),
			Label: label.Enum(),
		})
		n++
	}
	// a self-recursive member
	msg.Field = append(msg.Field, &descriptorpb.FieldDescriptorProto{
		Name: proto.String("again"), JsonName: proto.String("again"), Number: proto.Int32(n),
		Type: descriptorpb.FieldDescriptorProto_TYPE_MESSAGE.Enum(), TypeName: proto.String("." + pkg + ".Cross"),
		Label: descriptorpb.FieldDescriptorProto_LABEL_OPTIONAL.Enum(),
	})
	fd.MessageType = []*descriptorpb.DescriptorProto{msg}
	return fd
}
