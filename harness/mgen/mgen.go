// Package mgen is G3: messages for a descriptor, inside the wire domain the codec
// documents (valid UTF-8, finite floats, defined enum numbers, years 0001-9999,
// well-formed decimals).
package mgen

import (
	"fmt"
	"math"
	"strings"
	"time"

	"github.com/pentops/j5/gen/j5/ext/v1/ext_j5pb"
	"github.com/pentops/j5/internal/bcl/internal/verif/j5ref"
	"google.golang.org/protobuf/proto"
	"google.golang.org/protobuf/reflect/protoreflect"
	"google.golang.org/protobuf/types/dynamicpb"
	"pgregory.net/rapid"
)

type Ctx struct {
	// AnyTargets are message types an Any field may hold.
	AnyTargets []protoreflect.MessageDescriptor
	Enc        *j5ref.Encoder
	MaxDepth   int
	// Extended adds values outside the round-trip domain (non-finite floats,
	// out-of-range dates): C08 well-formedness only.
	Extended bool
	Classes  map[string]bool
}

func (c *Ctx) cls(s string) {
	if c.Classes != nil {
		c.Classes[s] = true
	}
}

var strRunes = []rune{'a', 'b', 'Z', '0', ' ', '"', '\\', '/', '\n', '\t', '\r', '\b', '\f', 0x01, 0x1f, 0x7f, 'é', 'ß', '名', '😀', '𐍈', 0x2028, 0x2029, '<', '>', '&', '\'', 0xFFFD, 0x10FFFF, '!', '{', '}', '[', ']', ':', ','}

func genString(t *rapid.T, label string) string {
	switch rapid.IntRange(0, 9).Draw(t, label+"kind") {
	case 0:
		return ""
	case 1:
		return rapid.String().Draw(t, label+"any")
	case 2:
		return rapid.SampledFrom([]string{"!type", "value", "null", "true", "0", "a.b", "a b", "ümlaut"}).Draw(t, label+"special")
	case 3:
		// strings shaped like the spelling of some other type: anything that
		// normalises or coerces by shape changes them, and a string field (or a
		// key field of any format) must keep them byte for byte
		return rapid.SampledFrom(shapedStrings).Draw(t, label+"shaped")
	default:
		return string(rapid.SliceOfN(rapid.SampledFrom(strRunes), 0, 10).Draw(t, label))
	}
}

var shapedStrings = []string{
	"6ba7b810-9dad-11d1-80b4-00c04fd430c8", "6BA7B810-9DAD-11D1-80B4-00C04FD430C8", "6ba7b8109dad11d180b400c04fd430c8",
	"urn:uuid:6ba7b810-9dad-11d1-80b4-00c04fd430c8", "{6ba7b810-9dad-11d1-80b4-00c04fd430c8}",
	"0000000000000000000001", "7N42dgm5tFLK9N8MT7fHC7", "ffffffffffffffffffffffffffffffff",
	"2020-01-01", "2020-1-1", "2020-01-01T00:00:00+01:00", "2020-01-01T00:00:00.000Z", "0001-01-01",
	"007", "1e3", "+1", " 1", "1 ", "-0", "0x10", "1_000", "NaN", "Infinity", "1.50", ".5",
	"AQID", "AQ==", "AQ", "TRUE", "False", "yes",
	" x ", "\tx", "x\n", "\ufffd", "a\ufffdb", "\ufeff", "\x00", "a\x00b",
}

var int32Pool = []int64{0, 1, -1, 2, 7, math.MaxInt32, math.MinInt32, math.MaxInt32 - 1, math.MinInt32 + 1, 65536, -65536}
var int64Pool = []int64{0, 1, -1, math.MaxInt64, math.MinInt64, math.MaxInt32 + 1, math.MinInt32 - 1, 1 << 53, 1<<53 + 1, 1<<53 - 1, -(1 << 53) - 1, math.MaxInt64 - 1}
var uint32Pool = []uint64{0, 1, 2, math.MaxUint32, math.MaxUint32 - 1, math.MaxInt32, math.MaxInt32 + 1}
var uint64Pool = []uint64{0, 1, math.MaxUint64, math.MaxUint64 - 1, 1 << 63, 1<<63 - 1, 1<<63 + 1, 1 << 53, 1<<53 + 1, math.MaxUint32 + 1}
var f64Pool = []float64{0, math.Copysign(0, -1), 1, -1, 0.1, 1.5, -2.25, 1e21, 1e-7, 123456789.125, math.MaxFloat64, -math.MaxFloat64, math.SmallestNonzeroFloat64, math.MaxFloat32, 1e100, 5e-324, 1 << 53, 1<<53 + 2, 3.141592653589793}
var f32Pool = []float32{0, float32(math.Copysign(0, -1)), 1, -1, 0.1, 1.5, 16777216, 16777217, math.MaxFloat32, -math.MaxFloat32, math.SmallestNonzeroFloat32, 1e-7, 3.1415927}

func (c *Ctx) scalar(t *rapid.T, f protoreflect.FieldDescriptor, label string) protoreflect.Value {
	switch f.Kind() {
	case protoreflect.StringKind:
		return protoreflect.ValueOfString(genString(t, label))
	case protoreflect.BoolKind:
		return protoreflect.ValueOfBool(rapid.Bool().Draw(t, label))
	case protoreflect.Int32Kind, protoreflect.Sint32Kind, protoreflect.Sfixed32Kind:
		if rapid.Bool().Draw(t, label+"pool") {
			return protoreflect.ValueOfInt32(int32(rapid.SampledFrom(int32Pool).Draw(t, label)))
		}
		return protoreflect.ValueOfInt32(rapid.Int32().Draw(t, label))
	case protoreflect.Int64Kind, protoreflect.Sint64Kind, protoreflect.Sfixed64Kind:
		if rapid.Bool().Draw(t, label+"pool") {
			c.cls("int64-boundary")
			return protoreflect.ValueOfInt64(rapid.SampledFrom(int64Pool).Draw(t, label))
		}
		return protoreflect.ValueOfInt64(rapid.Int64().Draw(t, label))
	case protoreflect.Uint32Kind, protoreflect.Fixed32Kind:
		if rapid.Bool().Draw(t, label+"pool") {
			return protoreflect.ValueOfUint32(uint32(rapid.SampledFrom(uint32Pool).Draw(t, label)))
		}
		return protoreflect.ValueOfUint32(rapid.Uint32().Draw(t, label))
	case protoreflect.Uint64Kind, protoreflect.Fixed64Kind:
		if rapid.Bool().Draw(t, label+"pool") {
			c.cls("uint64-boundary")
			return protoreflect.ValueOfUint64(rapid.SampledFrom(uint64Pool).Draw(t, label))
		}
		return protoreflect.ValueOfUint64(rapid.Uint64().Draw(t, label))
	case protoreflect.FloatKind:
		if c.Extended && rapid.IntRange(0, 3).Draw(t, label+"nonfinite") == 0 {
			c.cls("non-finite-float")
			return protoreflect.ValueOfFloat32(rapid.SampledFrom([]float32{float32(math.NaN()), float32(math.Inf(1)), float32(math.Inf(-1))}).Draw(t, label))
		}
		if rapid.Bool().Draw(t, label+"pool") {
			return protoreflect.ValueOfFloat32(rapid.SampledFrom(f32Pool).Draw(t, label))
		}
		v := math.Float32frombits(rapid.Uint32().Draw(t, label))
		if math.IsNaN(float64(v)) || math.IsInf(float64(v), 0) {
			v = 1.25
		}
		return protoreflect.ValueOfFloat32(v)
	case protoreflect.DoubleKind:
		if c.Extended && rapid.IntRange(0, 3).Draw(t, label+"nonfinite") == 0 {
			c.cls("non-finite-float")
			return protoreflect.ValueOfFloat64(rapid.SampledFrom([]float64{math.NaN(), math.Inf(1), math.Inf(-1)}).Draw(t, label))
		}
		if rapid.Bool().Draw(t, label+"pool") {
			return protoreflect.ValueOfFloat64(rapid.SampledFrom(f64Pool).Draw(t, label))
		}
		v := math.Float64frombits(rapid.Uint64().Draw(t, label))
		if math.IsNaN(v) || math.IsInf(v, 0) {
			v = 2.5
		}
		return protoreflect.ValueOfFloat64(v)
	case protoreflect.BytesKind:
		return protoreflect.ValueOfBytes(rapid.SliceOfN(rapid.Byte(), 0, 40).Draw(t, label))
	case protoreflect.EnumKind:
		vals := f.Enum().Values()
		nums := make([]protoreflect.EnumNumber, 0, vals.Len())
		noDefault := enumNoDefault(f)
		for i := 0; i < vals.Len(); i++ {
			if noDefault && vals.Get(i).Number() == 0 && vals.Len() > 1 {
				continue
			}
			nums = append(nums, vals.Get(i).Number())
		}
		return protoreflect.ValueOfEnum(rapid.SampledFrom(nums).Draw(t, label))
	}
	panic(fmt.Sprintf("mgen: unsupported scalar kind %s", f.Kind()))
}

var minTS = time.Date(1, 1, 1, 0, 0, 0, 0, time.UTC).Unix()
var maxTS = time.Date(9999, 12, 31, 23, 59, 59, 0, time.UTC).Unix()

func setField(m protoreflect.Message, name string, v protoreflect.Value) {
	m.Set(m.Descriptor().Fields().ByName(protoreflect.Name(name)), v)
}

var decimalPool = []string{"0", "1", "-1", "0.1", "-0.5", "1.10", "100", "0.000", "123456789012345678901234567890.123456789", ".5", "-.25", "007", "1.0", "99999999999999999999", "0.30000000000000004"}

func (c *Ctx) special(t *rapid.T, md protoreflect.MessageDescriptor, depth int, label string) (protoreflect.Message, bool) {
	switch md.FullName() {
	case j5ref.TimestampName:
		m := dynamicpb.NewMessage(md)
		var secs int64
		switch rapid.IntRange(0, 5).Draw(t, label+"tskind") {
		case 0:
			secs = rapid.SampledFrom([]int64{minTS, maxTS, 0, -1, 1, 951782400, -62135596800 + 86400*365*998}).Draw(t, label+"tsedge")
			c.cls("timestamp-boundary")
		default:
			secs = rapid.Int64Range(minTS, maxTS).Draw(t, label+"secs")
		}
		nanos := rapid.SampledFrom([]int64{0, 0, 1, 999999999, 500000000, 120000000, 123456789, 1000}).Draw(t, label+"nanos")
		if c.Extended && rapid.IntRange(0, 4).Draw(t, label+"tsext") == 0 {
			secs = rapid.SampledFrom([]int64{minTS - 1, maxTS + 1, math.MaxInt64 / 2, math.MinInt64 / 2, 253402300800 * 10}).Draw(t, label+"tsout")
			c.cls("out-of-range-timestamp")
		}
		setField(m, "seconds", protoreflect.ValueOfInt64(secs))
		setField(m, "nanos", protoreflect.ValueOfInt32(int32(nanos)))
		return m, true
	case j5ref.DateName:
		m := dynamicpb.NewMessage(md)
		year := rapid.Int32Range(1, 9999).Draw(t, label+"year")
		if rapid.IntRange(0, 3).Draw(t, label+"yearedge") == 0 {
			year = rapid.SampledFrom([]int32{1, 9, 99, 999, 1000, 1999, 2000, 2024, 9999}).Draw(t, label+"yearpool")
		}
		if year < 1000 {
			c.cls("date-year<1000")
		}
		month := rapid.Int32Range(1, 12).Draw(t, label+"month")
		// the whole proleptic Gregorian month, its last day a third of the time; centuries and
		// leap centuries are in the year pool so that 29 February of both kinds is drawn
		if rapid.IntRange(0, 5).Draw(t, label+"yearcentury") == 0 {
			year = rapid.SampledFrom([]int32{4, 100, 400, 1600, 1900, 2000, 2100, 2400, 8000, 9996}).Draw(t, label+"yearcenturypool")
		}
		if rapid.IntRange(0, 3).Draw(t, label+"feb") == 0 {
			month = 2
		}
		last := int32(31)
		switch month {
		case 4, 6, 9, 11:
			last = 30
		case 2:
			last = 28
			if year%4 == 0 && (year%100 != 0 || year%400 == 0) {
				last = 29
			}
		}
		day := rapid.Int32Range(1, last).Draw(t, label+"day")
		if rapid.IntRange(0, 2).Draw(t, label+"daylast") == 0 {
			day = last
		}
		if day > 28 {
			c.cls("date-day>28")
		}
		if month == 2 && day == 29 && year%100 == 0 {
			c.cls("date-leap-century")
		}
		if c.Extended && rapid.IntRange(0, 3).Draw(t, label+"dateext") == 0 {
			year = rapid.SampledFrom([]int32{0, -1, 10000, 123456, math.MinInt32}).Draw(t, label+"yearout")
			c.cls("out-of-range-date")
		}
		setField(m, "year", protoreflect.ValueOfInt32(year))
		setField(m, "month", protoreflect.ValueOfInt32(month))
		setField(m, "day", protoreflect.ValueOfInt32(day))
		return m, true
	case j5ref.DecimalName:
		m := dynamicpb.NewMessage(md)
		var s string
		if rapid.Bool().Draw(t, label+"decpool") {
			s = rapid.SampledFrom(decimalPool).Draw(t, label+"dec")
		} else {
			s = rapid.StringMatching(`-?[0-9]{1,12}(\.[0-9]{1,10})?`).Draw(t, label+"decre")
		}
		setField(m, "value", protoreflect.ValueOfString(s))
		return m, true
	case j5ref.J5AnyName, j5ref.PbAnyName:
		m := dynamicpb.NewMessage(md)
		if len(c.AnyTargets) == 0 || depth >= c.MaxDepth {
			return nil, false
		}
		if c.Extended && rapid.IntRange(0, 5).Draw(t, label+"anyunresolvable") == 0 {
			// outside the domain (well-formedness only): a payload of a type nobody
			// registered, with bytes, without, or nothing at all. The encoder must
			// refuse it or still emit valid JSON.
			name := rapid.SampledFrom([]string{"no.such.v1.Type", "", "type.googleapis.com/", "x"}).Draw(t, label+"anyunknown")
			payload := rapid.SampledFrom([][]byte{nil, {}, {0x0a, 0x01, 0x61}, {0xff}}).Draw(t, label+"anyunknownbytes")
			if md.FullName() == j5ref.PbAnyName {
				if name != "" {
					setField(m, "type_url", protoreflect.ValueOfString(j5ref.AnyURLPrefix+name))
				}
				if payload != nil {
					setField(m, "value", protoreflect.ValueOfBytes(payload))
				}
			} else {
				if name != "" {
					setField(m, "type_name", protoreflect.ValueOfString(name))
				}
				if payload != nil {
					setField(m, "proto", protoreflect.ValueOfBytes(payload))
				}
			}
			c.cls("any-of-unresolvable-type")
			return m, true
		}
		tgt := rapid.SampledFrom(c.AnyTargets).Draw(t, label+"anytarget")
		// payloads stay inside the round-trip domain: the pre-encoded j5_json is
		// copied through verbatim by the encoder, so it must itself be valid
		ic := *c
		ic.Extended = false
		inner := ic.Message(t, tgt, depth+2, label+"any.")
		pb, err := proto.MarshalOptions{Deterministic: true}.Marshal(inner.Interface())
		if err != nil {
			panic(err)
		}
		if md.FullName() == j5ref.PbAnyName {
			setField(m, "type_url", protoreflect.ValueOfString(j5ref.AnyURLPrefix+string(tgt.FullName())))
			setField(m, "value", protoreflect.ValueOfBytes(pb))
			c.cls("pb-any")
			return m, true
		}
		setField(m, "type_name", protoreflect.ValueOfString(string(tgt.FullName())))
		form := rapid.IntRange(0, 2).Draw(t, label+"anyform")
		if form != 1 {
			doc, err := c.Enc.Encode(inner)
			if err != nil {
				// payload type has no J5 form (arbitrary mode): proto payload only
				form = 1
			} else {
				setField(m, "j5_json", protoreflect.ValueOfBytes(doc.Bytes()))
			}
		}
		if form != 0 {
			setField(m, "proto", protoreflect.ValueOfBytes(pb))
		}
		c.cls(fmt.Sprintf("j5-any-form%d", form))
		return m, true
	}
	return nil, false
}

func (c *Ctx) single(t *rapid.T, f protoreflect.FieldDescriptor, depth int, label string) (protoreflect.Value, bool) {
	if f.Kind() != protoreflect.MessageKind {
		return c.scalar(t, f, label), true
	}
	if m, ok := c.special(t, f.Message(), depth, label); ok {
		return protoreflect.ValueOfMessage(m), true
	}
	if j5ref.IsAny(f.Message()) {
		return protoreflect.Value{}, false
	}
	if depth >= c.MaxDepth {
		// at the depth limit messages are left empty (still present)
		if rapid.Bool().Draw(t, label+"emptyleaf") {
			return protoreflect.ValueOfMessage(dynamicpb.NewMessage(f.Message())), true
		}
		return protoreflect.Value{}, false
	}
	return protoreflect.ValueOfMessage(c.Message(t, f.Message(), depth+1, label+".")), true
}

// Message draws a message of type md.
func (c *Ctx) Message(t *rapid.T, md protoreflect.MessageDescriptor, depth int, label string) protoreflect.Message {
	m := dynamicpb.NewMessage(md)
	// real oneofs: choose at most one member each
	chosen := map[protoreflect.FullName]protoreflect.FieldDescriptor{}
	for i := 0; i < md.Oneofs().Len(); i++ {
		oo := md.Oneofs().Get(i)
		if oo.IsSynthetic() {
			continue
		}
		k := rapid.IntRange(-1, oo.Fields().Len()-1).Draw(t, fmt.Sprintf("%soneof%d", label, i))
		if depth == 0 && k < 0 && rapid.Bool().Draw(t, label+"forceoneof") {
			k = 0
		}
		if k >= 0 {
			chosen[oo.FullName()] = oo.Fields().Get(k)
			if j5ref.IsExposed(oo) {
				c.cls("exposed-oneof-set")
			} else if j5ref.IsWrapper(md) {
				c.cls("wrapper-oneof-set")
			}
		}
	}
	for i := 0; i < md.Fields().Len(); i++ {
		f := md.Fields().Get(i)
		fl := fmt.Sprintf("%s%s.", label, f.Name())
		if oo := f.ContainingOneof(); oo != nil && !oo.IsSynthetic() {
			if chosen[oo.FullName()] != f {
				continue
			}
			if v, ok := c.single(t, f, depth, fl); ok {
				m.Set(f, v)
			}
			continue
		}
		switch {
		case f.IsList():
			n := rapid.IntRange(0, 3).Draw(t, fl+"n")
			if depth >= c.MaxDepth && f.Kind() == protoreflect.MessageKind && !j5ref.IsScalarMessage(f.Message()) {
				n = 0
			}
			l := m.Mutable(f).List()
			for k := 0; k < n; k++ {
				if v, ok := c.single(t, f, depth, fmt.Sprintf("%s%d.", fl, k)); ok {
					l.Append(v)
					if f.Kind() == protoreflect.MessageKind {
						c.cls("array-of-messages")
					}
				}
			}
		case f.IsMap():
			n := rapid.IntRange(0, 3).Draw(t, fl+"n")
			vf := f.MapValue()
			if depth >= c.MaxDepth && vf.Kind() == protoreflect.MessageKind && !j5ref.IsScalarMessage(vf.Message()) {
				n = 0
			}
			mp := m.Mutable(f).Map()
			for k := 0; k < n; k++ {
				var key protoreflect.MapKey
				switch f.MapKey().Kind() {
				case protoreflect.StringKind:
					key = protoreflect.ValueOfString(genString(t, fmt.Sprintf("%skey%d", fl, k))).MapKey()
				case protoreflect.BoolKind:
					key = protoreflect.ValueOfBool(k%2 == 0).MapKey()
				case protoreflect.Int32Kind:
					key = protoreflect.ValueOfInt32(int32(k)).MapKey()
				case protoreflect.Uint64Kind:
					key = protoreflect.ValueOfUint64(uint64(k)).MapKey()
				default:
					continue
				}
				if v, ok := c.single(t, vf, depth, fmt.Sprintf("%sval%d.", fl, k)); ok {
					mp.Set(key, v)
					if vf.Kind() == protoreflect.MessageKind {
						c.cls("map-of-messages")
					}
				}
			}
		default:
			p := 2
			if depth == 0 {
				p = 4 // populate the root densely
			}
			if rapid.IntRange(0, p).Draw(t, fl+"set") == 0 {
				continue
			}
			v, ok := c.single(t, f, depth, fl)
			if !ok {
				continue
			}
			if f.HasOptionalKeyword() && f.Kind() != protoreflect.MessageKind && !enumNoDefault(f) && rapid.IntRange(0, 3).Draw(t, fl+"zero") == 0 {
				v = f.Default()
				if f.Kind() == protoreflect.BytesKind {
					v = protoreflect.ValueOfBytes(nil)
				}
				c.cls("optional-zero")
			}
			m.Set(f, v)
			if f.Kind() == protoreflect.MessageKind && !j5ref.IsScalarMessage(f.Message()) && !j5ref.IsAny(f.Message()) {
				c.cls("nested-object")
			}
		}
	}
	return m
}

// HasHardText reports whether any string in the message needs JSON escaping or is
// outside the BMP (used by the non-triviality rule).
func HasHardText(doc string) bool {
	return strings.ContainsAny(doc, "\\") || strings.ContainsRune(doc, '😀') || strings.ContainsRune(doc, '𐍈')
}

// enumNoDefault: the enum declares its zero value invalid ((j5.ext.v1.enum).no_default).
func enumNoDefault(f protoreflect.FieldDescriptor) bool {
	if f.Kind() != protoreflect.EnumKind || f.Enum().Options() == nil {
		return false
	}
	eo, _ := proto.GetExtension(f.Enum().Options(), ext_j5pb.E_Enum).(*ext_j5pb.EnumOptions)
	return eo != nil && eo.NoDefault
}
