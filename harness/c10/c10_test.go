package c10

import (
	"encoding/base64"
	"encoding/json"
	"fmt"
	"google.golang.org/protobuf/types/descriptorpb"
	"net/url"
	"os"
	"strconv"
	"strings"
	"sync"
	"sync/atomic"
	"testing"
	"time"

	"github.com/pentops/j5/internal/bcl/internal/verif/codecx"
	"github.com/pentops/j5/internal/bcl/internal/verif/j5ref"
	"github.com/pentops/j5/internal/bcl/internal/verif/jx"
	"github.com/pentops/j5/internal/bcl/internal/verif/pgen"
	"github.com/pentops/j5/internal/bcl/internal/verif/vf"
	"github.com/pentops/j5/internal/codec"
	"github.com/pentops/j5/lib/j5codec"
	"google.golang.org/protobuf/proto"
	"google.golang.org/protobuf/reflect/protoreflect"
	"google.golang.org/protobuf/types/dynamicpb"
	"pgregory.net/rapid"
)

const prop = "C10"

type op struct {
	Kind string `json:"kind"` // enc | dec | query
	Msg  int    `json:"msg"`
}

type conCase struct {
	Files   []string `json:"files_b64"`
	Roots   []string `json:"roots"`
	Msgs    []string `json:"msgs_b64"`
	Threads [][]op   `json:"threads"`
	Shared  string   `json:"shared"` // fresh | global
	Warm    []int    `json:"warm,omitempty"`
	Repeat  int      `json:"repeat,omitempty"`
}

func laneCase(raw json.RawMessage) ([]vf.Failure, error) {
	var c conCase
	if err := json.Unmarshal(raw, &c); err != nil {
		return nil, err
	}
	// a schedule-dependent failure may need several attempts: the replay runs the
	// scenario repeatedly (each time against a cold cache for `fresh`).
	n := c.Repeat
	if n == 0 {
		n = 25
	}
	for i := 0; i < n; i++ {
		fails, err := runCase(c)
		if err != nil || len(fails) > 0 {
			return fails, err
		}
		if c.Shared == "global" {
			break // the global cache is warm after the first run
		}
	}
	return nil, nil
}

var lanes = map[string]vf.LaneFunc{"fresh": laneCase, "global": laneCase}

func TestReplay(t *testing.T) {
	if !vf.RunReplayMode(t, prop, lanes) {
		t.Skip("no VERIF_REPLAY")
	}
}

func TestWitness(t *testing.T) { vf.Witnesses(t, prop, lanes) }

type result struct {
	doc string               // encoded document (enc)
	msg protoreflect.Message // decoded message (dec/query)
	err string
}

func doOp(cdc *codec.Codec, o op, md protoreflect.MessageDescriptor, msg protoreflect.Message, doc []byte, q url.Values) (res result) {
	defer func() {
		if r := recover(); r != nil {
			res.err = fmt.Sprintf("PANIC: %v", r)
		}
	}()
	switch o.Kind {
	case "enc":
		out, err := cdc.ProtoToJSON(proto.Clone(msg.Interface()).ProtoReflect())
		if err != nil {
			return result{err: "error"}
		}
		return result{doc: string(out)}
	case "dec":
		fresh := dynamicpb.NewMessage(md)
		if err := cdc.JSONToProto(doc, fresh); err != nil {
			return result{err: "error"}
		}
		return result{msg: fresh}
	default:
		fresh := dynamicpb.NewMessage(md)
		if err := cdc.QueryToProto(q, fresh); err != nil {
			return result{err: "error"}
		}
		return result{msg: fresh}
	}
}

func sameResult(q *j5ref.Equiv, kind string, want, got result) bool {
	if want.err != got.err {
		return false
	}
	if kind == "enc" && want.err == "" {
		a, e1 := jx.Parse([]byte(want.doc))
		b, e2 := jx.Parse([]byte(got.doc))
		if e1 != nil || e2 != nil {
			return want.doc == got.doc
		}
		return jx.Diff(a, b, "$") == ""
	}
	if want.msg == nil || got.msg == nil {
		return want.msg == nil && got.msg == nil
	}
	// Any payloads are re-marshalled by the decoder (map order is not fixed), so
	// messages are compared structurally, not by bytes
	cls, _ := q.Diff(want.msg, got.msg, "$")
	return cls == ""
}

func runCase(c conCase) ([]vf.Failure, error) {
	s, _, err := codecx.Case{Files: c.Files, Root: c.Roots[0], Msg: c.Msgs[0]}.Build()
	if err != nil {
		return nil, err
	}
	type prepared struct {
		md  protoreflect.MessageDescriptor
		msg protoreflect.Message
		doc []byte
		q   url.Values
	}
	private := func() *codec.Codec {
		if c.Shared == "global" {
			return codec.NewCodec()
		}
		return s.NewCodec()
	}()
	var shared *codec.Codec
	if c.Shared == "global" {
		shared = j5codec.Global
	} else {
		shared = s.NewCodec()
	}
	preps := make([]prepared, len(c.Msgs))
	for i := range c.Msgs {
		md := s.Find(c.Roots[i])
		if md == nil {
			return nil, fmt.Errorf("root %s missing", c.Roots[i])
		}
		m := dynamicpb.NewMessage(md)
		b, _ := base64.StdEncoding.DecodeString(c.Msgs[i])
		if err := (proto.UnmarshalOptions{Resolver: s.Types}).Unmarshal(b, m); err != nil {
			return nil, err
		}
		p := prepared{md: md, msg: m, q: url.Values{}}
		if doc, err := private.ProtoToJSON(m); err == nil {
			p.doc = doc
		} else {
			p.doc = []byte(`{}`)
		}
		// a query for the first top-level string/int field
		for k := 0; k < md.Fields().Len(); k++ {
			f := md.Fields().Get(k)
			if f.ContainingOneof() != nil || f.IsList() || f.IsMap() {
				continue
			}
			switch f.Kind() {
			case protoreflect.StringKind:
				p.q.Set(f.JSONName(), "q")
			case protoreflect.Int32Kind, protoreflect.Int64Kind, protoreflect.Uint32Kind:
				p.q.Set(f.JSONName(), "7")
			}
			if len(p.q) > 0 {
				break
			}
		}
		// and a dotted key into the first singular nested message that has such a field
	nested:
		for k := 0; k < md.Fields().Len(); k++ {
			f := md.Fields().Get(k)
			if f.ContainingOneof() != nil || f.IsList() || f.IsMap() || f.Message() == nil {
				continue
			}
			for n := 0; n < f.Message().Fields().Len(); n++ {
				g := f.Message().Fields().Get(n)
				if g.ContainingOneof() != nil || g.IsList() || g.IsMap() {
					continue
				}
				switch g.Kind() {
				case protoreflect.StringKind:
					p.q.Set(f.JSONName()+"."+g.JSONName(), "q")
					break nested
				case protoreflect.Int32Kind, protoreflect.Int64Kind, protoreflect.Uint32Kind:
					p.q.Set(f.JSONName()+"."+g.JSONName(), "7")
					break nested
				}
			}
		}
		preps[i] = p
	}
	for _, i := range c.Warm {
		p := preps[i]
		doOp(shared, op{"enc", i}, p.md, p.msg, p.doc, p.q)
	}
	got := make([][]result, len(c.Threads))
	start := make(chan struct{})
	var wg sync.WaitGroup
	for ti, th := range c.Threads {
		got[ti] = make([]result, len(th))
		wg.Add(1)
		go func() {
			defer wg.Done()
			<-start
			for oi, o := range th {
				p := preps[o.Msg]
				got[ti][oi] = doOp(shared, o, p.md, p.msg, p.doc, p.q)
			}
		}()
	}
	close(start)
	done := make(chan struct{})
	go func() { wg.Wait(); close(done) }()
	select {
	case <-done:
	case <-time.After(60 * time.Second):
		return []vf.Failure{vf.Failf("deadlock|"+c.Shared, "goroutines did not finish within 60 s")}, nil
	}
	// Computed after the concurrent phase, so that what the concurrent operations meet in
	// process-wide state (package-level caches keyed by names or query paths) is as cold as
	// the process allows - in the fresh process of the confirming re-run, entirely cold.
	// the model: every distinct operation "run alone" - on a codec of its own that
	// has seen nothing else (a type whose schema cannot be built fails there; on a
	// shared codec it must fail the same way whatever was used before it)
	want := map[op]result{}
	for _, th := range c.Threads {
		for _, o := range th {
			if _, ok := want[o]; !ok {
				p := preps[o.Msg]
				alone := private
				if c.Shared != "global" {
					alone = s.NewCodec()
				}
				want[o] = doOp(alone, o, p.md, p.msg, p.doc, p.q)
			}
		}
	}
	var fails []vf.Failure
	q := &j5ref.Equiv{Types: s.Resolver()}
	for ti, th := range c.Threads {
		for oi, o := range th {
			g := got[ti][oi]
			if len(g.err) > 6 && g.err[:6] == "PANIC:" {
				fails = append(fails, vf.Failf("panic|"+o.Kind, "goroutine %d op %d (%s msg %d): %s", ti, oi, o.Kind, o.Msg, g.err))
				continue
			}
			if !sameResult(q, o.Kind, want[o], g) {
				fails = append(fails, vf.Failf("result|"+o.Kind, "goroutine %d op %d (%s %s): concurrent result differs from sequential result\nsequential: %+v\nconcurrent: %+v", ti, oi, o.Kind, c.Roots[o.Msg], clip(want[o]), clip(g)))
			}
		}
	}
	return fails, nil
}

func clip(r result) string {
	s := fmt.Sprintf("doc=%q msg=%v err=%q", r.doc, r.msg, r.err)
	if len(s) > 400 {
		s = s[:400] + "…"
	}
	return s
}

var pkgCounter atomic.Int64

func run(t *testing.T, lane string) {
	r := vf.Start(t, prop, lane)
	// a case carries everything its verdict may depend on; what an earlier case
	// left behind in the process (pools, caches) is not replayable
	r.ConfirmFresh()
	pid := os.Getpid()
	rapid.Check(t, func(t *rapid.T) {
		// fresh full names per case so every cache, including the package-level
		// default codec, is cold for them
		pkg := "c10p" + strconv.Itoa(pid) + "n" + strconv.FormatInt(pkgCounter.Add(1), 10) + ".v1"
		res := pgen.Draw(t, pgen.Supported, pkg)
		// a type whose schema cannot be built (a map with integer keys), reachable
		// from the others where they refer to it: every operation on it is an error,
		// before and after anything else was used
		unbuildable := false
		if len(res.File.MessageType) >= 2 && rapid.IntRange(0, 3).Draw(t, "unbuildable") == 0 {
			victim := res.File.MessageType[rapid.IntRange(1, len(res.File.MessageType)-1).Draw(t, "unbuildablemsg")]
			var maxNum int32
			for _, f := range victim.Field {
				if f.GetNumber() > maxNum {
					maxNum = f.GetNumber()
				}
			}
			entry := &descriptorpb.DescriptorProto{
				Name: proto.String("ByNumberEntry"),
				Field: []*descriptorpb.FieldDescriptorProto{
					{Name: proto.String("key"), JsonName: proto.String("key"), Number: proto.Int32(1), Type: descriptorpb.FieldDescriptorProto_TYPE_INT32.Enum(), Label: descriptorpb.FieldDescriptorProto_LABEL_OPTIONAL.Enum()},
					{Name: proto.String("value"), JsonName: proto.String("value"), Number: proto.Int32(2), Type: descriptorpb.FieldDescriptorProto_TYPE_STRING.Enum(), Label: descriptorpb.FieldDescriptorProto_LABEL_OPTIONAL.Enum()},
				},
				Options: &descriptorpb.MessageOptions{MapEntry: proto.Bool(true)},
			}
			victim.NestedType = append(victim.NestedType, entry)
			victim.Field = append(victim.Field, &descriptorpb.FieldDescriptorProto{
				Name: proto.String("by_number"), JsonName: proto.String("byNumber"), Number: proto.Int32(maxNum + 1),
				Type: descriptorpb.FieldDescriptorProto_TYPE_MESSAGE.Enum(), TypeName: proto.String("." + pkg + "." + victim.GetName() + ".ByNumberEntry"),
				Label: descriptorpb.FieldDescriptorProto_LABEL_REPEATED.Enum(),
			})
			unbuildable = true
		}
		s, err := codecx.NewSchema(res.File)
		if err != nil {
			t.Fatalf("generator: %v", err)
		}
		// types spread over three packages: two files, each in a package of its own,
		// whose message refers to the messages of the first file
		var crossRoots []protoreflect.MessageDescriptor
		if rapid.Bool().Draw(t, "crosspackages") {
			ca := pgen.CrossFile(t, res.File, strings.TrimSuffix(pkg, ".v1")+"a.v1")
			cb := pgen.CrossFile(t, res.File, strings.TrimSuffix(pkg, ".v1")+"b.v1")
			s2, err := codecx.NewSchema(res.File, ca, cb)
			if err != nil {
				t.Fatalf("generator: cross files do not link: %v", err)
			}
			s = s2
			for _, md := range s.Msgs {
				if md.Name() == "Cross" {
					crossRoots = append(crossRoots, md)
				}
			}
		}
		nm := rapid.IntRange(1, 4).Draw(t, "nmsgs")
		if len(crossRoots) == 2 && nm < 2 {
			nm = 2
		}
		c := conCase{Shared: lane, Repeat: 1}
		var first protoreflect.Message
		refused := false
		for i := 0; i < nm; i++ {
			md := rapid.SampledFrom(s.Msgs).Draw(t, "root")
			if i < len(crossRoots) {
				md = crossRoots[i] // messages 0 and 1: one from each of the two packages
			}
			// a quarter of the messages hold values the encoder refuses (NaN, dates
			// out of range): an operation that fails next to ones that succeed
			extended := rapid.IntRange(0, 3).Draw(t, "extended") == 0
			msg := s.MsgCtx(extended).Message(t, md, 0, "m.")
			if extended {
				refused = true
			}
			if first == nil {
				first = msg
			}
			cc := s.Case(msg, "raw")
			c.Files = cc.Files
			c.Roots = append(c.Roots, cc.Root)
			c.Msgs = append(c.Msgs, cc.Msg)
		}
		nt := rapid.IntRange(2, 8).Draw(t, "threads")
		sameFirst := rapid.Bool().Draw(t, "samefirst")
		for ti := 0; ti < nt; ti++ {
			n := rapid.IntRange(1, 5).Draw(t, "nops")
			var th []op
			for k := 0; k < n; k++ {
				o := op{Kind: rapid.SampledFrom([]string{"enc", "enc", "dec", "dec", "query"}).Draw(t, "kind"), Msg: rapid.IntRange(0, nm-1).Draw(t, "msg")}
				if k == 0 && sameFirst {
					o.Msg = 0
				}
				if k == 0 && len(crossRoots) == 2 {
					o.Msg = ti % 2 // first uses of the two packages' types overlap
				}
				th = append(th, o)
			}
			c.Threads = append(c.Threads, th)
		}
		if rapid.IntRange(0, 3).Draw(t, "warm") == 0 {
			c.Warm = []int{rapid.IntRange(0, nm-1).Draw(t, "warmmsg")}
		}
		// non-trivial: >=2 goroutines start on the same never-seen type
		firsts := map[int]int{}
		for _, th := range c.Threads {
			firsts[th[0].Msg]++
		}
		nt2 := false
		for m, n := range firsts {
			warm := false
			for _, w := range c.Warm {
				if c.Roots[w] == c.Roots[m] {
					warm = true
				}
			}
			if n >= 2 && !warm {
				nt2 = true
			}
		}
		cls := []string{fmt.Sprintf("threads:%d", nt)}
		if len(c.Warm) > 0 {
			cls = append(cls, "warm-cache")
		}
		if nt2 {
			cls = append(cls, "cold-type-contended")
		}
		if res.Classes["recursive-ref"] {
			cls = append(cls, "recursive-types")
		}
		if refused {
			cls = append(cls, "message-outside-encoder-domain")
		}
		if len(crossRoots) == 2 {
			cls = append(cls, "types-in-three-packages")
		}
		if unbuildable {
			cls = append(cls, "unbuildable-type")
		}
		r.Eval(nt2, vf.Hash(c.Roots, c.Msgs, c.Threads), cls...)
		if nt2 && r.WantSample() {
			r.Sample(map[string]any{"roots": c.Roots, "threads": c.Threads, "shared": c.Shared, "warm": c.Warm})
		}
		jc := c
		jc.Repeat = 0
		r.Journal(jc)
		fails, err := runCase(c)
		if err != nil {
			t.Fatalf("harness: %v", err)
		}
		r.Judge(t, jc, fails)
	})
}

func TestFresh(t *testing.T)  { run(t, "fresh") }
func TestGlobal(t *testing.T) { run(t, "global") }
