package c06

import (
	"encoding/json"
	"fmt"
	"net/url"
	"os"
	"runtime"
	"strings"
	"testing"
	"time"
	"unicode/utf8"

	"github.com/pentops/j5/internal/bcl/internal/verif/codecx"
	"github.com/pentops/j5/internal/bcl/internal/verif/fixschema"
	"github.com/pentops/j5/internal/bcl/internal/verif/jx"
	"github.com/pentops/j5/internal/bcl/internal/verif/pgen"
	"github.com/pentops/j5/internal/bcl/internal/verif/vf"
	"google.golang.org/protobuf/types/dynamicpb"
	"pgregory.net/rapid"
)

const prop = "C06"

// docCase: a target type (schema files + root) and an input, either a JSON
// document or url.Values.
type docCase struct {
	Files []string            `json:"files_b64,omitempty"` // empty: the fixed schema
	Root  string              `json:"root"`
	Doc   *string             `json:"doc,omitempty"`
	DocQ  string              `json:"doc_quoted,omitempty"` // %q rendering, for invalid UTF-8
	Query map[string][]string `json:"query,omitempty"`
	// Nest describes a deep-nesting document compactly (open x n + mid + close x n),
	// so that a multi-megabyte input is replayable without being stored
	Nest *nestDoc `json:"nest,omitempty"`
}

type nestDoc struct {
	Open  string `json:"open"`
	Mid   string `json:"mid"`
	Close string `json:"close"`
	N     int    `json:"n"`
}

func (n *nestDoc) text() string {
	return strings.Repeat(n.Open, n.N) + n.Mid + strings.Repeat(n.Close, n.N)
}

func (c docCase) schema() (*codecx.Schema, error) {
	if len(c.Files) == 0 {
		return fixed()
	}
	s, _, err := codecx.Case{Files: c.Files, Root: c.Root}.Build()
	return s, err
}

var fixedSchema *codecx.Schema

func fixed() (*codecx.Schema, error) {
	if fixedSchema == nil {
		s, err := fixschema.Schema()
		if err != nil {
			return nil, err
		}
		fixedSchema = s
	}
	return fixedSchema, nil
}

func laneDoc(raw json.RawMessage) ([]vf.Failure, error) {
	var c docCase
	if err := json.Unmarshal(raw, &c); err != nil {
		return nil, err
	}
	if c.Doc == nil && c.Nest != nil {
		s := c.Nest.text()
		c.Doc = &s
	}
	if c.Doc == nil && c.DocQ != "" {
		var s string
		if _, err := fmt.Sscanf(c.DocQ, "%q", &s); err != nil {
			return nil, err
		}
		c.Doc = &s
	}
	s, err := c.schema()
	if err != nil {
		return nil, err
	}
	return check(s, c), nil
}

// limit is the watchdog for one decode call. It is not a performance verdict:
// the decoder's error path is quadratic in the nesting depth (every level copies
// the error's path), which the property does not forbid; the deep lane therefore
// gets a limit an order of magnitude above what its largest input needs on a busy
// machine, so that only a call that does not come back at all is reported.
var limit = callLimit

const deepLimit = 150 * time.Second

func laneDeep(raw json.RawMessage) ([]vf.Failure, error) {
	limit = deepLimit
	return laneDoc(raw)
}

var lanes = map[string]vf.LaneFunc{"matrix": laneDoc, "mutate": laneDoc, "deep": laneDeep, "query": laneDoc, "fuzz": laneDoc}

func TestReplay(t *testing.T) {
	if !vf.RunReplayMode(t, prop, lanes) {
		t.Skip("no VERIF_REPLAY")
	}
}

func TestWitness(t *testing.T) { vf.Witnesses(t, prop, lanes) }

const callLimit = 20 * time.Second

func mkCase(s *codecx.Schema, root string, doc string) docCase {
	c := docCase{Root: root}
	if s != fixedSchema {
		c.Files = s.Case(dynamicpb.NewMessage(s.Msgs[0]), "").Files
	}
	if utf8.ValidString(doc) {
		c.Doc = &doc
	} else {
		c.DocQ = fmt.Sprintf("%q", doc)
	}
	return c
}

// check: the call returns (nil or error), does not panic, within the watchdog.
func check(s *codecx.Schema, c docCase) (fails []vf.Failure) {
	md := s.Find(c.Root)
	if md == nil {
		return []vf.Failure{vf.Failf("harness|root", "root %s not found", c.Root)}
	}
	cdc := s.NewCodec()
	if c.Query != nil {
		msg := dynamicpb.NewMessage(md)
		size := 0
		for k, vs := range c.Query {
			size += len(k)
			for _, v := range vs {
				size += len(v)
			}
		}
		var before, after runtime.MemStats
		runtime.ReadMemStats(&before)
		if f := vf.GuardTimed("QueryToProto", limit, func() { _ = cdc.QueryToProto(url.Values(c.Query), msg) }); f != nil {
			f.Detail += fmt.Sprintf("\nquery: %q", c.Query)
			fails = append(fails, *f)
			return fails
		}
		runtime.ReadMemStats(&after)
		// "bounded by the input size": work that a few bytes of key can scale at will
		// shows as memory long before it shows as a hang. The allowance is generous
		// (64 MB plus 64 kB per input byte; the unchanged tree stays under 1 MB here).
		if alloc := after.TotalAlloc - before.TotalAlloc; alloc > 64<<20+uint64(size)*(64<<10) {
			fails = append(fails, vf.Failf("alloc|QueryToProto", "QueryToProto allocated %d MB for %d bytes of query\nquery: %q", alloc>>20, size, c.Query))
		}
		return fails
	}
	doc := *c.Doc
	msg := dynamicpb.NewMessage(md)
	clipped := doc
	if len(clipped) > 400 {
		clipped = clipped[:200] + "…" + clipped[len(clipped)-100:]
	}
	var before, after runtime.MemStats
	runtime.ReadMemStats(&before)
	if f := vf.GuardTimed("JSONToProto", limit, func() { _ = cdc.JSONToProto([]byte(doc), msg) }); f != nil {
		f.Detail += "\ndocument: " + clipped
		fails = append(fails, *f)
		return fails
	}
	runtime.ReadMemStats(&after)
	// the same allowance as for queries (the deep lane's error path is quadratic in
	// depth on the unchanged tree, which 64 kB per byte covers with room to spare)
	if alloc := after.TotalAlloc - before.TotalAlloc; alloc > 64<<20+uint64(len(doc))*(64<<10) {
		fails = append(fails, vf.Failf("alloc|JSONToProto", "JSONToProto allocated %d MB for a document of %d bytes\ndocument: %s", alloc>>20, len(doc), clipped))
	}
	return fails
}

// ---------------------------------------------------------------------------
// lane 1: bounded-exhaustive matrix over the fixed schema

var shapes = []string{
	`null`, `true`, `0`, `-1`, `1e400`, `1.5`, `""`, `"x"`, `[]`, `[null]`, `[[]]`, `{}`, `{"a":null}`,
	`{"!type":"x"}`, `{"!type":null}`, `{"!type":"leaf"}`, `{"!type":"text","text":null}`,
	`{"leaf":{},"text":"x"}`, `{"!type":"fixed.v1.Leaf"}`, `{"value":{}}`, `{"!type":"fixed.v1.Leaf","value":null}`,
	`{"!type":"no.such.Type","value":{}}`, `"2020-13-45"`, `"--"`, `"99999999999999999999999999"`, `[1,"a",null,{}]`,
	`1e100000000`, `"1e100000000"`, `"-1e-100000000"`,
}

func TestMatrix(t *testing.T) {
	r := vf.Start(t, prop, "matrix")
	s, err := fixed()
	if err != nil {
		t.Fatal(err)
	}
	root := fixschema.Pkg + ".All"
	n := 0
	try := func(pos string, k fixschema.Kind, doc string) {
		n++
		c := mkCase(s, root, doc)
		r.Eval(true, vf.Hash(doc), "pos:"+pos, "kind:"+k.Name)
		if n%997 == 0 {
			r.Sample(c)
		}
		r.Journal(c)
		r.JudgeNoFatal(c, check(s, c))
	}
	for _, k := range fixschema.Kinds {
		for _, sh := range append(append([]string{}, shapes...), k.Valid) {
			try("plain", k, fmt.Sprintf(`{%q:%s}`, fixschema.Plain(k), sh))
			try("plain-dup", k, fmt.Sprintf(`{%q:%s,%q:%s}`, fixschema.Plain(k), k.Valid, fixschema.Plain(k), sh))
			try("optional", k, fmt.Sprintf(`{%q:%s}`, fixschema.Optional(k), sh))
			if !k.NoMulti {
				try("array-element", k, fmt.Sprintf(`{%q:[%s]}`, fixschema.Repeated(k), sh))
				try("array-element-2", k, fmt.Sprintf(`{%q:[%s,%s]}`, fixschema.Repeated(k), k.Valid, sh))
				try("array-itself", k, fmt.Sprintf(`{%q:%s}`, fixschema.Repeated(k), sh))
				try("map-value", k, fmt.Sprintf(`{%q:{"k":%s}}`, fixschema.Map(k), sh))
				try("map-value-dup", k, fmt.Sprintf(`{%q:{"k":%s,"k":%s}}`, fixschema.Map(k), k.Valid, sh))
				try("map-itself", k, fmt.Sprintf(`{%q:%s}`, fixschema.Map(k), sh))
			}
			try("oneof-arm", k, fmt.Sprintf(`{"w":{%q:%s}}`, fixschema.Arm(k), sh))
			try("oneof-arm-typed", k, fmt.Sprintf(`{"w":{"!type":%q,%q:%s}}`, fixschema.Arm(k), fixschema.Arm(k), sh))
			try("oneof-type-only", k, fmt.Sprintf(`{"w":{"!type":%q}}`, fixschema.Arm(k)))
			try("oneof-type-mismatch", k, fmt.Sprintf(`{"w":{"!type":"aString",%q:%s}}`, fixschema.Arm(k), sh))
			try("oneof-two-arms", k, fmt.Sprintf(`{"w":{%q:%s,"aString":"x"}}`, fixschema.Arm(k), sh))
			try("exposed-arm", k, fmt.Sprintf(`{"exp":{%q:%s}}`, fixschema.ExpArm(k), sh))
			try("exposed-type-only", k, fmt.Sprintf(`{"exp":{"!type":%q}}`, fixschema.ExpArm(k)))
			try("flattened", k, fmt.Sprintf(`{%q:%s}`, fixschema.Flat(k), sh))
			try("nested", k, fmt.Sprintf(`{"n":{%q:%s}}`, fixschema.Nested(k), sh))
		}
	}
	// component grids: a value assembled from numeric components is parsed piece by
	// piece, and each piece has its own boundaries (month 0 and 13, day 0 and 32,
	// hour 24, second 60, year 0 / 10000 / negative, short and long fields)
	grid := map[string][]string{}
	for _, y := range []string{"0000", "0001", "2020", "9999", "10000", "-001", "20", ""} {
		for _, m := range []string{"00", "0", "1", "01", "12", "13", "99", ""} {
			for _, d := range []string{"00", "0", "1", "28", "29", "30", "31", "32", "99", ""} {
				grid["date"] = append(grid["date"], y+"-"+m+"-"+d)
			}
		}
	}
	for _, date := range []string{"2020-01-01", "2020-00-10", "2020-13-01", "2020-02-30", "0000-01-01", "10000-01-01"} {
		for _, clock := range []string{"00:00:00", "24:00:00", "23:60:00", "23:59:60", "23:59:61", "-1:00:00", "1:2:3", "00:00", "00:00:00.", "00:00:00.0000000001"} {
			for _, zone := range []string{"Z", "z", "+00:00", "+24:00", "-00:60", "+0000", "", " Z"} {
				grid["timestamp"] = append(grid["timestamp"], date+"T"+clock+zone)
			}
		}
	}
	for _, k := range fixschema.Kinds {
		for _, v := range grid[k.Name] {
			sh := fmt.Sprintf("%q", v)
			try("grid:plain", k, fmt.Sprintf(`{%q:%s}`, fixschema.Plain(k), sh))
			try("grid:array-element", k, fmt.Sprintf(`{%q:[%s,%s]}`, fixschema.Repeated(k), k.Valid, sh))
			try("grid:map-value", k, fmt.Sprintf(`{%q:{"k":%s}}`, fixschema.Map(k), sh))
			try("grid:oneof-arm", k, fmt.Sprintf(`{"w":{%q:%s}}`, fixschema.Arm(k), sh))
			c := docCase{Root: root, Query: map[string][]string{fixschema.Plain(k): {v}}}
			r.Eval(true, vf.Hash("gridq", k.Name, v), "pos:grid:query", "kind:"+k.Name)
			r.JudgeNoFatal(c, check(s, c))
		}
	}
	// the containers themselves and the root
	for _, sh := range shapes {
		for _, key := range []string{"w", "n", "exp", "flat", "unknownKey", "!type", ""} {
			try("container:"+key, fixschema.Kinds[0], fmt.Sprintf(`{%q:%s}`, key, sh))
		}
		try("root", fixschema.Kinds[0], sh)
		for _, rootName := range []string{"Wrap", "Choice", "Rec", "RecChoice"} {
			c := mkCase(s, fixschema.Pkg+"."+rootName, sh)
			r.Eval(true, vf.Hash(rootName, sh), "pos:root-"+rootName)
			r.JudgeNoFatal(c, check(s, c))
		}
	}
	r.SetExhaustive()
	r.Note("%d kinds x positions x %d shapes", len(fixschema.Kinds), len(shapes)+1)
}

// ---------------------------------------------------------------------------
// lane 2: deep nesting and huge tokens on recursive types

func TestDeep(t *testing.T) {
	r := vf.Start(t, prop, "deep")
	s, err := fixed()
	if err != nil {
		t.Fatal(err)
	}
	type tmpl struct{ root, open, mid, close string }
	tmpls := []tmpl{
		{"Rec", `{"next":`, `{}`, `}`},
		{"Rec", `{"kids":[`, `{}`, `]}`},
		{"Rec", `{"choice":{"rec":`, `{}`, `}}`},
		{"RecChoice", `{"again":`, `{}`, `}`},
		{"RecChoice", `{"!type":"again","again":`, `{}`, `}`},
		{"All", `{"rString":[`, `"x"`, `]}`},
		{"All", `[`, `1`, `]`},
		{"All", `{"pJ5any":{"!type":"fixed.v1.Rec","value":`, `{}`, `}}`},
		{"All", `{"mObject":{"k":`, `{}`, `}}`},
		{"Rec", `{"next":`, ``, ``},   // unterminated
		{"Rec", `{"next":`, `1`, `}`}, // wrong leaf
		{"Rec", `{"next":`, `null`, `}`},
	}
	limit = deepLimit
	depths := []int{1, 10, 100, 1000, 9999, 10001, 12000}
	for ti, tp := range tmpls {
		ds := depths
		// the deepest inputs only for the well-formed templates: the malformed ones
		// take the (quadratic) error path, ~6 s at 12 000 levels on an idle core
		if vf.Tier() == "thorough" && ti < 9 {
			ds = append(append([]int{}, depths...), 50000, 200000)
		}
		for _, n := range ds {
			nd := &nestDoc{Open: tp.open, Mid: tp.mid, Close: tp.close, N: n}
			doc := nd.text()
			c := mkCase(s, fixschema.Pkg+"."+tp.root, doc)
			r.Eval(n > 1, vf.Hash(tp.root, tp.open, n), fmt.Sprintf("depth:%d", n))
			compact := docCase{Root: c.Root, Nest: nd}
			r.Journal(compact)
			start := time.Now()
			ok := r.JudgeNoFatal(compact, check(s, c))
			if ok && n == 12000 && r.WantSample() {
				r.Sample(map[string]any{"root": tp.root, "template": tp.open + tp.mid + tp.close, "depth": n, "bytes": len(doc), "ms": time.Since(start).Milliseconds()})
			}
		}
	}
	// unbounded recursion: a decoder that recurses once per level with no limit of
	// its own dies of stack overflow (not recoverable) well before these depths;
	// one that bounds its recursion rejects or accepts them in linear time. The
	// worker's death is attributed through the journal.
	for _, tp := range []tmpl{{"Rec", `{"next":`, `{}`, `}`}, {"Rec", `{"kids":[`, `{}`, `]}`}, {"All", `{"rString":[`, `"x"`, `]}`},
		// a cycle made of oneofs only: no object body on the way down
		{"RecChoice", `{"again":`, `{}`, `}`}, {"RecChoice", `{"!type":"again","again":`, `{}`, `}`}} {
		for _, n := range []int{1500000, 3000000} {
			nd := &nestDoc{Open: tp.open, Mid: tp.mid, Close: tp.close, N: n}
			doc := nd.text()
			c := mkCase(s, fixschema.Pkg+"."+tp.root, doc)
			r.Eval(true, vf.Hash(tp.root, tp.open, n), "depth:millions")
			compact := docCase{Root: c.Root, Nest: nd}
			r.Journal(compact)
			r.JudgeNoFatal(compact, check(s, c))
		}
	}
	// huge scalar tokens
	for _, k := range fixschema.Kinds {
		for _, tok := range []string{strings.Repeat("9", 100000), `"` + strings.Repeat("9", 100000) + `"`, `"` + strings.Repeat("A", 1<<20) + `"`, "1e" + strings.Repeat("9", 5000), "-" + strings.Repeat("0", 70000) + "1",
			// short literals that denote astronomically large / small numbers: time must be bounded by the input size, not by the value
			`1e100000000`, `"1e100000000"`, `-1E+99999999`, `"1e-100000000"`, `1e-2147483648`, `"1e2147483647"`, `1e99999999999999999999`} {
			doc := fmt.Sprintf(`{%q:%s}`, fixschema.Plain(k), tok)
			c := mkCase(s, fixschema.Pkg+".All", doc)
			r.Eval(true, vf.Hash(k.Name, tok[:8], len(tok)), "huge-token")
			r.JudgeNoFatal(c, check(s, c))
		}
	}
	r.SetExhaustive()
}

// ---------------------------------------------------------------------------
// lane 3: hostile mutations of canonical documents of generated messages

var hostileValues = []string{
	`null`, `true`, `false`, `0`, `-0`, `1`, `-1`, `1.5`, `1e400`, `-1e-400`, `18446744073709551616`, `9223372036854775808`, `""`, `"x"`, `"null"`,
	`[]`, `[null]`, `[[]]`, `[{}]`, `{}`, `{"":null}`, `{"!type":null}`, `{"!type":""}`, `{"!type":"x"}`, `{"!type":"x","x":null}`, `{"value":null}`,
	`1e100000000`, `"1e100000000"`, `"1e-100000000"`, `-1e2147483647`,
	`"\ud800"`, `"\u0000"`, `"2020-01-01"`, `"2020-01-01T00:00:00Z"`, `"AQID"`, `"1.2.3"`, `[1,[2,[3,[4]]]]`,
}

func mutateDoc(t *rapid.T, doc string) (string, string) {
	root, err := jx.Parse([]byte(doc))
	if err != nil {
		return doc, "unparsed"
	}
	kinds := []string{}
	nm := rapid.IntRange(1, 3).Draw(t, "nmut")
	for i := 0; i < nm; i++ {
		slots := jx.Slots(&root)
		si := rapid.IntRange(0, len(slots)-1).Draw(t, "slot")
		slot := slots[si]
		switch rapid.IntRange(0, 5).Draw(t, "mkind") {
		case 0, 1, 2:
			raw := rapid.SampledFrom(hostileValues).Draw(t, "hv")
			v, perr := jx.Parse([]byte(raw))
			if perr != nil {
				v = jx.N(raw) // written verbatim (e.g. a lone surrogate escape)
			}
			*slot = v
			kinds = append(kinds, "replace")
		case 3:
			if (*slot).Kind == jx.Obj && len((*slot).Members) > 0 {
				m := (*slot).Members[rapid.IntRange(0, len((*slot).Members)-1).Draw(t, "dupm")]
				(*slot).Members = append((*slot).Members, jx.Member{Key: m.Key, Val: m.Val.Clone()})
				kinds = append(kinds, "duplicate-key")
			}
		case 4:
			*slot = jx.A(*slot)
			kinds = append(kinds, "wrap-array")
		case 5:
			if (*slot).Kind == jx.Obj {
				(*slot).Members = append((*slot).Members, jx.Member{Key: rapid.SampledFrom([]string{"!type", "value", "", "unknown", "a.b"}).Draw(t, "addkey"), Val: jx.S("x")})
				kinds = append(kinds, "add-key")
			}
		}
	}
	out := root.String()
	switch rapid.IntRange(0, 7).Draw(t, "bytemut") {
	case 0:
		k := rapid.IntRange(0, len(out)).Draw(t, "cut")
		out = out[:k]
		kinds = append(kinds, "truncate")
	case 1:
		k := rapid.IntRange(0, len(out)).Draw(t, "ins")
		out = out[:k] + string([]byte{rapid.Byte().Draw(t, "b")}) + out[k:]
		kinds = append(kinds, "insert-byte")
	case 2:
		out = out + rapid.SampledFrom([]string{"}", "]", " x", "{}", "\x00"}).Draw(t, "trail")
		kinds = append(kinds, "trailing")
	}
	return out, strings.Join(kinds, "+")
}

func TestMutate(t *testing.T) {
	r := vf.Start(t, prop, "mutate")
	rapid.Check(t, func(t *rapid.T) {
		s, err := codecx.DrawSchema(t, pgen.Supported)
		if err != nil {
			t.Fatalf("generator: %v", err)
		}
		cdc := s.NewCodec()
		nmsg := rapid.IntRange(1, 4).Draw(t, "nmsg")
		for i := 0; i < nmsg; i++ {
			md := rapid.SampledFrom(s.Msgs).Draw(t, "root")
			msg := s.MsgCtx(false).Message(t, md, 0, "m.")
			canon, err := cdc.ProtoToJSON(msg)
			if err != nil {
				r.Discard()
				continue
			}
			for j := 0; j < 4; j++ {
				doc, kind := mutateDoc(t, string(canon))
				c := docCase{Files: s.Case(msg, "").Files, Root: string(md.FullName())}
				if utf8.ValidString(doc) {
					c.Doc = &doc
				} else {
					c.DocQ = fmt.Sprintf("%q", doc)
					c.Doc = &doc
				}
				r.Eval(doc != string(canon), vf.Hash(c.Files, c.Root, doc), "mut:"+kind)
				if len(doc) < 300 && r.WantSample() {
					r.Sample(map[string]string{"root": c.Root, "doc": doc, "mutation": kind})
				}
				fails := check(s, c)
				if !utf8.ValidString(doc) {
					c.Doc = nil
				}
				r.Judge(t, c, fails)
			}
		}
	})
}

// ---------------------------------------------------------------------------
// lane 4: arbitrary url.Values

var keyPunct = []string{".0", ".1.", ".7.", ".300000.", ".2000000.", "0", "300000", ".", "[", "]", "[]", "][", "]]", "[[", "[0]", "..", "/", ":", "%", "%5B", "%5D", " ", "+", "-", "_", "*", "$", "#", "&", "=", "?", "(", ")", "{", "}", "!", "@", "\\", "'", "\""}

func TestQuery(t *testing.T) {
	r := vf.Start(t, prop, "query")
	s, err := fixed()
	if err != nil {
		t.Fatal(err)
	}
	md := s.Find(fixschema.Pkg + ".All")
	var names []string
	for i := 0; i < md.Fields().Len(); i++ {
		names = append(names, md.Fields().Get(i).JSONName(), string(md.Fields().Get(i).Name()))
	}
	names = append(names, "w", "n", "exp", "flat", "leafName", "next", "kids", "", ".", "..", "a..b", "w.", ".w", "!type", "n.nString.x", "w.aObject.leafName", "n.nObject.leafName", "exp.eObject.leafName", "pRec.next.next.label", "rObject.leafName", "mObject.k.leafName", "mString.k")
	vals := []string{"", "x", "0", "-1", "1.5", "true", "null", "{}", "[]", "{", `{"leafName":"x"}`, `{"leafName":null}`, `{"!type":"leaf"}`, ` {"next":{}}`, "2020-01-01", "AQID", "RED", "COLOR_RED", "99999999999999999999", "\x00", "\xff", "1e100000000", "1e-100000000", `{"pDecimal":"1e100000000"}`}
	rapid.Check(t, func(t *rapid.T) {
		q := map[string][]string{}
		qclass := "plain-key"
		n := rapid.IntRange(0, 4).Draw(t, "nkeys")
		for i := 0; i < n; i++ {
			var key string
			switch rapid.IntRange(0, 4).Draw(t, "keykind") {
			case 0:
				key = rapid.String().Draw(t, "anykey")
			case 4:
				// path punctuation other dialects of query strings use, balanced or not
				toks := rapid.SliceOfN(rapid.OneOf(rapid.SampledFrom(names), rapid.SampledFrom(keyPunct)), 1, 6).Draw(t, "keytoks")
				key = strings.Join(toks, "")
				qclass = "punct-key"
			case 1:
				parts := rapid.SliceOfN(rapid.SampledFrom(names), 1, 3).Draw(t, "path")
				key = strings.Join(parts, ".")
			default:
				key = rapid.SampledFrom(names).Draw(t, "key")
			}
			q[key] = rapid.SliceOfN(rapid.OneOf(rapid.SampledFrom(vals), rapid.String()), 0, 3).Draw(t, "vals")
		}
		root := rapid.SampledFrom([]string{"All", "All", "All", "Rec", "Wrap", "Leaf"}).Draw(t, "root")
		c := docCase{Root: fixschema.Pkg + "." + root, Query: q}
		r.Eval(len(q) > 0, vf.Hash(c.Root, q), fmt.Sprintf("keys:%d", len(q)), qclass)
		if len(q) > 1 && r.WantSample() {
			r.Sample(c)
		}
		r.Judge(t, c, check(s, c))
	})
}

// FuzzDecode: coverage-guided lane (thorough only).
func FuzzDecode(f *testing.F) {
	s, err := fixed()
	if err != nil {
		f.Fatal(err)
	}
	for _, k := range fixschema.Kinds {
		f.Add(0, fmt.Sprintf(`{%q:%s,%q:[%s]}`, fixschema.Plain(k), k.Valid, fixschema.Repeated(k), k.Valid))
		f.Add(0, fmt.Sprintf(`{"w":{"!type":%q,%q:%s}}`, fixschema.Arm(k), fixschema.Arm(k), k.Valid))
	}
	for _, h := range hostileValues {
		f.Add(1, h)
		f.Add(0, `{"pObject":`+h+`}`)
	}
	roots := []string{"All", "Wrap", "Rec", "RecChoice", "Choice", "Leaf"}
	known := map[string]bool{}
	for _, kf := range vf.LoadFindings(vf.RootDir()) {
		if kf.Property == prop && kf.Status == "open" {
			known[kf.Key] = true
		}
	}
	f.Fuzz(func(t *testing.T, rootIdx int, doc string) {
		if len(doc) > 1<<16 {
			return
		}
		if rootIdx < 0 {
			rootIdx = -rootIdx
		}
		c := docCase{Root: fixschema.Pkg + "." + roots[rootIdx%len(roots)], Doc: &doc}
		for _, fl := range check(s, c) {
			if !known[fl.Key] {
				t.Fatalf("C06 fuzz: [%s] %s", fl.Key, fl.Detail)
			}
		}
	})
}

var _ = os.Getenv

var fuzzRoots = []string{"All", "Wrap", "Rec", "RecChoice", "Choice", "Leaf"}

// TestFuzzInput pushes crashers found by FuzzDecode through the normal verdict path.
func TestFuzzInput(t *testing.T) {
	r := vf.Start(t, prop, "fuzz")
	s, err := fixed()
	if err != nil {
		t.Fatal(err)
	}
	for _, p := range vf.FuzzInputs() {
		vals, err := vf.ReadFuzzInput(p)
		if err != nil || len(vals) != 2 {
			r.Note("unreadable fuzz input %s: %v", p, err)
			continue
		}
		rootIdx, doc := vals[0].(int), vals[1].(string)
		if rootIdx < 0 {
			rootIdx = -rootIdx
		}
		c := docCase{Root: fixschema.Pkg + "." + fuzzRoots[rootIdx%len(fuzzRoots)], Doc: &doc, DocQ: fmt.Sprintf("%q", doc)}
		r.Eval(true, vf.Hash(c.Root, doc), "fuzz-crasher")
		r.Journal(c)
		r.JudgeNoFatal(c, check(s, c))
	}
}
