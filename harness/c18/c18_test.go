package c18

import (
	"encoding/json"
	"fmt"
	"regexp"
	"strings"
	"testing"
	"time"

	"github.com/pentops/j5/gen/j5/ext/v1/ext_j5pb"
	"github.com/pentops/j5/internal/bcl/internal/verif/codecx"
	"github.com/pentops/j5/internal/bcl/internal/verif/j5ref"
	"github.com/pentops/j5/internal/bcl/internal/verif/pgen"
	"github.com/pentops/j5/internal/bcl/internal/verif/vf"
	"github.com/pentops/j5/lib/j5reflect"
	"github.com/pentops/j5/lib/j5schema"
	"google.golang.org/protobuf/proto"
	"google.golang.org/protobuf/reflect/protoreflect"
	"google.golang.org/protobuf/types/dynamicpb"
	"pgregory.net/rapid"
)

const prop = "C18"

// setCase: a descriptor set plus populated messages (one per message type at most).
type setCase struct {
	Files []string          `json:"files_b64"`
	Msgs  map[string]string `json:"msgs_b64"` // full name -> wire bytes
	Text  string            `json:"schema_text,omitempty"`
	// Order: the order in which the message types are handed to the schema cache
	// (what a cache returns can depend on what it was asked before)
	Order []string `json:"order,omitempty"`
}

func laneCase(raw json.RawMessage) ([]vf.Failure, error) {
	var c setCase
	if err := json.Unmarshal(raw, &c); err != nil {
		return nil, err
	}
	s, _, err := codecx.Case{Files: c.Files, Root: firstKey(c)}.BuildSchemaOnly()
	if err != nil {
		return nil, err
	}
	if len(c.Order) > 0 {
		byName := map[string]protoreflect.MessageDescriptor{}
		for _, md := range s.Msgs {
			byName[string(md.FullName())] = md
		}
		var ordered []protoreflect.MessageDescriptor
		for _, n := range c.Order {
			if md := byName[n]; md != nil {
				ordered = append(ordered, md)
				delete(byName, n)
			}
		}
		for _, md := range s.Msgs {
			if byName[string(md.FullName())] != nil {
				ordered = append(ordered, md)
			}
		}
		s.Msgs = ordered
	}
	fails, _ := check(s, c)
	return fails, nil
}

func firstKey(c setCase) string { return "" }

var lanes = map[string]vf.LaneFunc{"arbitrary": laneCase, "recursive": laneCase}

func TestReplay(t *testing.T) {
	if !vf.RunReplayMode(t, prop, lanes) {
		t.Skip("no VERIF_REPLAY")
	}
}

func TestWitness(t *testing.T) { vf.Witnesses(t, prop, lanes) }

const callLimit = 20 * time.Second

func kindOf(fs j5schema.FieldSchema) string {
	switch fs.(type) {
	case *j5schema.ArrayField:
		return "array"
	case *j5schema.MapField:
		return "map"
	case *j5schema.ObjectField:
		return "object"
	case *j5schema.OneofField:
		return "oneof"
	case *j5schema.EnumField:
		return "enum"
	case *j5schema.ScalarSchema:
		return "scalar"
	case *j5schema.AnyField:
		return "any"
	}
	return fmt.Sprintf("%T", fs)
}

// leafMatches: does a singular proto field carry what the leaf schema says?
func leafMatches(fs j5schema.FieldSchema, f protoreflect.FieldDescriptor) string {
	switch st := fs.(type) {
	case *j5schema.ObjectField, *j5schema.OneofField, *j5schema.AnyField:
		if f.Kind() != protoreflect.MessageKind {
			return fmt.Sprintf("schema %s on proto kind %s", kindOf(fs), f.Kind())
		}
	case *j5schema.EnumField:
		if f.Kind() != protoreflect.EnumKind {
			return fmt.Sprintf("schema enum on proto kind %s", f.Kind())
		}
	case *j5schema.ScalarSchema:
		tn := st.TypeName()
		k := f.Kind()
		ok := false
		switch {
		case st.WellKnownTypeName != "":
			ok = k == protoreflect.MessageKind && f.Message().FullName() == st.WellKnownTypeName
		case strings.HasPrefix(tn, "string"), strings.HasPrefix(tn, "key"):
			ok = k == protoreflect.StringKind
		case strings.HasPrefix(tn, "bool"):
			ok = k == protoreflect.BoolKind
		case strings.HasPrefix(tn, "bytes"):
			ok = k == protoreflect.BytesKind
		case strings.HasPrefix(tn, "integer"):
			switch k {
			case protoreflect.Int32Kind, protoreflect.Sint32Kind, protoreflect.Int64Kind, protoreflect.Sint64Kind, protoreflect.Uint32Kind, protoreflect.Uint64Kind,
				protoreflect.Fixed32Kind, protoreflect.Sfixed32Kind, protoreflect.Fixed64Kind, protoreflect.Sfixed64Kind:
				ok = true
			}
		case strings.HasPrefix(tn, "float"):
			ok = k == protoreflect.FloatKind || k == protoreflect.DoubleKind
		default:
			ok = true // unknown type name spelling: not judged
		}
		if !ok {
			return fmt.Sprintf("scalar schema %q on proto kind %s", tn, k)
		}
	}
	return ""
}

func checkProps(root j5schema.RootSchema, md protoreflect.MessageDescriptor) (fails []vf.Failure) {
	var props []*j5schema.ObjectProperty
	switch rs := root.(type) {
	case *j5schema.ObjectSchema:
		props = rs.ClientProperties()
	case *j5schema.OneofSchema:
		props = rs.ClientProperties()
	default:
		return nil
	}
	seen := map[string]int{}
	for _, p := range props {
		if prev, dup := seen[p.JSONName]; dup {
			cause := "direct"
			_ = prev
			for i := 0; i < md.Fields().Len(); i++ {
				if j5ref.IsFlatten(md.Fields().Get(i)) {
					cause = "via-flatten" // the object has flattened members: collisions come from inlining
				}
			}
			fails = append(fails, vf.Failf("names|duplicate|"+cause, "%s: property name %q appears twice", md.FullName(), p.JSONName))
		}
		seen[p.JSONName] = len(p.ProtoField)
		if len(p.ProtoField) == 0 {
			if _, ok := p.Schema.(*j5schema.OneofField); !ok {
				fails = append(fails, vf.Failf("path|empty", "%s.%s: empty proto path on a %s", md.FullName(), p.JSONName, kindOf(p.Schema)))
			}
			continue
		}
		walk := md
		var fd protoreflect.FieldDescriptor
		bad := false
		for i, n := range p.ProtoField {
			fd = walk.Fields().ByNumber(n)
			if fd == nil {
				fails = append(fails, vf.Failf("path|unresolved", "%s.%s: field number %d not in %s", md.FullName(), p.JSONName, n, walk.FullName()))
				bad = true
				break
			}
			if i < len(p.ProtoField)-1 {
				if fd.Kind() != protoreflect.MessageKind || fd.IsList() || fd.IsMap() {
					fails = append(fails, vf.Failf("path|through-non-message", "%s.%s: path element %s is not a singular message", md.FullName(), p.JSONName, fd.FullName()))
					bad = true
					break
				}
				walk = fd.Message()
			}
		}
		if bad {
			continue
		}
		switch st := p.Schema.(type) {
		case *j5schema.ArrayField:
			if !fd.IsList() {
				fails = append(fails, vf.Failf("kind|array-on-"+cardOf(fd), "%s.%s: array schema on %s field %s", md.FullName(), p.JSONName, cardOf(fd), fd.FullName()))
			} else if m := leafMatches(st.Schema, fd); m != "" {
				fails = append(fails, vf.Failf("kind|array-item", "%s.%s: %s", md.FullName(), p.JSONName, m))
			}
		case *j5schema.MapField:
			if !fd.IsMap() {
				fails = append(fails, vf.Failf("kind|map-on-"+cardOf(fd)+"-"+msgName(fd), "%s.%s: map schema on %s field %s", md.FullName(), p.JSONName, cardOf(fd), fd.FullName()))
			} else if m := leafMatches(st.Schema, fd.MapValue()); m != "" {
				fails = append(fails, vf.Failf("kind|map-value", "%s.%s: %s", md.FullName(), p.JSONName, m))
			}
		default:
			if fd.IsList() || fd.IsMap() {
				fails = append(fails, vf.Failf("kind|"+kindOf(p.Schema)+"-on-"+cardOf(fd), "%s.%s: %s schema on %s field", md.FullName(), p.JSONName, kindOf(p.Schema), cardOf(fd)))
			} else if m := leafMatches(p.Schema, fd); m != "" {
				fails = append(fails, vf.Failf("kind|leaf", "%s.%s: %s", md.FullName(), p.JSONName, m))
			}
		}
	}
	return fails
}

func msgName(fd protoreflect.FieldDescriptor) string {
	if fd.Kind() == protoreflect.MessageKind {
		return string(fd.Message().FullName())
	}
	return fd.Kind().String()
}

func cardOf(fd protoreflect.FieldDescriptor) string {
	switch {
	case fd.IsMap():
		return "map"
	case fd.IsList():
		return "list"
	}
	return "singular"
}

// fieldSig describes, for finding keys, what kind of field a panic/error is about:
// collected from the message type so that keys are structural.
func typeSig(md protoreflect.MessageDescriptor) string {
	kinds := map[string]bool{}
	for i := 0; i < md.Fields().Len(); i++ {
		f := md.Fields().Get(i)
		switch f.Kind() {
		case protoreflect.Fixed32Kind, protoreflect.Sfixed32Kind, protoreflect.Fixed64Kind, protoreflect.Sfixed64Kind:
			kinds[f.Kind().String()] = true
		case protoreflect.MessageKind:
			if strings.HasPrefix(string(f.Message().FullName()), "google.protobuf.") {
				kinds[string(f.Message().Name())] = true
			}
		}
	}
	var out []string
	for k := range kinds {
		out = append(out, k)
	}
	for i := 1; i < len(out); i++ {
		for j := i; j > 0 && out[j] < out[j-1]; j-- {
			out[j], out[j-1] = out[j-1], out[j]
		}
	}
	return strings.Join(out, ",")
}

var nameRe = regexp.MustCompile(`[A-Za-z_][A-Za-z0-9_]*(\.[A-Za-z_][A-Za-z0-9_]*)+`)

// fieldSig finds a field full name in a panic / error text and returns the kind of
// that field ("|field:<kind or message type>"), so that finding keys say which
// kind of field is affected instead of which generated name.
func fieldSig(s *codecx.Schema, text string) string {
	for _, cand := range nameRe.FindAllString(text, -1) {
		d, err := s.Files.FindDescriptorByName(protoreflect.FullName(cand))
		if err != nil {
			continue
		}
		if fd, ok := d.(protoreflect.FieldDescriptor); ok {
			if fd.IsMap() {
				fd = fd.MapValue()
			}
			if fd.Kind() == protoreflect.MessageKind {
				return "|field:" + string(fd.Message().FullName())
			}
			return "|field:" + fd.Kind().String()
		}
	}
	return ""
}

func check(s *codecx.Schema, c setCase) (fails []vf.Failure, built int) {
	include := func(fd protoreflect.FileDescriptor) bool {
		for _, x := range s.FDs {
			if x.Path() == fd.Path() {
				return true
			}
		}
		return false
	}
	var set *j5schema.SchemaSet
	var err error
	if f := vf.GuardTimed("SchemaSetFromFiles", callLimit, func() { set, err = j5schema.SchemaSetFromFiles(s.Files, include) }); f != nil {
		fails = append(fails, *f)
	}
	_ = set
	_ = err
	cache := j5schema.NewSchemaCache()
	refl := j5reflect.NewWithCache(cache)
	cdc := s.NewCodec()
	for _, md := range s.Msgs {
		var root j5schema.RootSchema
		var serr error
		if f := vf.GuardTimed("SchemaCache.Schema", callLimit, func() { root, serr = cache.Schema(md) }); f != nil {
			f.Detail += " (" + string(md.FullName()) + ")"
			fails = append(fails, *f)
			continue
		}
		if serr != nil || root == nil {
			// an error is an allowed outcome - but then asking again must not
			// succeed: nothing about the descriptors has changed
			var again j5schema.RootSchema
			var aerr error
			if f := vf.GuardTimed("SchemaCache.Schema", callLimit, func() { again, aerr = cache.Schema(md) }); f != nil {
				f.Detail += " (second call, " + string(md.FullName()) + ")"
				fails = append(fails, *f)
				continue
			}
			if aerr == nil && again != nil {
				fails = append(fails, vf.Failf("cache|succeeds-after-error", "SchemaCache.Schema(%s) failed (%v) and then succeeded on the same cache", md.FullName(), serr))
			}
			continue
		}
		built++
		if f := vf.GuardTimed("ClientProperties", callLimit, func() { fails = append(fails, checkProps(root, md)...) }); f != nil {
			f.Detail += " (" + string(md.FullName()) + ")"
			fails = append(fails, *f)
			continue
		}

		var r j5reflect.Root
		var rerr error
		if f := vf.GuardTimed("Reflector.NewRoot", callLimit, func() { r, rerr = refl.NewRoot(dynamicpb.NewMessage(md)) }); f != nil {
			f.Detail += " (" + string(md.FullName()) + ")"
			fails = append(fails, *f)
			continue
		}
		if rerr != nil || r == nil {
			// the schema was built but cannot be bound to its own descriptor
			fails = append(fails, vf.Failf("bind|"+vf.ErrClass(rerr), "NewRoot(%s) fails although its schema was built: %v", md.FullName(), rerr))
			continue
		}
		// codec: empty and populated message
		msgs := []protoreflect.Message{dynamicpb.NewMessage(md)}
		if b64, ok := c.Msgs[string(md.FullName())]; ok {
			m := dynamicpb.NewMessage(md)
			if raw, err := codecx.B64(b64); err == nil && (proto.UnmarshalOptions{Resolver: s.Types}).Unmarshal(raw, m) == nil {
				// a message type may be declared a oneof by annotation alone
				// ((j5.ext.v1.message).oneof on plain fields): an instance of the
				// reflected type has at most one member set, at every level
				// (read from the descriptor's own annotation, not from the schema
				// under test: a reader that takes an object for a oneof must stay visible)
				pruneOneofs(m, func(md protoreflect.MessageDescriptor) bool {
					mo, _ := proto.GetExtension(md.Options(), ext_j5pb.E_Message).(*ext_j5pb.MessageOptions)
					return mo.GetOneof() != nil || mo.GetIsOneofWrapper() // the latter is the deprecated spelling
				}, s.Types, 0)
				msgs = append(msgs, m)
			}
		}
		for i, m := range msgs {
			which := "empty"
			if i == 1 {
				which = "populated"
			}
			var out []byte
			var eerr error
			if f := vf.GuardTimed("ProtoToJSON", callLimit, func() { out, eerr = cdc.ProtoToJSON(m) }); f != nil {
				f.Key += fieldSig(s, f.Detail)
				f.Detail += fmt.Sprintf(" (%s %s)", which, md.FullName())
				fails = append(fails, *f)
				continue
			}
			if eerr != nil {
				fails = append(fails, vf.Failf("encode|error|"+vf.ErrClass(eerr)+fieldSig(s, eerr.Error()), "encode %s %s: %v", which, md.FullName(), eerr))
				continue
			}
			fresh := dynamicpb.NewMessage(md)
			if f := vf.GuardTimed("JSONToProto", callLimit, func() { _ = cdc.JSONToProto(out, fresh) }); f != nil {
				f.Key += fieldSig(s, f.Detail)
				f.Detail += fmt.Sprintf(" (%s %s) document %s", which, md.FullName(), out)
				fails = append(fails, *f)
			}
		}
	}
	// one root cause, many symptoms: schema names flatten the nesting path with
	// "_", so a top-level Foo_Bar and a nested Foo.Bar share one cache entry and
	// each is then handled with the other's schema. Every failure of such a set is
	// filed under one key (an open finding: the naming scheme is a design decision).
	if len(fails) > 0 {
		if a, b := flatNameCollision(s); a != "" {
			return []vf.Failure{vf.Failf("schema-name|flattened-name-collision", "%s and %s are both named %s in the schema cache; first symptom: [%s] %s", a, b, strings.ReplaceAll(a[strings.Index(a, ":")+1:], ".", "_"), fails[0].Key, fails[0].Detail)}, built
		}
	}
	return dedupe(fails), built
}

// flatNameCollision finds two declarations of one package whose nesting paths
// joined with "_" are the same string.
func flatNameCollision(s *codecx.Schema) (string, string) {
	seen := map[string]string{}
	var found [2]string
	var walk func(pkg, prefix string, msgs protoreflect.MessageDescriptors, enums protoreflect.EnumDescriptors)
	note := func(pkg, path string) {
		key := pkg + ":" + strings.ReplaceAll(path, ".", "_")
		full := pkg + ":" + path
		if prev, ok := seen[key]; ok && prev != full && found[0] == "" {
			found = [2]string{prev, full}
		}
		seen[key] = full
	}
	walk = func(pkg, prefix string, msgs protoreflect.MessageDescriptors, enums protoreflect.EnumDescriptors) {
		for i := 0; i < msgs.Len(); i++ {
			m := msgs.Get(i)
			if m.IsMapEntry() {
				continue
			}
			note(pkg, prefix+string(m.Name()))
			walk(pkg, prefix+string(m.Name())+".", m.Messages(), m.Enums())
		}
		for i := 0; i < enums.Len(); i++ {
			note(pkg, prefix+string(enums.Get(i).Name()))
		}
	}
	for _, fd := range s.FDs {
		walk(string(fd.Package()), "", fd.Messages(), fd.Enums())
	}
	return found[0], found[1]
}

// pruneOneofs clears all but the first populated field of every message whose
// reflected schema is a oneof.
func pruneOneofs(m protoreflect.Message, isOneof func(protoreflect.MessageDescriptor) bool, types *dynamicpb.Types, depth int) {
	if depth > 40 {
		return
	}
	// the payload of an Any is a message of a reflected type too
	if full := m.Descriptor().FullName(); full == "google.protobuf.Any" || full == "j5.types.any.v1.Any" {
		nameField, valueField := "type_url", "value"
		if full == "j5.types.any.v1.Any" {
			nameField, valueField = "type_name", "proto"
		}
		nf, vf2 := m.Descriptor().Fields().ByName(protoreflect.Name(nameField)), m.Descriptor().Fields().ByName(protoreflect.Name(valueField))
		if nf == nil || vf2 == nil {
			return
		}
		name := m.Get(nf).String()
		if i := strings.LastIndex(name, "/"); i >= 0 {
			name = name[i+1:]
		}
		mt, err := types.FindMessageByName(protoreflect.FullName(name))
		if err != nil {
			return
		}
		inner := mt.New()
		if (proto.UnmarshalOptions{Resolver: types}).Unmarshal(m.Get(vf2).Bytes(), inner.Interface()) != nil {
			return
		}
		pruneOneofs(inner, isOneof, types, depth+1)
		if b, err := (proto.MarshalOptions{Deterministic: true}).Marshal(inner.Interface()); err == nil {
			m.Set(vf2, protoreflect.ValueOfBytes(b))
		}
		return
	}
	if isOneof(m.Descriptor()) {
		first := true
		fields := m.Descriptor().Fields()
		for i := 0; i < fields.Len(); i++ {
			fd := fields.Get(i)
			if !m.Has(fd) {
				continue
			}
			if !first {
				m.Clear(fd)
			}
			first = false
		}
	}
	m.Range(func(fd protoreflect.FieldDescriptor, v protoreflect.Value) bool {
		switch {
		case fd.IsMap():
			if fd.MapValue().Kind() == protoreflect.MessageKind {
				v.Map().Range(func(_ protoreflect.MapKey, mv protoreflect.Value) bool {
					pruneOneofs(mv.Message(), isOneof, types, depth+1)
					return true
				})
			}
		case fd.IsList():
			if fd.Kind() == protoreflect.MessageKind {
				for i := 0; i < v.List().Len(); i++ {
					pruneOneofs(v.List().Get(i).Message(), isOneof, types, depth+1)
				}
			}
		case fd.Kind() == protoreflect.MessageKind:
			pruneOneofs(v.Message(), isOneof, types, depth+1)
		}
		return true
	})
}

func dedupe(fails []vf.Failure) []vf.Failure {
	seen := map[string]bool{}
	var out []vf.Failure
	for _, f := range fails {
		if !seen[f.Key] {
			seen[f.Key] = true
			out = append(out, f)
		}
	}
	return out
}

// encodable is a conservative filter for Any payload types: only kinds the J5
// wire format documents, transitively.
func encodable(md protoreflect.MessageDescriptor, seen map[protoreflect.FullName]bool) bool {
	if seen[md.FullName()] {
		return true
	}
	seen[md.FullName()] = true
	for i := 0; i < md.Fields().Len(); i++ {
		f := md.Fields().Get(i)
		if f.IsMap() {
			if f.MapKey().Kind() != protoreflect.StringKind {
				return false
			}
			f = f.MapValue()
		}
		switch f.Kind() {
		case protoreflect.Fixed32Kind, protoreflect.Sfixed32Kind, protoreflect.Fixed64Kind, protoreflect.Sfixed64Kind:
			return false
		case protoreflect.MessageKind:
			fn := string(f.Message().FullName())
			if strings.HasPrefix(fn, "google.protobuf.") && fn != "google.protobuf.Timestamp" {
				return false
			}
			if strings.HasPrefix(fn, "j5.types.") {
				if fn == "j5.types.any.v1.Any" {
					return false
				}
				continue
			}
			if fn != "google.protobuf.Timestamp" && !encodable(f.Message(), seen) {
				return false
			}
		}
	}
	return true
}

func TestArbitrary(t *testing.T) {
	r := vf.Start(t, prop, "arbitrary")
	rapid.Check(t, func(t *rapid.T) {
		s, err := codecx.DrawSchema(t, pgen.Arbitrary)
		if err != nil {
			t.Fatalf("generator: %v", err)
		}
		// half of the file sets have a second file, in another package, whose message
		// refers to messages and enums of the first: failures then happen while a
		// message of a different package is being built. Its messages come first.
		if rapid.Bool().Draw(t, "crossfile") {
			cross := pgen.CrossFile(t, s.FilePBs[0], "wx.v1")
			s2, err := codecx.NewSchema(s.FilePBs[0], cross)
			if err != nil {
				t.Fatalf("generator: cross file does not link: %v", err)
			}
			for k := range s.Classes {
				s2.Classes[k] = true
			}
			s2.Classes["cross-package-file"] = true
			n := len(s2.Msgs)
			for i, md := range s2.Msgs {
				if md.ParentFile().Path() == cross.GetName() {
					s2.Msgs[0], s2.Msgs[i] = s2.Msgs[i], s2.Msgs[0]
				}
			}
			_ = n
			s = s2
		}
		c := setCase{Files: s.Case(dynamicpb.NewMessage(s.Msgs[0]), "").Files, Msgs: map[string]string{}}
		for _, md := range s.Msgs {
			c.Order = append(c.Order, string(md.FullName()))
		}
		ctx := s.MsgCtx(false)
		// Any payloads are drawn only from types that reflect: a payload of a type
		// J5 cannot represent makes the outer encode fail by design.
		ctx.AnyTargets = nil
		scratch := j5schema.NewSchemaCache()
		for _, md := range s.Msgs {
			ok := false
			_ = vf.Guard("scratch", func() {
				root, err := scratch.Schema(md)
				ok = err == nil && root != nil
			})
			if ok && encodable(md, map[protoreflect.FullName]bool{}) {
				ctx.AnyTargets = append(ctx.AnyTargets, md)
			}
		}
		for _, md := range s.Msgs {
			m := ctx.Message(t, md, 1, string(md.Name())+".")
			b, _ := proto.MarshalOptions{Deterministic: true}.Marshal(m.Interface())
			c.Msgs[string(md.FullName())] = codecx.ToB64(b)
		}
		r.Journal(c)
		fails, built := check(s, c)
		cls := []string{fmt.Sprintf("built:%d/%d", min(built, 3), min(len(s.Msgs), 3))}
		nt := false
		for k := range s.Classes {
			cls = append(cls, k)
			switch {
			case k == "unsupported-scalar", k == "other-wkt", k == "recursive-ref", k == "flatten-unchecked", k == "non-string-map-key", k == "enum-without-unspecified", strings.HasPrefix(k, "opt:"):
				nt = true
			}
		}
		r.Eval(nt, vf.Hash(c.Files, c.Msgs), cls...)
		if nt && len(s.Msgs) <= 2 && r.WantSample() {
			r.Sample(map[string]any{"messages": len(s.Msgs), "classes": cls})
		}
		r.Judge(t, c, fails)
	})
}
