package c13

import (
	"encoding/json"
	"fmt"
	"strings"
	"testing"
	"time"

	"github.com/bufbuild/protocompile/linker"
	"github.com/pentops/j5/internal/bcl/internal/verif/j5sgen"
	"github.com/pentops/j5/internal/bcl/internal/verif/j5sx"
	"github.com/pentops/j5/internal/bcl/internal/verif/vf"
	"google.golang.org/protobuf/reflect/protoreflect"
	"pgregory.net/rapid"
)

const prop = "C13"

// histCase: a history of bundles, each obtained from the previous one by one
// append edit.
type histCase struct {
	Steps []*j5sgen.Bundle `json:"steps"`
	Edits []string         `json:"edits"`
}

func laneCase(raw json.RawMessage) ([]vf.Failure, error) {
	var c histCase
	if err := json.Unmarshal(raw, &c); err != nil {
		return nil, err
	}
	return check(c), nil
}

var lanes = map[string]vf.LaneFunc{"append": laneCase}

func TestReplay(t *testing.T) {
	if !vf.RunReplayMode(t, prop, lanes) {
		t.Skip("no VERIF_REPLAY")
	}
}

func TestWitness(t *testing.T) { vf.Witnesses(t, prop, lanes) }

const callLimit = 120 * time.Second

func compileLines(b *j5sgen.Bundle) ([]string, error) {
	src := &j5sx.Bundle{Files: b.Render()}
	var all []string
	for _, p := range b.Packages {
		var files linker.Files
		var err error
		if f := vf.GuardTimed("CompilePackage", callLimit, func() { files, err = j5sx.Compile(src, p.Name) }); f != nil {
			return nil, fmt.Errorf("%s", f.Detail)
		}
		if err != nil {
			return nil, fmt.Errorf("package %s: %w", p.Name, err)
		}
		var fds []protoreflect.FileDescriptor
		for _, f := range files {
			fds = append(fds, f)
		}
		lines, _ := j5sgen.ActualLines(fds)
		all = append(all, lines...)
	}
	return all, nil
}

func check(c histCase) (fails []vf.Failure) {
	var prev []string
	for i, step := range c.Steps {
		lines, err := compileLines(step)
		if err != nil {
			what := "initial"
			if i > 0 {
				what = c.Edits[i-1]
			}
			return append(fails, vf.Failf("compile|error|"+what, "step %d (%s) does not compile: %v", i, what, err))
		}
		if i > 0 {
			lost, _ := j5sgen.DiffLines(prev, lines)
			if len(lost) > 0 {
				kinds := map[string]bool{}
				for _, l := range lost {
					kinds[strings.SplitN(l, " ", 2)[0]] = true
				}
				for k := range kinds {
					fails = append(fails, vf.Failf("identity-changed|"+k+"|"+c.Edits[i-1], "after edit %q (step %d) these existing elements changed or disappeared:\n  %s", c.Edits[i-1], i, strings.Join(head(lost), "\n  ")))
				}
			}
		}
		prev = lines
	}
	return fails
}

func head(s []string) []string {
	if len(s) > 10 {
		return append(s[:10:10], fmt.Sprintf("… %d more", len(s)-10))
	}
	return s
}

func clone(b *j5sgen.Bundle) *j5sgen.Bundle {
	raw, _ := json.Marshal(b)
	var out j5sgen.Bundle
	_ = json.Unmarshal(raw, &out)
	return &out
}

type target struct {
	what   string
	fields *[]*j5sgen.Field
	enum   *j5sgen.Enum
	file   *j5sgen.File
	last   bool // declaration is the last in its file
	nested bool // has inline / nested types
	// top-level type names of the package the target is in
	typeNames []string
}

func hasInline(fs []*j5sgen.Field) bool {
	for _, f := range fs {
		t := f.Type
		if t.Items != nil {
			t = t.Items
		}
		if t.InlineObject != nil || t.InlineOneof != nil || t.InlineEnum != nil {
			return true
		}
	}
	return false
}

// typeNames lists the top-level type names declared in a package.
func typeNames(p *j5sgen.Package) []string {
	var out []string
	for _, f := range p.Files {
		for _, d := range f.Decls {
			switch {
			case d.Object != nil:
				out = append(out, d.Object.Name)
			case d.Oneof != nil:
				out = append(out, d.Oneof.Name)
			case d.Enum != nil:
				out = append(out, d.Enum.Name)
			}
		}
	}
	return out
}

func targets(b *j5sgen.Bundle) []target {
	var all []target
	for _, p := range b.Packages {
		names := typeNames(p)
		for _, tg := range targetsOf(&j5sgen.Bundle{Packages: []*j5sgen.Package{p}}) {
			tg.typeNames = names
			all = append(all, tg)
		}
	}
	return all
}

func targetsOf(b *j5sgen.Bundle) []target {
	var out []target
	var walkFields func(what string, fs *[]*j5sgen.Field, last bool)
	walkFields = func(what string, fs *[]*j5sgen.Field, last bool) {
		for _, f := range *fs {
			t := f.Type
			if t.Items != nil {
				t = t.Items
			}
			switch {
			case t.InlineObject != nil:
				out = append(out, target{what: "field-to-inline-object", fields: &t.InlineObject.Fields, last: last, nested: true})
				walkFields(what, &t.InlineObject.Fields, last)
			case t.InlineOneof != nil:
				out = append(out, target{what: "option-to-inline-oneof", fields: &t.InlineOneof.Options, last: last, nested: true})
			case t.InlineEnum != nil:
				out = append(out, target{what: "option-to-inline-enum", enum: t.InlineEnum, last: last, nested: true})
			}
		}
	}
	for _, p := range b.Packages {
		for _, f := range p.Files {
			out = append(out, target{what: "declaration-to-file", file: f, last: true})
			for i, d := range f.Decls {
				last := i == len(f.Decls)-1
				switch {
				case d.Object != nil:
					out = append(out, target{what: "field-to-object", fields: &d.Object.Fields, last: last, nested: hasInline(d.Object.Fields) || len(d.Object.Nested) > 0})
					walkFields("object", &d.Object.Fields, last)
					for _, n := range d.Object.Nested {
						out = append(out, target{what: "field-to-nested-object", fields: &n.Fields, last: last, nested: true})
					}
				case d.Oneof != nil:
					out = append(out, target{what: "option-to-oneof", fields: &d.Oneof.Options, last: last, nested: hasInline(d.Oneof.Options)})
				case d.Enum != nil:
					out = append(out, target{what: "option-to-enum", enum: d.Enum, last: last})
				case d.Service != nil:
					for _, m := range d.Service.Methods {
						out = append(out, target{what: "field-to-request", fields: &m.Request, last: last, nested: hasInline(m.Request)})
						if !m.NoResponse {
							out = append(out, target{what: "field-to-response", fields: &m.Response, last: last, nested: hasInline(m.Response)})
						}
					}
				case d.Topic != nil:
					for _, m := range d.Topic.Messages {
						out = append(out, target{what: "field-to-topic-message", fields: &m.Fields, last: last})
					}
					if d.Topic.Request != nil {
						out = append(out, target{what: "field-to-topic-request", fields: &d.Topic.Request.Fields, last: last})
						out = append(out, target{what: "field-to-topic-reply", fields: &d.Topic.Reply.Fields, last: last})
					}
				}
			}
		}
	}
	return out
}

func lowerFirst(s string) string { return strings.ToLower(s[:1]) + s[1:] }

// newField draws the appended field. Its name is usually fresh ("addedOne"), but
// the interesting interactions of an append are through names: a name that sorts
// before every existing one, and - for fields with an inline type - a name whose
// CamelCase equals an existing top-level type, so the generated nested type
// Parent.X shadows the top-level X in protobuf scoping.
func newField(t *rapid.T, n int, objectOnly bool, existing []*j5sgen.Field, typeNames []string) (*j5sgen.Field, string) {
	name := fmt.Sprintf("added%s", []string{"One", "Two", "Three", "Four", "Five", "Six"}[n%6])
	k := rapid.IntRange(0, 4).Draw(t, "newkind")
	if objectOnly {
		k = 3
	}
	taken := map[string]bool{}
	for _, f := range existing {
		taken[strings.ToLower(f.Name)] = true
	}
	naming := "fresh"
	switch rapid.IntRange(0, 3).Draw(t, "naming") {
	case 0:
		if cand := fmt.Sprintf("aaFirst%d", n); !taken[strings.ToLower(cand)] {
			name, naming = cand, "sorts-first"
		}
	case 1, 2:
		if (k == 2 || k == 3) && len(typeNames) > 0 {
			cand := lowerFirst(rapid.SampledFrom(typeNames).Draw(t, "shadow"))
			if !taken[strings.ToLower(cand)] {
				name, naming = cand, "shadows-top-level-type"
			}
		}
	}
	var f *j5sgen.Field
	switch k {
	case 0:
		f = &j5sgen.Field{Name: name, Type: &j5sgen.Type{Kind: "string"}}
	case 1:
		f = &j5sgen.Field{Name: name, Type: &j5sgen.Type{Kind: "integer", Format: "INT64"}, Optional: true}
	case 2:
		f = &j5sgen.Field{Name: name, Type: &j5sgen.Type{Kind: "enum", InlineEnum: &j5sgen.Enum{Options: []*j5sgen.EnumOption{{Name: "FIRST"}, {Name: "SECOND"}}}}}
	case 3:
		f = &j5sgen.Field{Name: name, Type: &j5sgen.Type{Kind: "object", InlineObject: &j5sgen.Object{Fields: []*j5sgen.Field{{Name: "inner", Type: &j5sgen.Type{Kind: "bool"}}}}}}
	default:
		f = &j5sgen.Field{Name: name, Type: &j5sgen.Type{Kind: "array", Items: &j5sgen.Type{Kind: "key", Format: "id62"}}, Required: true}
	}
	return f, naming
}

func first(f *j5sgen.Field, _ string) *j5sgen.Field { return f }

// derivedStems lists, for the package of file f, the stems X of its top-level
// types named XRequest / XResponse (no method X yet) and XMessage (no topic
// message X yet).
func derivedStems(b *j5sgen.Bundle, f *j5sgen.File) (methods, messages []string) {
	for _, p := range b.Packages {
		mine := false
		for _, pf := range p.Files {
			if pf == f {
				mine = true
			}
		}
		if !mine {
			continue
		}
		usedM, usedT := map[string]bool{}, map[string]bool{}
		var names []string
		for _, pf := range p.Files {
			for _, d := range pf.Decls {
				switch {
				case d.Object != nil:
					names = append(names, d.Object.Name)
				case d.Oneof != nil:
					names = append(names, d.Oneof.Name)
				case d.Enum != nil:
					names = append(names, d.Enum.Name)
				case d.Service != nil:
					for _, m := range d.Service.Methods {
						usedM[m.Name] = true
					}
				case d.Topic != nil:
					for _, m := range d.Topic.Messages {
						usedT[m.Name] = true
					}
					for _, m := range append(append([]*j5sgen.TopicMessage{d.Topic.Request, d.Topic.Reply}, d.Topic.MoreRequests...), d.Topic.MoreReplies...) {
						if m != nil {
							usedT[m.Name] = true
						}
					}
				case d.Entity != nil:
					return nil, nil // entities derive services and topics of their own
				}
			}
		}
		seenM, seenT := map[string]bool{}, map[string]bool{}
		for _, n := range names {
			for _, suf := range []string{"Request", "Response"} {
				if x := strings.TrimSuffix(n, suf); x != n && x != "" && !usedM[x] && !seenM[x] {
					seenM[x] = true
					methods = append(methods, x)
				}
			}
			if x := strings.TrimSuffix(n, "Message"); x != n && x != "" && !usedT[x] && !seenT[x] {
				seenT[x] = true
				messages = append(messages, x)
			}
		}
	}
	return methods, messages
}

func TestAppend(t *testing.T) {
	r := vf.Start(t, prop, "append")
	rapid.Check(t, func(t *rapid.T) {
		o := j5sgen.DefaultOpts()
		o.MaxPackages, o.MaxFiles = 2, 2
		b, _ := j5sgen.Draw(t, o)
		derivedPath := ""
		if rapid.IntRange(0, 3).Draw(t, "derivedtypes") == 0 {
			// user types named like the messages a later service / topic derives, and
			// a field that refers to each
			p := b.Packages[rapid.IntRange(0, len(b.Packages)-1).Draw(t, "derivedpkg")]
			f := p.Files[rapid.IntRange(0, len(p.Files)-1).Draw(t, "derivedfile")]
			user := &j5sgen.Object{Name: "UsesDerivedNames"}
			for _, n := range []string{"RunAppendedResponse", "RunAppendedRequest", "NotifyAppendedMessage"} {
				if rapid.Bool().Draw(t, "derivedtype") {
					f.Decls = append(f.Decls, &j5sgen.Decl{Object: &j5sgen.Object{Name: n, Fields: []*j5sgen.Field{{Name: "note", Type: &j5sgen.Type{Kind: "string"}}}}})
					user.Fields = append(user.Fields, &j5sgen.Field{Name: lowerFirst(n), Type: &j5sgen.Type{Kind: "object", Ref: &j5sgen.Ref{Package: p.Name, Name: n}}})
				}
			}
			f.Decls = append(f.Decls, &j5sgen.Decl{Object: user})
			derivedPath = f.Path
		}
		c := histCase{Steps: []*j5sgen.Bundle{b}}
		nEdits := rapid.IntRange(1, 5).Draw(t, "nedits")
		nt := false
		cls := []string{}
		cur := b
		for i := 0; i < nEdits; i++ {
			next := clone(cur)
			tg := targets(next)
			tt := tg[rapid.IntRange(0, len(tg)-1).Draw(t, "target")]
			if derivedPath != "" && rapid.IntRange(0, 2).Draw(t, "appendtoderived") == 0 {
				for _, x := range tg {
					if x.file != nil && x.file.Path == derivedPath {
						tt = x
					}
				}
			}
			switch {
			case tt.file != nil:
				name := fmt.Sprintf("Appended%s", []string{"Alpha", "Beta", "Gamma", "Delta", "Epsilon"}[i])
				switch rapid.IntRange(0, 4).Draw(t, "newdecl") {
				case 3, 4:
					// a service or a topic: its messages are declared in the .service /
					// .topic sub-package under names derived from the method / message
					// name - which may be the name a user type of the package already has
					stemS, stemT := derivedStems(next, tt.file)
					mname, tname := name, name
					if len(stemS) > 0 && rapid.Bool().Draw(t, "methodlikename") {
						mname = rapid.SampledFrom(stemS).Draw(t, "methodstem")
						cls = append(cls, "name:derives-existing-type-name")
						nt = true
					}
					if len(stemT) > 0 && rapid.Bool().Draw(t, "topiclikename") {
						tname = rapid.SampledFrom(stemT).Draw(t, "topicstem")
						cls = append(cls, "name:derives-existing-type-name")
						nt = true
					}
					if rapid.Bool().Draw(t, "newsvc") {
						tt.file.Decls = append(tt.file.Decls, &j5sgen.Decl{Service: &j5sgen.Service{Name: name, Methods: []*j5sgen.Method{{
							Name: mname, HTTPMethod: "POST", HTTPPath: "/appended/" + strings.ToLower(name),
							Request:  []*j5sgen.Field{{Name: "note", Type: &j5sgen.Type{Kind: "string"}}},
							Response: []*j5sgen.Field{{Name: "done", Type: &j5sgen.Type{Kind: "bool"}}},
						}}}})
					} else {
						tt.file.Decls = append(tt.file.Decls, &j5sgen.Decl{Topic: &j5sgen.Topic{Name: name, Kind: "publish", Messages: []*j5sgen.TopicMessage{{
							Name: tname, Fields: []*j5sgen.Field{{Name: "note", Type: &j5sgen.Type{Kind: "string"}}},
						}}}})
					}
				case 0:
					tt.file.Decls = append(tt.file.Decls, &j5sgen.Decl{Object: &j5sgen.Object{Name: name, Fields: []*j5sgen.Field{first(newField(t, 0, false, nil, nil))}}})
				case 1:
					tt.file.Decls = append(tt.file.Decls, &j5sgen.Decl{Enum: &j5sgen.Enum{Name: name, Options: []*j5sgen.EnumOption{{Name: "ONE"}}}})
				default:
					tt.file.Decls = append(tt.file.Decls, &j5sgen.Decl{Oneof: &j5sgen.Oneof{Name: name, Options: []*j5sgen.Field{first(newField(t, 0, true, nil, nil))}}})
				}
			case tt.enum != nil:
				// the new option's name may look like the zero option's (ends in
				// UNSPECIFIED), sort before every other, or extend an existing name
				oname := fmt.Sprintf("ADDED_%d", i)
				switch rapid.IntRange(0, 4).Draw(t, "optionnaming") {
				case 0:
					oname = fmt.Sprintf("ADDED_%d_UNSPECIFIED", i)
					cls = append(cls, "name:option-ends-in-unspecified")
				case 1:
					oname = fmt.Sprintf("AAA_%d", i)
				case 2:
					if len(tt.enum.Options) > 0 {
						oname = fmt.Sprintf("%s_%d", tt.enum.Options[0].Name, i)
					}
				}
				added := &j5sgen.EnumOption{Name: oname}
				if len(tt.enum.Options) > 0 && rapid.IntRange(0, 2).Draw(t, "optionnumber") == 0 {
					// an explicit number that an existing option already holds by
					// position (the attribute is accepted; numbering is by position)
					n := int32(rapid.IntRange(0, len(tt.enum.Options)).Draw(t, "optionnumberv"))
					added.Number = &n
					cls = append(cls, "name:option-with-number-in-use")
				}
				tt.enum.Options = append(tt.enum.Options, added)
			default:
				nf, naming := newField(t, i, strings.Contains(tt.what, "oneof"), *tt.fields, tt.typeNames)
				*tt.fields = append(*tt.fields, nf)
				cls = append(cls, "name:"+naming)
				if naming == "shadows-top-level-type" {
					nt = true
				}
			}
			c.Steps = append(c.Steps, next)
			c.Edits = append(c.Edits, tt.what)
			cls = append(cls, "edit:"+tt.what)
			if tt.nested || !tt.last {
				nt = true
			}
			if !tt.last {
				cls = append(cls, "not-last-in-file")
			}
			cur = next
		}
		r.Eval(nt, vf.Hash(cur.Render(), c.Edits), cls...)
		if nt && len(c.Steps) <= 3 && r.WantSample() {
			r.Sample(map[string]any{"edits": c.Edits, "final_files": len(cur.Render())})
		}
		r.Journal(c)
		r.Judge(t, c, check(c))
	})
}
