// Package jx is an independent strict RFC 8259 reader/writer used as oracle: it
// keeps the string/number distinction, member order and duplicate keys, and
// rejects everything encoding/json is lenient about.
package jx

import (
	"fmt"
	"math/big"
	"sort"
	"strconv"
	"strings"
	"unicode/utf8"
)

type Kind int

const (
	Null Kind = iota
	Bool
	Num
	Str
	Arr
	Obj
)

type Member struct {
	Key string
	Val *Value
}

type Value struct {
	Kind    Kind
	B       bool
	S       string // decoded string, or the number's literal text
	Items   []*Value
	Members []Member
	// Sem optionally tags a leaf of an *expected* tree with the semantic type
	// under which it is compared (see j5ref.DiffSem); ignored by the writer.
	Sem string
}

func (v *Value) Get(key string) *Value {
	for _, m := range v.Members {
		if m.Key == key {
			return m.Val
		}
	}
	return nil
}

func (v *Value) Keys() []string {
	out := make([]string, len(v.Members))
	for i, m := range v.Members {
		out[i] = m.Key
	}
	return out
}

type parser struct {
	b   []byte
	pos int
}

// Parse accepts exactly one JSON value surrounded by optional whitespace.
func Parse(b []byte) (*Value, error) {
	if !utf8.Valid(b) {
		return nil, fmt.Errorf("invalid UTF-8")
	}
	p := &parser{b: b}
	p.ws()
	v, err := p.value(0)
	if err != nil {
		return nil, err
	}
	p.ws()
	if p.pos != len(p.b) {
		return nil, fmt.Errorf("trailing data at offset %d", p.pos)
	}
	return v, nil
}

func (p *parser) ws() {
	for p.pos < len(p.b) {
		switch p.b[p.pos] {
		case ' ', '\t', '\n', '\r':
			p.pos++
		default:
			return
		}
	}
}

func (p *parser) errf(format string, a ...any) error {
	return fmt.Errorf("offset %d: %s", p.pos, fmt.Sprintf(format, a...))
}

func (p *parser) value(depth int) (*Value, error) {
	if depth > 20000 {
		return nil, p.errf("too deep")
	}
	if p.pos >= len(p.b) {
		return nil, p.errf("unexpected end")
	}
	switch c := p.b[p.pos]; {
	case c == '{':
		p.pos++
		v := &Value{Kind: Obj}
		p.ws()
		if p.pos < len(p.b) && p.b[p.pos] == '}' {
			p.pos++
			return v, nil
		}
		for {
			p.ws()
			if p.pos >= len(p.b) || p.b[p.pos] != '"' {
				return nil, p.errf("expected object key")
			}
			k, err := p.str()
			if err != nil {
				return nil, err
			}
			p.ws()
			if p.pos >= len(p.b) || p.b[p.pos] != ':' {
				return nil, p.errf("expected ':'")
			}
			p.pos++
			p.ws()
			val, err := p.value(depth + 1)
			if err != nil {
				return nil, err
			}
			v.Members = append(v.Members, Member{k, val})
			p.ws()
			if p.pos >= len(p.b) {
				return nil, p.errf("unterminated object")
			}
			if p.b[p.pos] == ',' {
				p.pos++
				continue
			}
			if p.b[p.pos] == '}' {
				p.pos++
				return v, nil
			}
			return nil, p.errf("expected ',' or '}'")
		}
	case c == '[':
		p.pos++
		v := &Value{Kind: Arr}
		p.ws()
		if p.pos < len(p.b) && p.b[p.pos] == ']' {
			p.pos++
			return v, nil
		}
		for {
			p.ws()
			val, err := p.value(depth + 1)
			if err != nil {
				return nil, err
			}
			v.Items = append(v.Items, val)
			p.ws()
			if p.pos >= len(p.b) {
				return nil, p.errf("unterminated array")
			}
			if p.b[p.pos] == ',' {
				p.pos++
				continue
			}
			if p.b[p.pos] == ']' {
				p.pos++
				return v, nil
			}
			return nil, p.errf("expected ',' or ']'")
		}
	case c == '"':
		s, err := p.str()
		if err != nil {
			return nil, err
		}
		return &Value{Kind: Str, S: s}, nil
	case c == 't':
		return p.lit("true", &Value{Kind: Bool, B: true})
	case c == 'f':
		return p.lit("false", &Value{Kind: Bool, B: false})
	case c == 'n':
		return p.lit("null", &Value{Kind: Null})
	case c == '-' || (c >= '0' && c <= '9'):
		return p.num()
	default:
		return nil, p.errf("unexpected byte %q", c)
	}
}

func (p *parser) lit(s string, v *Value) (*Value, error) {
	if strings.HasPrefix(string(p.b[p.pos:]), s) {
		p.pos += len(s)
		return v, nil
	}
	return nil, p.errf("bad literal")
}

func (p *parser) num() (*Value, error) {
	start := p.pos
	if p.b[p.pos] == '-' {
		p.pos++
	}
	if p.pos >= len(p.b) {
		return nil, p.errf("bad number")
	}
	if p.b[p.pos] == '0' {
		p.pos++
	} else if p.b[p.pos] >= '1' && p.b[p.pos] <= '9' {
		for p.pos < len(p.b) && p.b[p.pos] >= '0' && p.b[p.pos] <= '9' {
			p.pos++
		}
	} else {
		return nil, p.errf("bad number")
	}
	if p.pos < len(p.b) && p.b[p.pos] == '.' {
		p.pos++
		n := 0
		for p.pos < len(p.b) && p.b[p.pos] >= '0' && p.b[p.pos] <= '9' {
			p.pos++
			n++
		}
		if n == 0 {
			return nil, p.errf("bad fraction")
		}
	}
	if p.pos < len(p.b) && (p.b[p.pos] == 'e' || p.b[p.pos] == 'E') {
		p.pos++
		if p.pos < len(p.b) && (p.b[p.pos] == '+' || p.b[p.pos] == '-') {
			p.pos++
		}
		n := 0
		for p.pos < len(p.b) && p.b[p.pos] >= '0' && p.b[p.pos] <= '9' {
			p.pos++
			n++
		}
		if n == 0 {
			return nil, p.errf("bad exponent")
		}
	}
	return &Value{Kind: Num, S: string(p.b[start:p.pos])}, nil
}

func (p *parser) str() (string, error) {
	p.pos++ // opening quote
	var sb strings.Builder
	for {
		if p.pos >= len(p.b) {
			return "", p.errf("unterminated string")
		}
		c := p.b[p.pos]
		switch {
		case c == '"':
			p.pos++
			return sb.String(), nil
		case c < 0x20:
			return "", p.errf("raw control character in string")
		case c == '\\':
			p.pos++
			if p.pos >= len(p.b) {
				return "", p.errf("bad escape")
			}
			e := p.b[p.pos]
			p.pos++
			switch e {
			case '"', '\\', '/':
				sb.WriteByte(e)
			case 'b':
				sb.WriteByte('\b')
			case 'f':
				sb.WriteByte('\f')
			case 'n':
				sb.WriteByte('\n')
			case 'r':
				sb.WriteByte('\r')
			case 't':
				sb.WriteByte('\t')
			case 'u':
				r, err := p.hex4()
				if err != nil {
					return "", err
				}
				if r >= 0xD800 && r < 0xDC00 {
					if p.pos+1 < len(p.b) && p.b[p.pos] == '\\' && p.b[p.pos+1] == 'u' {
						p.pos += 2
						r2, err := p.hex4()
						if err != nil {
							return "", err
						}
						if r2 < 0xDC00 || r2 > 0xDFFF {
							return "", p.errf("unpaired surrogate")
						}
						r = 0x10000 + (r-0xD800)<<10 + (r2 - 0xDC00)
					} else {
						return "", p.errf("unpaired surrogate")
					}
				} else if r >= 0xDC00 && r <= 0xDFFF {
					return "", p.errf("unpaired surrogate")
				}
				sb.WriteRune(r)
			default:
				return "", p.errf("bad escape \\%c", e)
			}
		default:
			sb.WriteByte(c)
			p.pos++
		}
	}
}

func (p *parser) hex4() (rune, error) {
	if p.pos+4 > len(p.b) {
		return 0, p.errf("short \\u escape")
	}
	n, err := strconv.ParseUint(string(p.b[p.pos:p.pos+4]), 16, 32)
	if err != nil {
		return 0, p.errf("bad \\u escape")
	}
	p.pos += 4
	return rune(n), nil
}

// ---------------------------------------------------------------------------
// writer

func quote(s string) string {
	var sb strings.Builder
	sb.WriteByte('"')
	for _, r := range s {
		switch {
		case r == '"':
			sb.WriteString(`\"`)
		case r == '\\':
			sb.WriteString(`\\`)
		case r == '\n':
			sb.WriteString(`\n`)
		case r == '\r':
			sb.WriteString(`\r`)
		case r == '\t':
			sb.WriteString(`\t`)
		case r < 0x20:
			fmt.Fprintf(&sb, `\u%04x`, r)
		default:
			sb.WriteRune(r)
		}
	}
	sb.WriteByte('"')
	return sb.String()
}

// Bytes renders the tree compactly.
func (v *Value) Bytes() []byte {
	var sb strings.Builder
	v.write(&sb)
	return []byte(sb.String())
}

func (v *Value) String() string { return string(v.Bytes()) }

func (v *Value) write(sb *strings.Builder) {
	switch v.Kind {
	case Null:
		sb.WriteString("null")
	case Bool:
		if v.B {
			sb.WriteString("true")
		} else {
			sb.WriteString("false")
		}
	case Num:
		sb.WriteString(v.S)
	case Str:
		sb.WriteString(quote(v.S))
	case Arr:
		sb.WriteByte('[')
		for i, it := range v.Items {
			if i > 0 {
				sb.WriteByte(',')
			}
			it.write(sb)
		}
		sb.WriteByte(']')
	case Obj:
		sb.WriteByte('{')
		for i, m := range v.Members {
			if i > 0 {
				sb.WriteByte(',')
			}
			sb.WriteString(quote(m.Key))
			sb.WriteByte(':')
			m.Val.write(sb)
		}
		sb.WriteByte('}')
	}
}

// Constructors.
func S(s string) *Value   { return &Value{Kind: Str, S: s} }
func N(lit string) *Value { return &Value{Kind: Num, S: lit} }
func B(b bool) *Value     { return &Value{Kind: Bool, B: b} }
func NullV() *Value       { return &Value{Kind: Null} }
func O(ms ...Member) *Value {
	return &Value{Kind: Obj, Members: ms}
}
func A(items ...*Value) *Value { return &Value{Kind: Arr, Items: items} }

func (v *Value) Clone() *Value {
	if v == nil {
		return nil
	}
	c := &Value{Kind: v.Kind, B: v.B, S: v.S, Sem: v.Sem}
	for _, it := range v.Items {
		c.Items = append(c.Items, it.Clone())
	}
	for _, m := range v.Members {
		c.Members = append(c.Members, Member{m.Key, m.Val.Clone()})
	}
	return c
}

func numEqual(a, b string) bool {
	if a == b {
		return true
	}
	fa, _, ea := big.ParseFloat(a, 10, 2000, big.ToNearestEven)
	fb, _, eb := big.ParseFloat(b, 10, 2000, big.ToNearestEven)
	if ea != nil || eb != nil {
		return false
	}
	return fa.Cmp(fb) == 0
}

// Diff compares two trees: objects as unordered maps (duplicate keys are a
// difference), arrays in order, numbers numerically, everything else exactly.
// It returns the path and description of the first difference, or "".
func Diff(a, b *Value, path string) string {
	if a.Kind != b.Kind {
		return fmt.Sprintf("%s: kind %s vs %s (%s vs %s)", path, kindName(a.Kind), kindName(b.Kind), clip(a.String()), clip(b.String()))
	}
	switch a.Kind {
	case Bool:
		if a.B != b.B {
			return fmt.Sprintf("%s: %v vs %v", path, a.B, b.B)
		}
	case Num:
		if !numEqual(a.S, b.S) {
			return fmt.Sprintf("%s: number %s vs %s", path, a.S, b.S)
		}
	case Str:
		if a.S != b.S {
			return fmt.Sprintf("%s: string %q vs %q", path, clip(a.S), clip(b.S))
		}
	case Arr:
		if len(a.Items) != len(b.Items) {
			return fmt.Sprintf("%s: array length %d vs %d", path, len(a.Items), len(b.Items))
		}
		for i := range a.Items {
			if d := Diff(a.Items[i], b.Items[i], fmt.Sprintf("%s[%d]", path, i)); d != "" {
				return d
			}
		}
	case Obj:
		ka, kb := a.Keys(), b.Keys()
		sort.Strings(ka)
		sort.Strings(kb)
		if strings.Join(ka, "\x00") != strings.Join(kb, "\x00") {
			return fmt.Sprintf("%s: keys %q vs %q", path, ka, kb)
		}
		for i := 1; i < len(ka); i++ {
			if ka[i] == ka[i-1] {
				return fmt.Sprintf("%s: duplicate key %q", path, ka[i])
			}
		}
		for _, m := range a.Members {
			if d := Diff(m.Val, b.Get(m.Key), path+"."+m.Key); d != "" {
				return d
			}
		}
	}
	return ""
}

func kindName(k Kind) string {
	return [...]string{"null", "bool", "number", "string", "array", "object"}[k]
}

func clip(s string) string {
	if len(s) > 80 {
		return s[:80] + "…"
	}
	return s
}

// Slots returns pointers to every value slot of the tree (the root first), so a
// mutator can replace any subtree in place.
func Slots(root **Value) []**Value {
	var out []**Value
	var rec func(s **Value, depth int)
	rec = func(s **Value, depth int) {
		out = append(out, s)
		v := *s
		switch v.Kind {
		case Arr:
			for i := range v.Items {
				rec(&v.Items[i], depth+1)
			}
		case Obj:
			for i := range v.Members {
				rec(&v.Members[i].Val, depth+1)
			}
		}
	}
	rec(root, 0)
	return out
}

// Depth of a slot is not tracked; DepthOf computes the depth of target below root
// (-1 if absent).
func DepthOf(root, target *Value) int {
	if root == target {
		return 0
	}
	switch root.Kind {
	case Arr:
		for _, it := range root.Items {
			if d := DepthOf(it, target); d >= 0 {
				return d + 1
			}
		}
	case Obj:
		for _, m := range root.Members {
			if d := DepthOf(m.Val, target); d >= 0 {
				return d + 1
			}
		}
	}
	return -1
}
