package zprobe

import (
	"testing"

	"github.com/pentops/j5/internal/bcl/internal/verif/j5sx"
	"github.com/pentops/j5/lib/j5schema"
	"google.golang.org/protobuf/encoding/prototext"
	"google.golang.org/protobuf/reflect/protoreflect"
)

func try(t *testing.T, name, src string) {
	b := &j5sx.Bundle{Files: map[string]string{"demo/v1/a.j5s": src}}
	files, err := j5sx.Compile(b, "demo.v1")
	if err != nil {
		t.Logf("%s: COMPILE ERR %v", name, err)
		return
	}
	for _, f := range files {
		tx, _ := j5sx.Print(f)
		t.Logf("%s: %s\n%s", name, f.Path(), tx)
		ms := f.Messages()
		for i := 0; i < ms.Len(); i++ {
			var md protoreflect.MessageDescriptor = ms.Get(i)
			ss := j5schema.NewSchemaCache()
			sch, err := ss.Schema(md)
			if err != nil {
				t.Logf("schema err %v", err)
				continue
			}
			t.Logf("schema %s", prototext.Format(sch.ToJ5Root()))
		}
	}
}

func TestProbe(t *testing.T) {
	try(t, "foreign", "package demo.v1\n\nobject Foo {\n\tfield barId key:id62 {\n\t\tforeign = \"demo.v1.Bar\"\n\t}\n}\n")
	try(t, "primary", "package demo.v1\n\nobject Foo {\n\tfield fooId key:id62 {\n\t\tprimary = true\n\t}\n}\n")
	try(t, "entity.primaryKey", "package demo.v1\n\nobject Foo {\n\tfield fooId key:id62 {\n\t\tentity.primaryKey = true\n\t}\n}\n")
	try(t, "entity.tenantKey", "package demo.v1\n\nobject Foo {\n\tfield fooId key:id62 {\n\t\tentity.tenantKey = \"account\"\n\t}\n}\n")
	try(t, "arrayforeign", "package demo.v1\n\nobject Foo {\n\tfield barIds array:key:id62 {\n\t\titems.key.foreign = \"demo.v1.Bar\"\n\t}\n}\n")
	try(t, "mapforeign", "package demo.v1\n\nobject Foo {\n\tfield barIds map:key:id62 {\n\t\tvalues.key.foreign = \"demo.v1.Bar\"\n\t}\n}\n")
}
