package zprobe

import "testing"

func TestProbe5(t *testing.T) {
	for _, n := range []string{"Plan", "PlanB", "FOO", "HTTPServer", "Plan2", "planItem"} {
		a := "package demo.v1\n\nentity " + n + " {\n\tkey id key:id62 {\n\t\tprimary = true\n\t}\n\tdata note string\n\tstatus ACTIVE\n\tevent Created {\n\t\tfield note string\n\t}\n}\n"
		b := &struct{}{}
		_ = b
		try2(t, n, map[string]string{"demo/v1/a.j5s": a}, []string{"demo/v1/a.j5s"})
	}
}
