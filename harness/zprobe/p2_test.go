package zprobe

import (
	"testing"

	"github.com/pentops/j5/internal/bcl/internal/verif/j5sx"
)

func try2(t *testing.T, name string, files map[string]string, order []string) {
	b := &j5sx.Bundle{Files: files, FileOrder: order}
	fs, err := j5sx.Compile(b, "demo.v1")
	if err != nil {
		t.Logf("%s: COMPILE ERR %v", name, err)
		return
	}
	for _, f := range fs {
		tx, _ := j5sx.Print(f)
		t.Logf("%s: %s\n%s", name, f.Path(), tx)
	}
}

func TestProbe2(t *testing.T) {
	a := "package demo.v1\n\nobject BarMessage {\n\tfield note string\n}\n\nobject User {\n\tfield m object:BarMessage\n}\n"
	b := "package demo.v1\n\ntopic Thing publish {\n\tmessage Bar {\n\t\tfield id string\n\t}\n}\n"
	files := map[string]string{"demo/v1/a.j5s": a, "demo/v1/b.j5s": b}
	try2(t, "a-then-b", files, []string{"demo/v1/a.j5s", "demo/v1/b.j5s"})
	try2(t, "b-then-a", files, []string{"demo/v1/b.j5s", "demo/v1/a.j5s"})
}
