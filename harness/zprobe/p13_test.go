package zprobe

import "testing"

func TestProbe13(t *testing.T) {
	a := `package demo.v1

import j5.list.v1:list

object Item {
	field name string {
		listRules.searching.searchable = true
	}
	field rank integer:INT32 {
		listRules.sorting.sortable = true
		listRules.filtering.filterable = true
	}
}

service Thing {
	basePath = "/thing"
	method ListItems {
		httpMethod = "GET"
		httpPath = "/items"
		request {
			field page object:list.PageRequest
			field query object:list.QueryRequest
		}
		response {
			field items array:object:Item
			field page object:list.PageResponse
		}
	}
	method Raw {
		httpMethod = "GET"
		httpPath = "/raw"
		request {
			field query object:list.QueryRequest
		}
	}
}
`
	try2(t, "list", map[string]string{"demo/v1/a.j5s": a}, []string{"demo/v1/a.j5s"})
}
