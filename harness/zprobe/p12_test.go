package zprobe

import "testing"

func TestProbe12(t *testing.T) {
	for _, r := range []string{"rules.maximum = 2147483648", "rules.minimum = -1", "rules.minimum = \"-1\"", "rules.maximum = 4294967296", "rules.minimum = -2147483649"} {
		a := "package demo.v1\n\nobject Foo {\n\tfield n integer:INT32 {\n\t\t" + r + "\n\t}\n\tfield u integer:UINT32 {\n\t\t" + r + "\n\t}\n}\n"
		try2(t, r, map[string]string{"demo/v1/a.j5s": a}, []string{"demo/v1/a.j5s"})
	}
}
