package zprobe

import (
	"testing"

	"github.com/pentops/j5/internal/bcl/internal/verif/codecx"
	"google.golang.org/protobuf/encoding/prototext"
	"google.golang.org/protobuf/proto"
	"google.golang.org/protobuf/types/descriptorpb"
	"google.golang.org/protobuf/types/dynamicpb"
)

func TestProbe15(t *testing.T) {
	str := descriptorpb.FieldDescriptorProto_TYPE_STRING.Enum()
	dbl := descriptorpb.FieldDescriptorProto_TYPE_DOUBLE.Enum()
	opt := descriptorpb.FieldDescriptorProto_LABEL_OPTIONAL.Enum()
	fd := &descriptorpb.FileDescriptorProto{
		Name: proto.String("p15/v1/a.proto"), Package: proto.String("p15.v1"), Syntax: proto.String("proto3"),
		MessageType: []*descriptorpb.DescriptorProto{{
			Name: proto.String("M"),
			Field: []*descriptorpb.FieldDescriptorProto{
				{Name: proto.String("name"), JsonName: proto.String("name"), Number: proto.Int32(1), Type: str, Label: opt},
				{Name: proto.String("a_str"), JsonName: proto.String("aStr"), Number: proto.Int32(2), Type: str, Label: opt, OneofIndex: proto.Int32(0)},
				{Name: proto.String("a_num"), JsonName: proto.String("aNum"), Number: proto.Int32(3), Type: dbl, Label: opt, OneofIndex: proto.Int32(0)},
			},
			OneofDecl: []*descriptorpb.OneofDescriptorProto{{Name: proto.String("choice")}},
		}},
	}
	s, err := codecx.NewSchema(fd)
	if err != nil {
		t.Fatal(err)
	}
	md := s.Find("p15.v1.M")
	for _, doc := range []string{`{"aStr":"x"}`, `{"aStr":"x","aNum":1.5}`, `{"aNum":1.5,"aStr":"x"}`, `{"aStr":"x","aNum":null}`} {
		m := dynamicpb.NewMessage(md)
		err := s.NewCodec().JSONToProto([]byte(doc), m)
		t.Logf("%s -> err=%v msg=%s", doc, err, prototext.MarshalOptions{}.Format(m))
	}
	m := dynamicpb.NewMessage(md)
	m.Set(md.Fields().ByName("a_str"), m.NewField(md.Fields().ByName("a_str")))
	out, err := s.NewCodec().ProtoToJSON(m)
	t.Logf("enc %s %v", out, err)
}
