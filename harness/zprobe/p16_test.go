package zprobe

import (
	"testing"

	"github.com/pentops/j5/internal/bcl/internal/verif/j5sx"
)

func TestProbe16(t *testing.T) {
	a := "package demo.v1\n\nobject Foo {\n\tfield tags ? map:string\n\tfield list ? array:string\n\tfield name ? string\n}\n"
	b := &j5sx.Bundle{Files: map[string]string{"demo/v1/a.j5s": a}}
	fs, err := j5sx.Compile(b, "demo.v1")
	if err != nil {
		t.Fatalf("compile: %v", err)
	}
	texts := map[string]string{}
	for _, f := range fs {
		tx, _ := j5sx.Print(f)
		texts[f.Path()] = tx
		t.Logf("%s", tx)
		md := f.Messages().ByName("Foo")
		for i := 0; i < md.Fields().Len(); i++ {
			fd := md.Fields().Get(i)
			t.Logf("%s list=%v map=%v optional=%v oneof=%v", fd.Name(), fd.IsList(), fd.IsMap(), fd.HasOptionalKeyword(), fd.ContainingOneof() != nil)
		}
	}
	_, _, err = j5sx.ReadImage(texts)
	t.Logf("reparse err=%v", err)
}
