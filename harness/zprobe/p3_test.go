package zprobe

import "testing"

func TestProbe3(t *testing.T) {
	a := "package demo.v1\n\nenum BarResponse {\n\toption GOOD\n\toption BAD\n}\n\nobject User {\n\tfield m enum:BarResponse\n}\n\nservice Thing {\n\tbasePath = \"/thing\"\n\tmethod Bar {\n\t\thttpMethod = \"GET\"\n\t\thttpPath = \"/bar\"\n\t\trequest {\n\t\t}\n\t\tresponse {\n\t\t\tfield id string\n\t\t}\n\t}\n}\n"
	try2(t, "enum+method", map[string]string{"demo/v1/a.j5s": a}, []string{"demo/v1/a.j5s"})
	b := "package demo.v1\n\nobject BarRequest {\n\tfield note string\n}\n"
	c := "package demo.v1\n\nobject User {\n\tfield m object:BarRequest\n}\n\nservice Thing {\n\tbasePath = \"/thing\"\n\tmethod Bar {\n\t\thttpMethod = \"GET\"\n\t\thttpPath = \"/bar\"\n\t\trequest {\n\t\t}\n\t\tresponse {\n\t\t\tfield id string\n\t\t}\n\t}\n}\n"
	try2(t, "other-file", map[string]string{"demo/v1/b.j5s": b, "demo/v1/c.j5s": c}, []string{"demo/v1/b.j5s", "demo/v1/c.j5s"})
	try2(t, "other-file-rev", map[string]string{"demo/v1/b.j5s": b, "demo/v1/c.j5s": c}, []string{"demo/v1/c.j5s", "demo/v1/b.j5s"})
}
