package zprobe

import (
	"encoding/json"
	"os"
	"strings"
	"testing"

	"github.com/pentops/j5/internal/bcl/internal/verif/j5sx"
)

func TestProbe9(t *testing.T) {
	raw, _ := os.ReadFile(os.Getenv("P9"))
	var rf struct {
		Case struct{ File, Text string } `json:"case"`
	}
	json.Unmarshal(raw, &rf)
	b := &j5sx.Bundle{Files: map[string]string{rf.Case.File: rf.Case.Text}}
	fs, err := j5sx.Compile(b, j5sx.PackageOf(rf.Case.File))
	if err != nil {
		t.Fatal(err)
	}
	want := os.Getenv("P9LINE")
	for _, f := range fs {
		tx, _ := j5sx.Print(f)
		lines := strings.Split(tx, "\n")
		for i, l := range lines {
			if want != "" && strings.Contains(f.Path(), os.Getenv("P9FILE")) {
				var n int
				for _, c := range want {
					n = n*10 + int(c-'0')
				}
				if i >= n-6 && i <= n+2 {
					t.Logf("%s:%d: %q", f.Path(), i+1, l)
				}
			}
		}
	}
}
