package zprobe

import (
	"encoding/base64"
	"encoding/json"
	"os"
	"testing"

	"github.com/pentops/j5/internal/bcl/internal/verif/codecx"
	"github.com/pentops/j5/lib/j5schema"
	"google.golang.org/protobuf/encoding/prototext"
	"google.golang.org/protobuf/proto"
	"google.golang.org/protobuf/types/descriptorpb"
	"google.golang.org/protobuf/types/dynamicpb"
)

func TestProbe11(t *testing.T) {
	raw, _ := os.ReadFile(os.Getenv("P10"))
	var rf struct {
		Case struct {
			Files []string          `json:"files_b64"`
			Msgs  map[string]string `json:"msgs_b64"`
		} `json:"case"`
	}
	json.Unmarshal(raw, &rf)
	var pbs []*descriptorpb.FileDescriptorProto
	for _, f := range rf.Case.Files {
		b, _ := base64.StdEncoding.DecodeString(f)
		fd := &descriptorpb.FileDescriptorProto{}
		proto.Unmarshal(b, fd)
		pbs = append(pbs, fd)
	}
	s, err := codecx.NewSchema(pbs...)
	if err != nil {
		t.Fatal(err)
	}
	md := s.Find(os.Getenv("P11MSG"))
	cache := j5schema.NewSchemaCache()
	rs, err := cache.Schema(md)
	t.Logf("schema %T err=%v", rs, err)
	m := dynamicpb.NewMessage(md)
	b, _ := base64.StdEncoding.DecodeString(rf.Case.Msgs[os.Getenv("P11MSG")])
	(proto.UnmarshalOptions{Resolver: s.Types}).Unmarshal(b, m)
	t.Logf("msg %s", prototext.Format(m))
	out, err := s.NewCodec().ProtoToJSON(m)
	t.Logf("enc %s err=%v", out, err)
}
