package zprobe

import (
	"context"
	"fmt"
	"strings"
	"testing"

	"github.com/pentops/j5/internal/bcl/internal/verif/j5sx"
	"github.com/pentops/j5/internal/j5s/protobuild"
	"google.golang.org/protobuf/proto"
	"google.golang.org/protobuf/types/descriptorpb"
)

type deps struct {
	files map[string]*descriptorpb.FileDescriptorProto
	order []string
}

func (d *deps) ListDependencyFiles(root string) []string {
	var out []string
	for _, n := range d.order {
		if strings.HasPrefix(n, root) {
			out = append(out, n)
		}
	}
	return out
}
func (d *deps) GetDependencyFile(name string) (*descriptorpb.FileDescriptorProto, error) {
	if f, ok := d.files[name]; ok {
		return f, nil
	}
	return nil, fmt.Errorf("not found %s", name)
}

func depFile(name, pkg, field string) *descriptorpb.FileDescriptorProto {
	return &descriptorpb.FileDescriptorProto{
		Name: proto.String(name), Package: proto.String(pkg), Syntax: proto.String("proto3"),
		MessageType: []*descriptorpb.DescriptorProto{{Name: proto.String("Thing"), Field: []*descriptorpb.FieldDescriptorProto{{
			Name: proto.String(field), JsonName: proto.String(field), Number: proto.Int32(1), Type: descriptorpb.FieldDescriptorProto_TYPE_STRING.Enum(), Label: descriptorpb.FieldDescriptorProto_LABEL_OPTIONAL.Enum(),
		}}}},
	}
}

func TestProbe14(t *testing.T) {
	src := "package demo.v1\n\nimport dep.v1\n\nobject User {\n\tfield t object:dep.v1.Thing\n}\n"
	b := &j5sx.Bundle{Files: map[string]string{"demo/v1/a.j5s": src}}
	files := map[string]*descriptorpb.FileDescriptorProto{
		"dep/v1/a.proto":     depFile("dep/v1/a.proto", "dep.v1", "own"),
		"dep/v1/sub/b.proto": depFile("dep/v1/sub/b.proto", "dep.v1.sub", "sub"),
		"dep/v1beta/c.proto": depFile("dep/v1beta/c.proto", "dep.v1beta", "beta"),
	}
	for _, order := range [][]string{{"dep/v1/a.proto", "dep/v1/sub/b.proto", "dep/v1beta/c.proto"}, {"dep/v1beta/c.proto", "dep/v1/sub/b.proto", "dep/v1/a.proto"}, {"dep/v1/sub/b.proto", "dep/v1/a.proto", "dep/v1beta/c.proto"}} {
		ps, err := protobuild.NewPackageSet(&deps{files: files, order: order}, b)
		if err != nil {
			t.Fatal(err)
		}
		fs, err := ps.CompilePackage(context.Background(), "demo.v1")
		if err != nil {
			t.Logf("order %v: ERR %v", order, err)
			continue
		}
		for _, f := range fs {
			tx, _ := j5sx.Print(f)
			for _, l := range strings.Split(tx, "\n") {
				if strings.Contains(l, "Thing") || strings.Contains(l, "import \"dep") {
					t.Logf("order %v: %s", order, strings.TrimSpace(l))
				}
			}
		}
	}
}
