package zprobe

import (
	"encoding/base64"
	"encoding/json"
	"os"
	"testing"

	"google.golang.org/protobuf/encoding/prototext"
	"google.golang.org/protobuf/proto"
	"google.golang.org/protobuf/types/descriptorpb"
)

func TestProbe10(t *testing.T) {
	raw, _ := os.ReadFile(os.Getenv("P10"))
	var rf struct {
		Case struct {
			Files []string          `json:"files_b64"`
			Msgs  map[string]string `json:"msgs_b64"`
		} `json:"case"`
	}
	json.Unmarshal(raw, &rf)
	for _, f := range rf.Case.Files {
		b, _ := base64.StdEncoding.DecodeString(f)
		fd := &descriptorpb.FileDescriptorProto{}
		proto.Unmarshal(b, fd)
		for _, m := range fd.MessageType {
			if os.Getenv("P10MSG") == "*" || m.GetName() == os.Getenv("P10MSG") {
				t.Logf("%s", prototext.Format(m))
			}
		}
	}
}
