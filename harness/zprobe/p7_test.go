package zprobe

import "testing"

func TestProbe7(t *testing.T) {
	a := "package demo.v1\n\nobject Foo {\n\tfield name string\n}\n\nservice Thing {\n\tbasePath = \"/thing\"\n\tmethod List {\n\t\thttpMethod = \"GET\"\n\t\thttpPath = \"/list\"\n\t\tlistRequest.sortTiebreaker = [\"name\"]\n\t\trequest {\n\t\t}\n\t\tresponse {\n\t\t\tfield foos array:object:Foo\n\t\t}\n\t}\n}\n"
	defer func() {
		if r := recover(); r != nil {
			t.Logf("PANIC: %v", r)
		}
	}()
	try2(t, "listRequest", map[string]string{"demo/v1/a.j5s": a}, []string{"demo/v1/a.j5s"})
}
