package zprobe

import (
	"testing"

	"github.com/pentops/j5/internal/bcl/internal/verif/j5sx"
)

func TestProbe17(t *testing.T) {
	a := "package demo.v1\n\nobject Foo {\n\tfield tags ? map:string\n\tfield list ? array:string\n}\n"
	b := &j5sx.Bundle{Files: map[string]string{"demo/v1/a.j5s": a}}
	fs, err := j5sx.Compile(b, "demo.v1")
	if err != nil {
		t.Fatalf("compile: %v", err)
	}
	for _, f := range fs {
		md := f.Messages().ByName("Foo")
		for i := 0; i < md.Fields().Len(); i++ {
			fd := md.Fields().Get(i)
			oo := fd.ContainingOneof()
			if oo != nil {
				t.Logf("%s oneof=%s synthetic=%v", fd.Name(), oo.Name(), oo.IsSynthetic())
			} else {
				t.Logf("%s no oneof", fd.Name())
			}
		}
	}
}
