package zprobe

import (
	"testing"

	"github.com/pentops/j5/internal/bcl/internal/verif/j5sx"
)

func TestProbe8(t *testing.T) {
	for _, pkg := range []string{"acme.j5.v1", "acme.buf.v1", "acme.google.v1", "j5.acme.v1", "acme.v1"} {
		dir := ""
		for _, c := range pkg {
			if c == '.' {
				dir += "/"
			} else {
				dir += string(c)
			}
		}
		a := "package " + pkg + "\n\nobject Foo {\n\tfield name ! string {\n\t\trules.minLength = 1\n\t}\n\tfield at timestamp\n}\n"
		b := &j5sx.Bundle{Files: map[string]string{dir + "/a.j5s": a}}
		fs, err := j5sx.Compile(b, pkg)
		if err != nil {
			t.Logf("%s: COMPILE ERR %v", pkg, err)
			continue
		}
		texts := map[string]string{}
		for _, f := range fs {
			tx, err := j5sx.Print(f)
			if err != nil {
				t.Logf("%s: PRINT ERR %v", pkg, err)
			}
			texts[f.Path()] = tx
		}
		_, _, err = j5sx.ReadImage(texts)
		t.Logf("%s: reparse err=%v", pkg, err)
	}
}
