package zprobe

import (
	"testing"

	"github.com/pentops/j5/internal/bcl/internal/verif/j5sx"
)

func TestProbe6(t *testing.T) {
	for _, n := range []string{"PlanB", "FOO", "HTTPServer", "Plan2", "planItem", "plan_item", "Plan_Item", "x", "ID", "userID", "aB"} {
		a := "package demo.v1\n\nentity " + n + " {\n\tkey id key:id62 {\n\t\tprimary = true\n\t}\n\tdata note string\n\tstatus ACTIVE\n\tevent Created {\n\t\tfield note string\n\t}\n\tsummary {\n\t\tfield note string\n\t}\n}\n"
		b := &j5sx.Bundle{Files: map[string]string{"demo/v1/a.j5s": a}}
		fs, err := j5sx.Compile(b, "demo.v1")
		if err != nil {
			t.Logf("%s: COMPILE ERR %v", n, err)
			continue
		}
		var names []string
		for _, f := range fs {
			for i := 0; i < f.Messages().Len(); i++ {
				names = append(names, string(f.Messages().Get(i).FullName()))
			}
			for i := 0; i < f.Enums().Len(); i++ {
				names = append(names, string(f.Enums().Get(i).FullName())+"["+string(f.Enums().Get(i).Values().Get(1).Name())+"]")
			}
			for i := 0; i < f.Services().Len(); i++ {
				names = append(names, "svc:"+string(f.Services().Get(i).FullName()))
			}
		}
		t.Logf("%s: %v", n, names)
	}
}
