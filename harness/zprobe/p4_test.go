package zprobe

import "testing"

func TestProbe4(t *testing.T) {
	a := "package demo.v1\n\nenum Kind {\n\toption A {\n\t\tnumber = 5\n\t}\n\toption B\n\toption C {\n\t\tnumber = 1\n\t}\n}\n\nobject User {\n\tfield m enum:Kind\n}\n"
	try2(t, "enum-numbers", map[string]string{"demo/v1/a.j5s": a}, []string{"demo/v1/a.j5s"})
}
