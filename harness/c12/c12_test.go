package c12

import (
	"encoding/json"
	"fmt"
	"math"
	"regexp"
	"sort"
	"strings"
	"testing"
	"time"
	"unicode/utf8"

	"github.com/bufbuild/protocompile/linker"
	"github.com/bufbuild/protovalidate-go"
	"github.com/pentops/j5/internal/bcl/internal/verif/j5sgen"
	"github.com/pentops/j5/internal/bcl/internal/verif/j5sx"
	"github.com/pentops/j5/internal/bcl/internal/verif/vf"
	"google.golang.org/protobuf/reflect/protoreflect"
	"google.golang.org/protobuf/types/dynamicpb"
	"pgregory.net/rapid"
)

const prop = "C12"

// cand is a candidate value for the declared field.
type cand struct {
	Absent bool    `json:"absent,omitempty"`
	S      *string `json:"s,omitempty"`
	I      *int64  `json:"i,omitempty"`
	U      *uint64 `json:"u,omitempty"`
	B      *bool   `json:"b,omitempty"`
	Bytes  *string `json:"bytes_hex,omitempty"`
	Enum   *int32  `json:"enum,omitempty"`
	Items  []cand  `json:"items,omitempty"`
	Note   string  `json:"note,omitempty"`
}

type valCase struct {
	Field *j5sgen.Field `json:"field"`
	Cands []cand        `json:"candidates"`
	// Siblings are declared in the same object, Before of them ahead of the
	// subject, and always carry a value their own rules accept: the verdict on
	// the subject may not depend on what is declared next to it.
	Siblings []sibling `json:"siblings,omitempty"`
	Before   int       `json:"before,omitempty"`
	// InOneof: the subject is an option of a j5s oneof (next to an option "other")
	// instead of a field of an object; absent then means the other option is set.
	InOneof bool `json:"in_oneof,omitempty"`
}

type sibling struct {
	Field *j5sgen.Field `json:"field"`
	Value cand          `json:"value"`
}

func laneCase(raw json.RawMessage) ([]vf.Failure, error) {
	var c valCase
	if err := json.Unmarshal(raw, &c); err != nil {
		return nil, err
	}
	fails, _, _ := check(c)
	return fails, nil
}

var lanes = map[string]vf.LaneFunc{"rules": laneCase}

func TestReplay(t *testing.T) {
	if !vf.RunReplayMode(t, prop, lanes) {
		t.Skip("no VERIF_REPLAY")
	}
}

func TestWitness(t *testing.T) { vf.Witnesses(t, prop, lanes) }

const callLimit = 60 * time.Second

var enumOptions = []string{"RED", "GREEN", "BLUE"}

var uuidRe = regexp.MustCompile(`^[0-9a-f]{8}-[0-9a-f]{4}-[0-9a-f]{4}-[0-9a-f]{4}-[0-9a-f]{12}$`)
var id62Re = regexp.MustCompile(`^[0-9A-Za-z]{22}$`)

// satisfies is the reference evaluator of the declared rules for one present,
// singular value of type t.
func satisfies(t *j5sgen.Type, c cand) (bool, string) {
	r := t.Rules
	switch t.Kind {
	case "string":
		s := *c.S
		if r != nil {
			n := uint64(utf8.RuneCountInString(s))
			if r.MinLength != nil && n < *r.MinLength {
				return false, "minLength"
			}
			if r.MaxLength != nil && n > *r.MaxLength {
				return false, "maxLength"
			}
			if r.Pattern != nil && !regexp.MustCompile(*r.Pattern).MatchString(s) {
				return false, "pattern"
			}
		}
	case "key":
		s := *c.S
		switch t.Format {
		case "id62":
			if !id62Re.MatchString(s) {
				return false, "key:id62"
			}
		case "uuid":
			if !uuidRe.MatchString(s) {
				return false, "key:uuid"
			}
		case "custom":
			if !regexp.MustCompile(t.KeyPattern).MatchString(s) {
				return false, "key:custom"
			}
		}
	case "bytes":
		if r != nil {
			n := uint64(len(*c.Bytes) / 2)
			if r.MinLength != nil && n < *r.MinLength {
				return false, "bytes.minLength"
			}
			if r.MaxLength != nil && n > *r.MaxLength {
				return false, "bytes.maxLength"
			}
		}
	case "bool":
		if r != nil && r.Const != nil && *c.B != *r.Const {
			return false, "const"
		}
	case "integer":
		if r != nil {
			// compare in big-enough arithmetic: generated bounds are non-negative and < 2^62
			var v float64
			var iv int64
			if c.U != nil {
				if *c.U > 1<<62 {
					iv = 1 << 62
				} else {
					iv = int64(*c.U)
				}
			} else {
				iv = *c.I
			}
			_ = v
			if r.Minimum != nil {
				if r.ExclusiveMin != nil && *r.ExclusiveMin {
					if !(iv > *r.Minimum) {
						return false, "exclusiveMinimum"
					}
				} else if !(iv >= *r.Minimum) {
					return false, "minimum"
				}
			}
			if r.Maximum != nil {
				if r.ExclusiveMax != nil && *r.ExclusiveMax {
					if !(iv < *r.Maximum) {
						return false, "exclusiveMaximum"
					}
				} else if !(iv <= *r.Maximum) {
					return false, "maximum"
				}
			}
		}
	case "enum":
		n := *c.Enum
		if n < 0 || int(n) > len(enumOptions) {
			return false, "defined_only"
		}
		if r != nil {
			name := "UNSPECIFIED"
			if n > 0 {
				name = enumOptions[n-1]
			}
			if len(r.In) > 0 {
				ok := false
				for _, x := range r.In {
					if x == name {
						ok = true
					}
				}
				if !ok {
					return false, "in"
				}
			}
			for _, x := range r.NotIn {
				if x == name {
					return false, "notIn"
				}
			}
		}
	}
	return true, ""
}

func isZero(t *j5sgen.Type, c cand) bool {
	switch {
	case c.S != nil:
		return *c.S == ""
	case c.I != nil:
		return *c.I == 0
	case c.U != nil:
		return *c.U == 0
	case c.B != nil:
		return !*c.B
	case c.Bytes != nil:
		return *c.Bytes == ""
	case c.Enum != nil:
		return *c.Enum == 0
	}
	return false
}

// expected verdict for the whole field.
func expected(f *j5sgen.Field, c cand) (bool, string) {
	t := f.Type
	if t.Kind == "map" {
		// values are stored under the keys k0, k1, ...: n distinct pairs
		n := uint64(len(c.Items))
		if c.Absent {
			n = 0
		}
		if f.Required && n == 0 {
			return false, "required"
		}
		if r := t.Rules; r != nil {
			if r.MinPairs != nil && n < *r.MinPairs {
				return false, "minPairs"
			}
			if r.MaxPairs != nil && n > *r.MaxPairs {
				return false, "maxPairs"
			}
		}
		for _, it := range c.Items {
			if ok, why := satisfies(t.Items, it); !ok {
				return false, "values." + why
			}
		}
		return true, ""
	}
	if t.Kind == "array" {
		n := uint64(len(c.Items))
		if c.Absent {
			n = 0
		}
		if f.Required && n == 0 {
			return false, "required"
		}
		if r := t.Rules; r != nil {
			if r.MinItems != nil && n < *r.MinItems {
				return false, "minItems"
			}
			if r.MaxItems != nil && n > *r.MaxItems {
				return false, "maxItems"
			}
			if r.Unique != nil && *r.Unique {
				seen := map[string]bool{}
				for _, it := range c.Items {
					it.Note = ""
					k, _ := json.Marshal(it)
					if seen[string(k)] {
						return false, "uniqueItems"
					}
					seen[string(k)] = true
				}
			}
		}
		for _, it := range c.Items {
			if ok, why := satisfies(t.Items, it); !ok {
				return false, "items." + why
			}
		}
		return true, ""
	}
	hasPresence := f.Optional
	if c.Absent {
		if f.Required {
			return false, "required"
		}
		if hasPresence {
			return true, "" // no value, nothing to check
		}
		// proto3 field without presence: absent is the zero value
		return satisfies(t, zeroCand(t))
	}
	if f.Required && !hasPresence && isZero(t, c) {
		return false, "required"
	}
	return satisfies(t, c)
}

func zeroCand(t *j5sgen.Type) cand {
	z := ""
	switch t.Kind {
	case "string", "key":
		return cand{S: &z}
	case "bytes":
		return cand{Bytes: &z}
	case "bool":
		b := false
		return cand{B: &b}
	case "integer":
		if strings.HasPrefix(t.Format, "U") {
			u := uint64(0)
			return cand{U: &u}
		}
		i := int64(0)
		return cand{I: &i}
	case "enum":
		e := int32(0)
		return cand{Enum: &e}
	}
	return cand{}
}

func setValue(msg protoreflect.Message, fd protoreflect.FieldDescriptor, t *j5sgen.Type, c cand) error {
	val, err := toValue(fd, t, c)
	if err != nil {
		return err
	}
	msg.Set(fd, val)
	return nil
}

func toValue(fd protoreflect.FieldDescriptor, t *j5sgen.Type, c cand) (protoreflect.Value, error) {
	switch t.Kind {
	case "string", "key":
		return protoreflect.ValueOfString(*c.S), nil
	case "bytes":
		var b []byte
		fmt.Sscanf(*c.Bytes, "%x", &b)
		return protoreflect.ValueOfBytes(b), nil
	case "bool":
		return protoreflect.ValueOfBool(*c.B), nil
	case "integer":
		switch t.Format {
		case "INT32":
			return protoreflect.ValueOfInt32(int32(*c.I)), nil
		case "INT64":
			return protoreflect.ValueOfInt64(*c.I), nil
		case "UINT32":
			return protoreflect.ValueOfUint32(uint32(*c.U)), nil
		default:
			return protoreflect.ValueOfUint64(*c.U), nil
		}
	case "enum":
		return protoreflect.ValueOfEnum(protoreflect.EnumNumber(*c.Enum)), nil
	}
	return protoreflect.Value{}, fmt.Errorf("unsupported kind %s", t.Kind)
}

func check(c valCase) (fails []vf.Failure, accepted, rejected int) {
	var fields []*j5sgen.Field
	for i, sb := range c.Siblings {
		if i == c.Before {
			fields = append(fields, c.Field)
		}
		fields = append(fields, sb.Field)
	}
	if c.Before >= len(c.Siblings) {
		fields = append(fields, c.Field)
	}
	decl := &j5sgen.Decl{Object: &j5sgen.Object{Name: "Holder", Fields: fields}}
	if c.InOneof {
		fields = []*j5sgen.Field{c.Field, {Name: "other", Type: &j5sgen.Type{Kind: "string"}}}
		decl = &j5sgen.Decl{Oneof: &j5sgen.Oneof{Name: "Holder", Options: fields}}
	}
	b := &j5sgen.Bundle{Packages: []*j5sgen.Package{{Name: "rule.check.v1", Files: []*j5sgen.File{{Path: "rule/check/v1/main.j5s", Decls: []*j5sgen.Decl{decl}}}}}}
	src := &j5sx.Bundle{Files: b.Render()}
	var files linker.Files
	var err error
	if f := vf.GuardTimed("CompilePackage", callLimit, func() { files, err = j5sx.Compile(src, "rule.check.v1") }); f != nil {
		return []vf.Failure{*f}, 0, 0
	}
	if err != nil {
		refused := boundBeyondType(c.Field)
		for _, sb := range c.Siblings {
			refused = refused || boundBeyondType(sb.Field)
		}
		if refused {
			// a bound the field's type cannot hold: refusing the declaration is a
			// sound answer (compiling it to a different bound is not)
			return nil, 0, 0
		}
		return []vf.Failure{vf.Failf("compile|error", "declaration does not compile (C07's verdict): %v\n%s", err, src.Files["rule/check/v1/main.j5s"])}, 0, 0
	}
	md := files[0].Messages().ByName("Holder")
	if md == nil || md.Fields().Len() != len(fields) {
		return []vf.Failure{vf.Failf("harness|shape", "compiled message not found")}, 0, 0
	}
	fd := md.Fields().ByJSONName(c.Field.Name)
	if fd == nil {
		return []vf.Failure{vf.Failf("harness|shape", "compiled subject field not found")}, 0, 0
	}
	validator, err := protovalidate.New()
	if err != nil {
		return []vf.Failure{vf.Failf("harness|validator", "%v", err)}, 0, 0
	}
	ruleSig := ruleSignature(c.Field)
	for _, cd := range c.Cands {
		msg := dynamicpb.NewMessage(md)
		if c.InOneof && cd.Absent {
			msg.Set(md.Fields().ByJSONName("other"), protoreflect.ValueOfString("x"))
		}
		for _, sb := range c.Siblings {
			if sb.Value.Absent {
				continue
			}
			if err := setValue(msg, md.Fields().ByJSONName(sb.Field.Name), sb.Field.Type, sb.Value); err != nil {
				return []vf.Failure{vf.Failf("harness|value", "sibling: %v", err)}, 0, 0
			}
		}
		if !cd.Absent {
			if c.Field.Type.Kind == "map" {
				m := msg.Mutable(fd).Map()
				for i, it := range cd.Items {
					v, err := toValue(fd.MapValue(), c.Field.Type.Items, it)
					if err != nil {
						return []vf.Failure{vf.Failf("harness|value", "%v", err)}, 0, 0
					}
					m.Set(protoreflect.ValueOfString(fmt.Sprintf("k%d", i)).MapKey(), v)
				}
			} else if c.Field.Type.Kind == "array" {
				l := msg.Mutable(fd).List()
				for _, it := range cd.Items {
					v, err := toValue(fd, c.Field.Type.Items, it)
					if err != nil {
						return []vf.Failure{vf.Failf("harness|value", "%v", err)}, 0, 0
					}
					l.Append(v)
				}
			} else if err := setValue(msg, fd, c.Field.Type, cd); err != nil {
				return []vf.Failure{vf.Failf("harness|value", "%v", err)}, 0, 0
			}
		}
		subject := c.Field
		if c.InOneof {
			// a oneof member has presence of its own
			withPresence := *c.Field
			withPresence.Optional = true
			subject = &withPresence
		}
		want, why := expected(subject, cd)
		var verr error
		if f := vf.GuardTimed("Validate", callLimit, func() { verr = validator.Validate(msg) }); f != nil {
			fails = append(fails, *f)
			continue
		}
		if _, isCompile := verr.(*protovalidate.CompilationError); isCompile {
			fails = append(fails, vf.Failf("constraints|do-not-compile|"+ruleSig, "the compiled constraints are not valid for protovalidate: %v\n%s", verr, src.Files["rule/check/v1/main.j5s"]))
			break
		}
		got := verr == nil
		if want {
			accepted++
		} else {
			rejected++
		}
		if got != want {
			dir := "rejects-allowed"
			if got {
				dir = "accepts-forbidden"
			}
			cj, _ := json.Marshal(cd)
			if on := violatedField(verr); !got && on != "" && on != string(fd.Name()) {
				// the value that was refused is a sibling's, which its own rules accept
				dir = "rejects-allowed-sibling"
			}
			fails = append(fails, vf.Failf("verdict|"+dir+"|"+ruleSig+firstNonEmpty(why, reasonOf(verr)), "value %s: rules say accept=%v (%s), validator says accept=%v (%v)\n%s", cj, want, why, got, verr, src.Files["rule/check/v1/main.j5s"]))
		}
	}
	return dedupe(fails), accepted, rejected
}

func firstNonEmpty(a, b string) string {
	if a != "" {
		return "|" + a
	}
	if b != "" {
		return "|" + b
	}
	return ""
}

func reasonOf(err error) string {
	if ve, ok := err.(*protovalidate.ValidationError); ok && len(ve.Violations) > 0 {
		return "validator:" + ve.Violations[0].Proto.GetConstraintId()
	}
	return ""
}

// boundBeyondType: an integer bound outside the range of the field's own type.
func boundBeyondType(f *j5sgen.Field) bool {
	t := f.Type
	if t.Items != nil {
		t = t.Items
	}
	if t.Kind != "integer" || t.Rules == nil {
		return false
	}
	lo, hi := int64(math.MinInt64), int64(math.MaxInt64)
	switch t.Format {
	case "INT32":
		lo, hi = math.MinInt32, math.MaxInt32
	case "UINT32":
		lo, hi = 0, math.MaxUint32
	case "UINT64":
		lo = 0
	}
	for _, b := range []*int64{t.Rules.Minimum, t.Rules.Maximum} {
		if b != nil && (*b < lo || *b > hi) {
			return true
		}
	}
	return false
}

func violatedField(err error) string {
	if ve, ok := err.(*protovalidate.ValidationError); ok && len(ve.Violations) > 0 {
		if els := ve.Violations[0].Proto.GetField().GetElements(); len(els) > 0 {
			return els[0].GetFieldName()
		}
	}
	return ""
}

// ruleSignature names the field kind and which rules are present (not their
// values), for finding keys.
func ruleSignature(f *j5sgen.Field) string {
	t := f.Type
	kind := t.Kind
	if t.Kind == "array" || t.Kind == "map" {
		kind = t.Kind + ":" + t.Items.Kind
	}
	if t.Kind == "integer" {
		kind += ":" + t.Format
	}
	return kind
}

func dedupe(fails []vf.Failure) []vf.Failure {
	seen := map[string]bool{}
	var out []vf.Failure
	for _, f := range fails {
		if !seen[f.Key] {
			seen[f.Key] = true
			out = append(out, f)
		}
	}
	return out
}

// ---------------------------------------------------------------------------
// generation

func sp(s string) *string { return &s }
func ip(i int64) *int64   { return &i }
func up(u uint64) *uint64 { return &u }
func bp(b bool) *bool     { return &b }
func ep(e int32) *int32   { return &e }

type pat struct {
	re       string
	match    []string
	nonMatch []string
}

var patterns = []pat{
	{"^[a-z]+$", []string{"a", "abc", "zzzzzzzz"}, []string{"", "A", "ab1", "a b", "é"}},
	{"^\\d{3}$", []string{"123", "000"}, []string{"12", "1234", "12a", ""}},
	{"^(x|y)z?$", []string{"x", "yz"}, []string{"z", "xy", "xzz", ""}},
	{"^[^/]+$", []string{"a", "é名", "a b"}, []string{"", "a/b", "/"}},
	{"^a.b$", []string{"axb", "a.b", "a名b"}, []string{"ab", "axxb", ""}},
}

func runesOfLen(n int, multibyte bool) string {
	r := "a"
	if multibyte {
		r = "名"
	}
	return strings.Repeat(r, n)
}

func drawLeaf(t *rapid.T, forArray bool) (*j5sgen.Type, []cand) {
	kinds := []string{"string", "string", "key", "integer", "integer", "bytes", "bool", "enum"}
	if forArray {
		kinds = []string{"string", "key", "integer", "enum"}
	}
	k := rapid.SampledFrom(kinds).Draw(t, "kind")
	ty := &j5sgen.Type{Kind: k}
	var cs []cand
	switch k {
	case "string":
		r := &j5sgen.Rules{}
		var p *pat
		if rapid.IntRange(0, 2).Draw(t, "haspattern") == 0 {
			pp := rapid.SampledFrom(patterns).Draw(t, "pattern")
			p = &pp
			r.Pattern = sp(p.re)
		}
		// length bounds combine freely with a pattern; a quarter of the time the two
		// bounds are equal (an exact length)
		if p == nil || rapid.Bool().Draw(t, "lengthwithpattern") {
			exact := rapid.IntRange(0, 3).Draw(t, "exactlength") == 0
			base := rapid.IntRange(0, 4).Draw(t, "min")
			if p != nil {
				// a length some witness of the pattern has, so that both verdicts occur
				w := rapid.SampledFrom(append(append([]string{}, p.match...), p.nonMatch...)).Draw(t, "lenwitness")
				base = utf8.RuneCountInString(w)
			}
			if exact || rapid.Bool().Draw(t, "hasmin") {
				r.MinLength = up(uint64(base))
			}
			switch {
			case exact:
				r.MaxLength = up(uint64(base))
			case rapid.Bool().Draw(t, "hasmax"):
				lo := 0
				if r.MinLength != nil {
					lo = int(*r.MinLength)
				}
				r.MaxLength = up(uint64(lo + rapid.IntRange(0, 4).Draw(t, "maxspan")))
			}
		}
		lens := map[int]bool{0: true, 1: true}
		if r.MinLength != nil {
			m := int(*r.MinLength)
			lens[m], lens[m+1] = true, true
			if m > 0 {
				lens[m-1] = true
			}
		}
		if r.MaxLength != nil {
			m := int(*r.MaxLength)
			lens[m], lens[m+1] = true, true
			if m > 0 {
				lens[m-1] = true
			}
		}
		if p == nil || r.MinLength != nil || r.MaxLength != nil {
			for n := range lens {
				cs = append(cs, cand{S: sp(runesOfLen(n, false))}, cand{S: sp(runesOfLen(n, true)), Note: "multi-byte runes"})
			}
		}
		if p != nil {
			for _, m := range p.match {
				cs = append(cs, cand{S: sp(m)})
			}
			for _, m := range p.nonMatch {
				cs = append(cs, cand{S: sp(m)})
			}
		}
		if !emptyRules(r) {
			ty.Rules = r
		}
	case "key":
		ty.Format = rapid.SampledFrom([]string{"id62", "uuid", "custom", "informal", ""}).Draw(t, "keyformat")
		if !forArray {
			switch rapid.IntRange(0, 5).Draw(t, "keyentity") {
			case 0:
				ty.KeyPrimaryFalse = true // said aloud that it is no primary key: implies nothing
			case 1:
				ty.KeyForeign = "rule.check.v1.Other"
			case 2:
				ty.KeyTenant = "account"
			}
		}
		switch ty.Format {
		case "id62":
			cs = append(cs, cand{S: sp("0123456789ABCDEFGHIJab")}, cand{S: sp("0123456789ABCDEFGHIJa")}, cand{S: sp("0123456789ABCDEFGHIJabc")}, cand{S: sp("0123456789ABCDEFGHIJ-b")}, cand{S: sp("")})
		case "uuid":
			cs = append(cs, cand{S: sp("123e4567-e89b-12d3-a456-426614174000")}, cand{S: sp("123e4567-e89b-12d3-a456-42661417400")}, cand{S: sp("not-a-uuid")}, cand{S: sp("123e4567e89b12d3a456426614174000x")}, cand{S: sp("")})
		case "custom":
			p := rapid.SampledFrom(patterns).Draw(t, "keypattern")
			ty.KeyPattern = p.re
			for _, m := range p.match {
				cs = append(cs, cand{S: sp(m)})
			}
			for _, m := range p.nonMatch {
				cs = append(cs, cand{S: sp(m)})
			}
		default:
			cs = append(cs, cand{S: sp("anything at all")}, cand{S: sp("")})
		}
	case "integer":
		ty.Format = rapid.SampledFrom([]string{"INT32", "INT64", "UINT32", "UINT64"}).Draw(t, "intformat")
		r := &j5sgen.Rules{}
		lo := int64(rapid.IntRange(0, 20).Draw(t, "lo"))
		hi := lo + int64(rapid.IntRange(0, 20).Draw(t, "span"))
		if rapid.IntRange(0, 5).Draw(t, "widebound") == 0 {
			// bounds at and beyond the edge of the 32-bit types: beyond it the
			// declaration may be refused, but not compiled to a bound that wrapped
			hi = rapid.SampledFrom([]int64{1<<31 - 1, 1 << 31, 1<<32 - 1, 1 << 32, 1<<32 + 5, 1 << 40}).Draw(t, "widehi")
			if rapid.Bool().Draw(t, "widelo") {
				lo = hi
			}
		}
		if rapid.Bool().Draw(t, "hasmin") {
			r.Minimum = &lo
			if rapid.Bool().Draw(t, "exminset") {
				r.ExclusiveMin = bp(rapid.Bool().Draw(t, "exmin"))
			}
		}
		if rapid.Bool().Draw(t, "hasmax") {
			r.Maximum = &hi
			if rapid.Bool().Draw(t, "exmaxset") {
				r.ExclusiveMax = bp(rapid.Bool().Draw(t, "exmax"))
			}
		}
		if !emptyRules(r) {
			ty.Rules = r
		}
		vals := map[int64]bool{0: true, 1: true}
		for _, b := range []int64{lo, hi} {
			vals[b], vals[b+1] = true, true
			if b > 0 {
				vals[b-1] = true
			}
		}
		unsigned := strings.HasPrefix(ty.Format, "U")
		top := int64(math.MaxInt64)
		switch ty.Format {
		case "INT32":
			top = math.MaxInt32
		case "UINT32":
			top = math.MaxUint32
		}
		vals[top], vals[top-1] = true, true
		var sorted []int64
		for v := range vals {
			if v <= top {
				sorted = append(sorted, v)
			}
		}
		sort.Slice(sorted, func(i, j int) bool { return sorted[i] < sorted[j] })
		for _, v := range sorted {
			if unsigned {
				cs = append(cs, cand{U: up(uint64(v))})
			} else {
				cs = append(cs, cand{I: ip(v)})
			}
		}
		if !unsigned {
			cs = append(cs, cand{I: ip(-1)})
		}
	case "bytes":
		r := &j5sgen.Rules{}
		if rapid.Bool().Draw(t, "hasmin") {
			r.MinLength = up(uint64(rapid.IntRange(0, 3).Draw(t, "min")))
		}
		if rapid.Bool().Draw(t, "hasmax") {
			lo := 0
			if r.MinLength != nil {
				lo = int(*r.MinLength)
			}
			r.MaxLength = up(uint64(lo + rapid.IntRange(0, 3).Draw(t, "maxspan")))
		}
		if !emptyRules(r) {
			ty.Rules = r
		}
		for n := 0; n <= 7; n++ {
			cs = append(cs, cand{Bytes: sp(strings.Repeat("ab", n))})
		}
	case "bool":
		if rapid.Bool().Draw(t, "hasconst") {
			ty.Rules = &j5sgen.Rules{Const: bp(rapid.Bool().Draw(t, "const"))}
		}
		cs = append(cs, cand{B: bp(true)}, cand{B: bp(false)})
	case "enum":
		e := &j5sgen.Enum{}
		for _, o := range enumOptions {
			e.Options = append(e.Options, &j5sgen.EnumOption{Name: o})
		}
		ty.InlineEnum = e
		// the zero option may be written out, and then be named by the rules too
		pool := enumOptions
		if rapid.Bool().Draw(t, "explicitzero") {
			e.ExplicitZero = &j5sgen.EnumOption{Name: "UNSPECIFIED"}
			pool = append([]string{"UNSPECIFIED"}, enumOptions...)
		}
		switch rapid.IntRange(0, 2).Draw(t, "enumrule") {
		case 0:
			ty.Rules = &j5sgen.Rules{In: rapid.SliceOfNDistinct(rapid.SampledFrom(pool), 1, 2, func(s string) string { return s }).Draw(t, "in")}
		case 1:
			ty.Rules = &j5sgen.Rules{NotIn: rapid.SliceOfNDistinct(rapid.SampledFrom(pool), 1, 2, func(s string) string { return s }).Draw(t, "notin")}
		}
		for n := int32(0); n <= 5; n++ {
			cs = append(cs, cand{Enum: ep(n)})
		}
	}
	return ty, cs
}

func emptyRules(r *j5sgen.Rules) bool {
	b, _ := json.Marshal(r)
	return string(b) == "{}"
}

func drawCase(t *rapid.T) valCase {
	f := &j5sgen.Field{Name: "subject"}
	if rapid.IntRange(0, 3).Draw(t, "isarray") == 0 {
		item, itemCands := drawLeaf(t, true)
		ty := &j5sgen.Type{Kind: "array", Items: item}
		r := &j5sgen.Rules{}
		if rapid.Bool().Draw(t, "minitems") {
			r.MinItems = up(uint64(rapid.IntRange(0, 2).Draw(t, "minitemsv")))
		}
		if rapid.Bool().Draw(t, "maxitems") {
			r.MaxItems = up(uint64(rapid.IntRange(1, 3).Draw(t, "maxitemsv")))
		}
		if rapid.Bool().Draw(t, "unique") {
			r.Unique = bp(rapid.Bool().Draw(t, "uniquev"))
		}
		if !emptyRules(r) {
			ty.Rules = r
		}
		f.Type = ty
		f.Required = rapid.IntRange(0, 2).Draw(t, "required") == 0
		var cs []cand
		cs = append(cs, cand{Absent: true}, cand{Items: []cand{}})
		for n := 1; n <= 4; n++ {
			items := make([]cand, n)
			for i := range items {
				items[i] = rapid.SampledFrom(itemCands).Draw(t, "item")
			}
			cs = append(cs, cand{Items: items})
		}
		// a duplicate pair and an all-valid list
		if len(itemCands) > 0 {
			cs = append(cs, cand{Items: []cand{itemCands[0], itemCands[0]}, Note: "duplicate"})
		}
		return valCase{Field: f, Cands: cs}
	}
	if rapid.IntRange(0, 4).Draw(t, "ismap") == 0 {
		item, itemCands := drawLeaf(t, true)
		ty := &j5sgen.Type{Kind: "map", Items: item}
		r := &j5sgen.Rules{}
		if rapid.Bool().Draw(t, "minpairs") {
			r.MinPairs = up(uint64(rapid.IntRange(0, 2).Draw(t, "minpairsv")))
		}
		if rapid.Bool().Draw(t, "maxpairs") {
			r.MaxPairs = up(uint64(rapid.IntRange(1, 3).Draw(t, "maxpairsv")))
		}
		if !emptyRules(r) {
			ty.Rules = r
		}
		f.Type = ty
		f.Required = rapid.IntRange(0, 2).Draw(t, "required") == 0
		cs := []cand{{Absent: true}, {Items: []cand{}}}
		for n := 1; n <= 4; n++ {
			items := make([]cand, n)
			for i := range items {
				items[i] = rapid.SampledFrom(itemCands).Draw(t, "value")
			}
			cs = append(cs, cand{Items: items})
		}
		return valCase{Field: f, Cands: cs}
	}
	ty, cs := drawLeaf(t, false)
	f.Type = ty
	switch rapid.IntRange(0, 3).Draw(t, "presence") {
	case 0:
		f.Required = true
	case 1:
		f.Optional = true
	}
	f.Style = rapid.IntRange(0, 1).Draw(t, "style")
	cs = append(cs, cand{Absent: true}, zeroCand(ty))
	return valCase{Field: f, Cands: cs}
}

// drawSiblings adds up to three scalar fields next to the subject, each with a
// value its rules accept (or absent where that is accepted).
func drawSiblings(t *rapid.T, c *valCase) {
	n := rapid.SampledFrom([]int{0, 0, 1, 2, 3}).Draw(t, "nsiblings")
	for i := 0; i < n; i++ {
		ty, cs := drawLeaf(t, false)
		if rapid.IntRange(0, 2).Draw(t, "samekind") != 2 && c.Field.Type.Kind != "array" && c.Field.Type.Kind != "map" {
			// the same kind and format as the subject, with its own presence
			ty = &j5sgen.Type{Kind: c.Field.Type.Kind, Format: c.Field.Type.Format, KeyPattern: c.Field.Type.KeyPattern, InlineEnum: c.Field.Type.InlineEnum, Ref: c.Field.Type.Ref}
			cs = c.Cands
		}
		f := &j5sgen.Field{Name: fmt.Sprintf("sib%d", i), Type: ty}
		switch rapid.IntRange(0, 2).Draw(t, "sibpresence") {
		case 0:
			f.Required = true
		case 1:
			f.Optional = true
		}
		cs = append(append([]cand{}, cs...), cand{Absent: true}, zeroCand(ty))
		var ok []cand
		for _, cd := range cs {
			if yes, _ := expected(f, cd); yes {
				ok = append(ok, cd)
			}
		}
		if len(ok) == 0 {
			continue
		}
		c.Siblings = append(c.Siblings, sibling{Field: f, Value: rapid.SampledFrom(ok).Draw(t, "sibvalue")})
	}
	if len(c.Siblings) > 0 {
		c.Before = rapid.IntRange(0, len(c.Siblings)).Draw(t, "before")
	}
}

func TestRules(t *testing.T) {
	r := vf.Start(t, prop, "rules")
	// the verdict on a declaration is a statement about that declaration alone
	// (state carried across compilations is C14's subject)
	r.ConfirmFresh()
	rapid.Check(t, func(t *rapid.T) {
		c := drawCase(t)
		if k := c.Field.Type.Kind; k != "array" && k != "map" && !c.Field.Optional && rapid.IntRange(0, 4).Draw(t, "inoneof") == 0 {
			c.InOneof = true
		} else {
			drawSiblings(t, &c)
		}
		fails, acc, rej := check(c)
		cls := []string{"kind:" + ruleSignature(c.Field)}
		if c.Field.Required {
			cls = append(cls, "required")
		}
		if c.Field.Optional {
			cls = append(cls, "optional")
		}
		if len(c.Siblings) > 0 {
			cls = append(cls, fmt.Sprintf("siblings:%d", len(c.Siblings)))
		}
		if c.InOneof {
			cls = append(cls, "subject-in-oneof")
			if c.Field.Required {
				cls = append(cls, "subject-in-oneof:required")
			}
		}
		if acc > 0 && rej > 0 {
			cls = append(cls, "both-verdicts")
		} else {
			cls = append(cls, "degenerate-declaration")
		}
		r.ClassN("candidate-values", len(c.Cands))
		r.Eval(acc > 0 && rej > 0, vf.Hash(c), cls...)
		if acc > 0 && rej > 0 && r.WantSample() {
			r.Sample(c)
		}
		r.Judge(t, c, fails)
	})
}
