package c07

import (
	"testing"

	"github.com/pentops/j5/internal/bcl/internal/verif/attrx"
	"github.com/pentops/j5/internal/bcl/internal/verif/vf"
	"pgregory.net/rapid"
)

// lane: every attribute the schema offers, in every block (generator: attrx).
// "Any source text" includes all of them; the oracle is totality and positioned
// errors. What becomes of the packages the compiler accepts is C05's and C16's
// business (their attribute lanes).
func TestAttributes(t *testing.T) {
	r := vf.Start(t, prop, "attributes")
	rapid.Check(t, func(t *rapid.T) {
		a, ok := attrx.Draw(t)
		if !ok {
			r.Discard()
			return
		}
		c := srcCase{Files: map[string]string{a.File: a.Text}, Valid: false, What: "attribute"}
		r.Eval(a.Depth > 0, vf.Hash(a.Text), a.Classes...)
		if a.Depth >= 2 && r.WantSample() {
			r.Sample(map[string]string{"block": a.BlockHead, "statement": a.Statement})
		}
		r.Journal(c)
		r.Judge(t, c, check(c))
	})
}
