package c07

import (
	"fmt"
	"regexp"
	"strings"
	"testing"

	"github.com/pentops/j5/internal/bcl/internal/verif/j5sgen"
	"github.com/pentops/j5/internal/bcl/internal/verif/j5sx"
	"github.com/pentops/j5/internal/bcl/internal/verif/vf"
	"pgregory.net/rapid"
)

// lane: every attribute the schema offers, in every block.
//
// The valid-program generator writes the attributes the README documents. The
// language definition (the sourcedef / schema messages the parser maps blocks
// onto) offers many more - listRequest on a method, query settings, ext blocks,
// protoField, ... - and "any source text" includes all of them. They are found
// the way a user finds them: an unknown attribute is written into a block of a
// valid file, and the parser's error lists what the block accepts; one of those
// names is then assigned (or probed one level deeper, up to three levels). The
// final text is the case; the oracle is totality and positioned errors.

var availRe = regexp.MustCompile(`(?:available: |expecting )\[([^\]]*)\]`)

// offered returns the attribute names the compiler's error offers for a probe.
func offered(text, file string) []string {
	b := &j5sx.Bundle{Files: map[string]string{file: text}}
	var err error
	if f := vf.Guard("probe", func() { _, err = j5sx.Compile(b, j5sx.PackageOf(file)) }); f != nil || err == nil {
		return nil
	}
	m := availRe.FindAllStringSubmatch(err.Error(), -1)
	seen := map[string]bool{}
	var out []string
	for _, g := range m {
		for _, n := range strings.Fields(g[1]) {
			n = strings.Trim(n, `"`)
			if n != "" && !seen[n] {
				seen[n] = true
				out = append(out, n)
			}
		}
	}
	return out
}

var attrValues = []string{`"x"`, `""`, `5`, `0`, `-1`, `1.5`, `true`, `false`, `["a"]`, `["a", "b"]`, `[1, 2]`, `[]`, `name`, `alpha.beta.v1.Thing`, `"alpha.beta.v1.Thing"`, `GET`, `"😀"`, `99999999999999999999`}

func insertAfter(lines []string, at int, line string) string {
	out := append(append(append([]string(nil), lines[:at+1]...), line), lines[at+1:]...)
	return strings.Join(out, "\n")
}

func TestAttributes(t *testing.T) {
	r := vf.Start(t, prop, "attributes")
	rapid.Check(t, func(t *rapid.T) {
		o := j5sgen.DefaultOpts()
		o.MaxPackages, o.MaxFiles = 1, 1
		o.Entities = true
		b, _ := j5sgen.Draw(t, o)
		var file, text string
		for k, v := range b.Render() {
			file, text = k, v
		}
		lines := strings.Split(text, "\n")
		var opens []int
		for i, l := range lines {
			if strings.HasSuffix(strings.TrimSpace(l), "{") {
				opens = append(opens, i)
			}
		}
		if len(opens) == 0 {
			r.Discard()
			return
		}
		// by kind first: fields and objects outnumber everything else
		byKind := map[string][]int{}
		var kinds []string
		for _, i := range opens {
			k := strings.Fields(lines[i])[0]
			if byKind[k] == nil {
				kinds = append(kinds, k)
			}
			byKind[k] = append(byKind[k], i)
		}
		blockKind := rapid.SampledFrom(kinds).Draw(t, "blockkind")
		at := rapid.SampledFrom(byKind[blockKind]).Draw(t, "block")
		indent := lines[at][:len(lines[at])-len(strings.TrimLeft(lines[at], "\t "))] + "\t"
		path := ""
		depth := 0
		for depth < 3 {
			probe := "zzzProbe"
			if path != "" {
				probe = path + ".zzzProbe"
			}
			names := offered(insertAfter(lines, at, indent+probe+" = 1"), file)
			if len(names) == 0 {
				break
			}
			n := rapid.SampledFrom(names).Draw(t, "attr")
			if path == "" {
				path = n
			} else {
				path += "." + n
			}
			depth++
			if rapid.IntRange(0, 2).Draw(t, "deeper") == 0 {
				break // otherwise one level deeper, while the parser offers names
			}
		}
		if path == "" {
			// the block offers nothing (or the probe was accepted): any name
			path = rapid.SampledFrom([]string{"description", "name", "options", "rules", "ext", "zzz"}).Draw(t, "anyattr")
		}
		var stmt string
		switch rapid.IntRange(0, 5).Draw(t, "form") {
		case 0: // as a block
			stmt = indent + path + " {\n" + indent + "}"
		case 1: // as a bare flag / tag
			stmt = indent + path
		default:
			stmt = indent + path + " = " + rapid.SampledFrom(attrValues).Draw(t, "value")
		}
		final := insertAfter(lines, at, stmt)
		c := srcCase{Files: map[string]string{file: final}, Valid: false, What: "attribute"}
		first := path
		if i := strings.Index(path, "."); i >= 0 {
			first = path[:i]
		}
		r.Eval(depth > 0, vf.Hash(final), "block:"+blockKind, fmt.Sprintf("depth:%d", depth), "attr:"+first)
		if depth >= 2 && r.WantSample() {
			r.Sample(map[string]string{"block": strings.TrimSpace(lines[at]), "statement": strings.TrimSpace(stmt)})
		}
		r.Journal(c)
		r.Judge(t, c, check(c))
	})
}
