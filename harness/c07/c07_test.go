package c07

import (
	"context"
	"encoding/json"
	"fmt"
	"sort"
	"strings"
	"testing"
	"time"

	"github.com/bufbuild/protocompile/linker"
	"github.com/pentops/j5/internal/bcl/errpos"
	"github.com/pentops/j5/internal/bcl/internal/verif/bclgen"
	"github.com/pentops/j5/internal/bcl/internal/verif/j5sgen"
	"github.com/pentops/j5/internal/bcl/internal/verif/j5sx"
	"github.com/pentops/j5/internal/bcl/internal/verif/vf"
	"github.com/pentops/j5/internal/j5s/protobuild"
	"pgregory.net/rapid"
)

const prop = "C07"

// srcCase: a bundle as source texts; Valid says whether it is inside the
// documented language (must be accepted) or arbitrary (must not crash).
type srcCase struct {
	Files map[string]string `json:"files"`
	Valid bool              `json:"valid"`
	What  string            `json:"what,omitempty"`
}

func laneCase(raw json.RawMessage) ([]vf.Failure, error) {
	var c srcCase
	if err := json.Unmarshal(raw, &c); err != nil {
		return nil, err
	}
	return check(c), nil
}

var lanes = map[string]vf.LaneFunc{"accept": laneCase, "matrix": laneCase, "garbage": laneCase, "semantic": laneCase, "fuzz": laneCase, "attributes": laneCase}

func TestReplay(t *testing.T) {
	if !vf.RunReplayMode(t, prop, lanes) {
		t.Skip("no VERIF_REPLAY")
	}
}

func TestWitness(t *testing.T) { vf.Witnesses(t, prop, lanes) }

const callLimit = 60 * time.Second

func lineCount(s string) []int {
	lines := strings.Split(s, "\n")
	out := make([]int, len(lines))
	for i, l := range lines {
		out[i] = len([]rune(l))
	}
	return out
}

// positionsOK: the error chain carries at least one position, and every position
// that names a file of the bundle lies inside that file.
func positionsOK(err error, files map[string]string) (ok bool, why string) {
	var errs errpos.Errors
	if ews, isE := errpos.AsErrorsWithSource(err); isE {
		errs = ews.Errors
	} else if es, isE := errpos.AsErrors(err); isE {
		errs = es
	}
	n := 0
	for _, e := range errs {
		if e.Pos == nil {
			continue
		}
		n++
		var text string
		found := false
		if e.Pos.Filename != nil {
			text, found = files[*e.Pos.Filename]
			if !found {
				text, found = files[strings.TrimSuffix(*e.Pos.Filename, ".proto")]
			}
		} else if len(files) == 1 {
			for _, v := range files {
				text, found = v, true
			}
		}
		if !found {
			continue
		}
		lens := lineCount(text)
		for _, p := range []errpos.Point{e.Pos.Start, e.Pos.End} {
			if p.Line < 0 && p.Column < 0 {
				continue // "empty" point
			}
			if p.Line < 0 || p.Line >= len(lens) || p.Column < 0 || p.Column > lens[p.Line] {
				return false, fmt.Sprintf("position %d:%d outside file (%d lines)", p.Line+1, p.Column+1, len(lens))
			}
		}
	}
	if n == 0 {
		return false, "no position"
	}
	return true, ""
}

func packagesOf(files map[string]string) []string {
	seen := map[string]bool{}
	var out []string
	for f := range files {
		p := j5sx.PackageOf(f)
		if !seen[p] {
			seen[p] = true
			out = append(out, p)
		}
	}
	sort.Strings(out)
	return out
}

func check(c srcCase) (fails []vf.Failure) {
	b := &j5sx.Bundle{Files: c.Files}
	for _, pkg := range packagesOf(c.Files) {
		var files linker.Files
		var err error
		if f := vf.GuardTimed("CompilePackage", callLimit, func() { files, err = j5sx.Compile(b, pkg) }); f != nil {
			f.Detail += "\n" + dump(c)
			fails = append(fails, *f)
			continue
		}
		if err != nil {
			if c.Valid {
				fails = append(fails, vf.Failf("reject|"+c.What+"|"+vf.ErrClass(err), "package %s inside the documented language is rejected: %v\n%s", pkg, err, dump(c)))
			} else if ok, why := positionsOK(err, c.Files); !ok {
				fails = append(fails, vf.Failf("unpositioned|"+why+"|"+stageOf(err), "CompilePackage(%s) error without a usable position (%s): %v\n%s", pkg, why, err, dump(c)))
			}
			continue
		}
		_ = files
	}
	if !c.Valid {
		// the lint / LSP path over the same sources
		ps, err := j5sx.NewSet(b)
		if err == nil {
			for name, text := range c.Files {
				if f := vf.GuardTimed("LintFile", callLimit, func() { _, _ = protobuild.LintFile(context.Background(), ps, name, text) }); f != nil {
					f.Detail += "\n" + dump(c)
					fails = append(fails, *f)
				}
			}
			if f := vf.GuardTimed("LintAll", callLimit, func() { _, _ = protobuild.LintAll(context.Background(), ps) }); f != nil {
				f.Detail += "\n" + dump(c)
				fails = append(fails, *f)
			}
		}
	}
	return fails
}

// stageOf names the pipeline stage an error came from, so that unpositioned
// errors are keyed by stage rather than by message text.
func stageOf(err error) string {
	msg := err.Error()
	switch {
	case strings.Contains(msg, "link:") || strings.Contains(msg, "descriptorToFile") || strings.HasPrefix(msg, "resolve file"):
		return "link"
	case strings.Contains(msg, "loadExternalPackage") || strings.Contains(msg, "resolveDependencies") || strings.Contains(msg, "no files for package") || strings.Contains(msg, "circular dependency"):
		return "load"
	}
	for _, marker := range []string{"at elements.", "at service ", "at topic ", "at property ", "schema error", "walker: "} {
		if strings.Contains(msg, marker) {
			return "sourcewalk"
		}
	}
	return "parse-or-convert"
}

func dump(c srcCase) string {
	var names []string
	for n := range c.Files {
		names = append(names, n)
	}
	sort.Strings(names)
	var sb strings.Builder
	for _, n := range names {
		fmt.Fprintf(&sb, "--- %s ---\n%s\n", n, c.Files[n])
	}
	s := sb.String()
	if len(s) > 3000 {
		s = s[:3000] + "…"
	}
	return s
}

// ---------------------------------------------------------------------------
// lane: every generated bundle is accepted

func TestAccept(t *testing.T) {
	r := vf.Start(t, prop, "accept")
	rapid.Check(t, func(t *rapid.T) {
		o := j5sgen.DefaultOpts()
		o.Mask = mask(r)
		o.Entities = true // "services, topics, entities": all of the documented language
		o.OddMethodNames = true
		b, classes := j5sgen.Draw(t, o)
		c := srcCase{Files: b.Render(), Valid: true, What: "generated"}
		cls := []string{}
		for k := range classes {
			cls = append(cls, k)
		}
		r.Eval(true, vf.Hash(c.Files), cls...)
		if len(c.Files) == 1 && r.WantSample() {
			r.Sample(c)
		}
		r.Journal(c)
		r.Judge(t, c, check(c))
	})
}

// ---------------------------------------------------------------------------
// lane: structurally valid bundles with one semantic error injected in the model

func firstObject(b *j5sgen.Bundle) (*j5sgen.Package, *j5sgen.File, *j5sgen.Object) {
	for _, p := range b.Packages {
		for _, f := range p.Files {
			for _, d := range f.Decls {
				if d.Object != nil {
					return p, f, d.Object
				}
			}
		}
	}
	return nil, nil, nil
}

// fieldSlots lists every place of a bundle that holds fields, with a label: a
// faulty field may sit in any of them.
type fieldSlot struct {
	where  string
	fields *[]*j5sgen.Field
	oneof  bool // options of a oneof: only object-typed members are grammatical
}

func fieldSlots(b *j5sgen.Bundle) []fieldSlot {
	var out []fieldSlot
	var inline func(where string, fs *[]*j5sgen.Field)
	inline = func(where string, fs *[]*j5sgen.Field) {
		for _, f := range *fs {
			t := f.Type
			if t.Items != nil {
				t = t.Items
			}
			switch {
			case t.InlineObject != nil:
				out = append(out, fieldSlot{where: "inline-object", fields: &t.InlineObject.Fields})
				inline(where, &t.InlineObject.Fields)
			case t.InlineOneof != nil:
				out = append(out, fieldSlot{where: "inline-oneof", fields: &t.InlineOneof.Options, oneof: true})
			}
		}
	}
	for _, p := range b.Packages {
		for _, f := range p.Files {
			for _, d := range f.Decls {
				switch {
				case d.Object != nil:
					out = append(out, fieldSlot{where: "object", fields: &d.Object.Fields})
					inline("object", &d.Object.Fields)
					for _, n := range d.Object.Nested {
						out = append(out, fieldSlot{where: "nested-object", fields: &n.Fields})
					}
				case d.Oneof != nil:
					out = append(out, fieldSlot{where: "oneof", fields: &d.Oneof.Options, oneof: true})
				case d.Service != nil:
					for _, m := range d.Service.Methods {
						out = append(out, fieldSlot{where: "request", fields: &m.Request})
						if !m.NoResponse {
							out = append(out, fieldSlot{where: "response", fields: &m.Response})
						}
					}
				case d.Topic != nil:
					for _, m := range d.Topic.Messages {
						out = append(out, fieldSlot{where: "topic-message", fields: &m.Fields})
					}
					if d.Topic.Request != nil {
						out = append(out, fieldSlot{where: "topic-request", fields: &d.Topic.Request.Fields})
						out = append(out, fieldSlot{where: "topic-reply", fields: &d.Topic.Reply.Fields})
					}
				case d.Entity != nil:
					out = append(out, fieldSlot{where: "entity-data", fields: &d.Entity.Data})
					for _, ev := range d.Entity.Events {
						out = append(out, fieldSlot{where: "entity-event", fields: &ev.Fields})
					}
					for _, sm := range d.Entity.Summaries {
						out = append(out, fieldSlot{where: "entity-summary", fields: &sm.Fields})
					}
				}
			}
		}
	}
	return out
}

// injectFaultyField puts one field with a semantic error into a random field slot.
func injectFaultyField(t *rapid.T, b *j5sgen.Bundle) string {
	slots := fieldSlots(b)
	if len(slots) == 0 {
		return ""
	}
	sl := slots[rapid.IntRange(0, len(slots)-1).Draw(t, "slot")]
	wrap := func(ty *j5sgen.Type) *j5sgen.Type {
		switch rapid.IntRange(0, 3).Draw(t, "faultcontainer") {
		case 0:
			return &j5sgen.Type{Kind: "array", Items: ty}
		case 1:
			return &j5sgen.Type{Kind: "map", Items: ty}
		}
		return ty
	}
	var fl *j5sgen.Field
	var what string
	k := rapid.IntRange(0, 5).Draw(t, "faultkind")
	if sl.oneof && k > 2 {
		k = k % 3
	}
	switch k {
	case 0:
		fl, what = &j5sgen.Field{Name: "ghost", Type: wrap(&j5sgen.Type{Kind: "object", Ref: &j5sgen.Ref{Name: "NoSuchType"}})}, "unknown-object"
	case 1:
		fl, what = &j5sgen.Field{Name: "ghost", Type: wrap(&j5sgen.Type{Kind: "object", Ref: &j5sgen.Ref{Package: "zeta.eta.v1", Name: "Elsewhere", Spelling: "full"}})}, "unimported-object"
	case 2:
		// an enum referenced as an object / an object as an enum: whichever the bundle has
		fl, what = &j5sgen.Field{Name: "ghost", Type: wrap(&j5sgen.Type{Kind: "object", Ref: &j5sgen.Ref{Name: "NoSuchType"}, Flatten: true})}, "unknown-object-flattened"
	case 3:
		fl, what = &j5sgen.Field{Name: "ghost", Type: wrap(&j5sgen.Type{Kind: "enum", Ref: &j5sgen.Ref{Name: "NoSuchEnum"}})}, "unknown-enum"
	case 4:
		fl, what = &j5sgen.Field{Name: "ghost", Type: wrap(&j5sgen.Type{Kind: "oneof", Ref: &j5sgen.Ref{Name: "NoSuchOneof"}})}, "unknown-oneof"
	default:
		fl = &j5sgen.Field{Name: "ghost", Type: &j5sgen.Type{Kind: "string"}}
		fl.Required, fl.Optional, fl.Style = true, true, 1
		what = "required-and-optional"
	}
	if what == "unknown-object-flattened" && fl.Type.Kind != "object" {
		fl.Type.Items.Flatten = false
		what = "unknown-object"
	}
	// not always last: the walker must survive the fault and go on
	at := rapid.IntRange(0, len(*sl.fields)).Draw(t, "faultat")
	fs := append([]*j5sgen.Field{}, (*sl.fields)[:at]...)
	fs = append(fs, fl)
	fs = append(fs, (*sl.fields)[at:]...)
	*sl.fields = fs
	return "field:" + what + "@" + sl.where
}

func injectSemantic(t *rapid.T, b *j5sgen.Bundle) string {
	if rapid.Bool().Draw(t, "faultyfield") {
		if w := injectFaultyField(t, b); w != "" {
			return w
		}
	}
	p, f, obj := firstObject(b)
	if obj == nil {
		return ""
	}
	str := func(n string) *j5sgen.Field { return &j5sgen.Field{Name: n, Type: &j5sgen.Type{Kind: "string"}} }
	switch rapid.IntRange(0, 10).Draw(t, "semantic") {
	case 0: // two files of one package referring to each other
		other := &j5sgen.File{Path: strings.TrimSuffix(f.Path, ".j5s") + "_peer.j5s", Decls: []*j5sgen.Decl{{Object: &j5sgen.Object{Name: "PeerThing", Fields: []*j5sgen.Field{
			{Name: "back", Type: &j5sgen.Type{Kind: "object", Ref: &j5sgen.Ref{Name: obj.Name}}}}}}}}
		p.Files = append(p.Files, other)
		obj.Fields = append(obj.Fields, &j5sgen.Field{Name: "peerRef", Type: &j5sgen.Type{Kind: "object", Ref: &j5sgen.Ref{Name: "PeerThing"}}})
		return "cross-file-cycle"
	case 1:
		obj.Fields = append(obj.Fields, &j5sgen.Field{Name: "ghost", Type: &j5sgen.Type{Kind: "object", Ref: &j5sgen.Ref{Name: "NoSuchType"}}})
		return "unknown-type"
	case 2:
		f.Decls = append(f.Decls, &j5sgen.Decl{Object: &j5sgen.Object{Name: obj.Name, Fields: []*j5sgen.Field{str("dup")}}})
		return "duplicate-type-name"
	case 3:
		obj.Fields = append(obj.Fields, str("twice"), str("twice"))
		return "duplicate-field-name"
	case 4:
		fl := str("both")
		fl.Required, fl.Optional, fl.Style = true, true, 1
		obj.Fields = append(obj.Fields, fl)
		return "required-and-optional"
	case 5:
		f.Decls = append(f.Decls, &j5sgen.Decl{Service: &j5sgen.Service{Name: "BrokenPath", Methods: []*j5sgen.Method{{Name: "GetBroken", HTTPMethod: "GET", HTTPPath: "/x/:missingParam", Request: []*j5sgen.Field{str("present")}, Response: nil}}}})
		return "path-parameter-not-in-request"
	case 6:
		obj.Fields = append(obj.Fields, &j5sgen.Field{Name: "foreignRef", Type: &j5sgen.Type{Kind: "object", Ref: &j5sgen.Ref{Package: "zeta.eta.v1", Name: "Elsewhere", Spelling: "full"}}})
		return "reference-without-import"
	case 7:
		obj.Fields = append(obj.Fields, &j5sgen.Field{Name: "badEnum", Type: &j5sgen.Type{Kind: "enum", InlineEnum: &j5sgen.Enum{Options: []*j5sgen.EnumOption{{Name: "A"}}}, Rules: &j5sgen.Rules{In: []string{"NOPE"}}}})
		return "enum-rule-unknown-option"
	case 8:
		f.Decls = append(f.Decls, &j5sgen.Decl{Oneof: &j5sgen.Oneof{Name: "ScalarArms", Options: []*j5sgen.Field{str("text")}}})
		return "oneof-scalar-option"
	case 9:
		f.Imports = append(f.Imports, &j5sgen.Import{Package: "zeta.eta.v1"})
		return "import-of-missing-package"
	default:
		f.Decls = append(f.Decls, &j5sgen.Decl{Enum: &j5sgen.Enum{Name: "EmptyEnum"}}, &j5sgen.Decl{Oneof: &j5sgen.Oneof{Name: "EmptyOneof"}},
			&j5sgen.Decl{Topic: &j5sgen.Topic{Name: "EmptyTopic", Kind: "publish"}})
		return "empty-declarations"
	}
}

func TestSemantic(t *testing.T) {
	r := vf.Start(t, prop, "semantic")
	rapid.Check(t, func(t *rapid.T) {
		o := j5sgen.DefaultOpts()
		o.Mask = mask(r)
		o.Entities = true
		b, _ := j5sgen.Draw(t, o)
		what := injectSemantic(t, b)
		if what == "" {
			r.Discard()
			return
		}
		c := srcCase{Files: b.Render(), Valid: false, What: what}
		cls := []string{"semantic:" + what}
		if i := strings.Index(what, "@"); i > 0 {
			cls = []string{"semantic:" + what[:i], "semantic-at:" + what[i+1:]}
		}
		r.Eval(true, vf.Hash(c.Files), cls...)
		if r.WantSample() {
			r.Sample(map[string]any{"error": what, "files": len(c.Files)})
		}
		r.Journal(c)
		r.Judge(t, c, check(c))
	})
}

// mask: generator features excluded by construction because an open finding
// would otherwise stop every case (DESIGN.md §1.6). Derived from the findings file.
func mask(r *vf.Run) map[string]bool {
	m := map[string]bool{}
	for _, f := range vf.LoadFindings(r.Root) {
		if f.Property == prop && f.Status == "open" && strings.HasPrefix(f.Key, "reject|matrix:") {
			// key form: reject|matrix:<feature>|...
			feat := strings.SplitN(strings.TrimPrefix(f.Key, "reject|matrix:"), "|", 2)[0]
			m[feat] = true
		}
	}
	return m
}

// ---------------------------------------------------------------------------
// lane: isolation matrix, enumerated completely

type cell struct {
	feature string
	field   *j5sgen.Field
	extra   []*j5sgen.Decl // declarations needed by references; placed in a second file
}

func p[T any](v T) *T { return &v }

func matrixCells() []cell {
	var cells []cell
	type base struct {
		name  string
		ty    func() *j5sgen.Type
		rules map[string]func(*j5sgen.Type)
		extra func() []*j5sgen.Decl
	}
	intRules := map[string]func(*j5sgen.Type){
		"rules.minimum":          func(t *j5sgen.Type) { t.Rules = &j5sgen.Rules{Minimum: p(int64(1))} },
		"rules.maximum":          func(t *j5sgen.Type) { t.Rules = &j5sgen.Rules{Maximum: p(int64(10))} },
		"rules.exclusiveMinimum": func(t *j5sgen.Type) { t.Rules = &j5sgen.Rules{Minimum: p(int64(1)), ExclusiveMin: p(true)} },
		"rules.exclusiveMaximum": func(t *j5sgen.Type) { t.Rules = &j5sgen.Rules{Maximum: p(int64(10)), ExclusiveMax: p(false)} },
		"listRules.filtering":    func(t *j5sgen.Type) { t.List = &j5sgen.ListRules{Filterable: p(true)} },
		"listRules.sorting":      func(t *j5sgen.Type) { t.List = &j5sgen.ListRules{Sortable: p(true)} },
	}
	strRange := map[string]func(*j5sgen.Type){
		"rules.minimum":          func(t *j5sgen.Type) { t.Rules = &j5sgen.Rules{MinStr: p("2020-01-01")} },
		"rules.maximum":          func(t *j5sgen.Type) { t.Rules = &j5sgen.Rules{MaxStr: p("2030-01-01")} },
		"rules.exclusiveMinimum": func(t *j5sgen.Type) { t.Rules = &j5sgen.Rules{MinStr: p("2020-01-01"), ExclusiveMin: p(true)} },
		"listRules.filtering":    func(t *j5sgen.Type) { t.List = &j5sgen.ListRules{Filterable: p(true)} },
	}
	decRange := map[string]func(*j5sgen.Type){
		"rules.minimum":       func(t *j5sgen.Type) { t.Rules = &j5sgen.Rules{MinStr: p("0.5")} },
		"rules.maximum":       func(t *j5sgen.Type) { t.Rules = &j5sgen.Rules{MaxStr: p("10.5")} },
		"listRules.filtering": func(t *j5sgen.Type) { t.List = &j5sgen.ListRules{Filterable: p(true)} },
	}
	other := func() []*j5sgen.Decl {
		return []*j5sgen.Decl{
			{Object: &j5sgen.Object{Name: "Other", Fields: []*j5sgen.Field{{Name: "x", Type: &j5sgen.Type{Kind: "string"}}}}},
			{Enum: &j5sgen.Enum{Name: "Kind", Options: []*j5sgen.EnumOption{{Name: "A"}, {Name: "B"}}}},
			{Oneof: &j5sgen.Oneof{Name: "Pick", Options: []*j5sgen.Field{{Name: "other", Type: &j5sgen.Type{Kind: "object", Ref: &j5sgen.Ref{Name: "Other"}}}}}},
		}
	}
	bases := []base{
		{"string", func() *j5sgen.Type { return &j5sgen.Type{Kind: "string"} }, map[string]func(*j5sgen.Type){
			"rules.minLength":     func(t *j5sgen.Type) { t.Rules = &j5sgen.Rules{MinLength: p(uint64(1))} },
			"rules.maxLength":     func(t *j5sgen.Type) { t.Rules = &j5sgen.Rules{MaxLength: p(uint64(5))} },
			"rules.pattern":       func(t *j5sgen.Type) { t.Rules = &j5sgen.Rules{Pattern: p("^a+$")} },
			"listRules.searching": func(t *j5sgen.Type) { t.List = &j5sgen.ListRules{Searchable: p(true)} },
		}, nil},
		{"bool", func() *j5sgen.Type { return &j5sgen.Type{Kind: "bool"} }, map[string]func(*j5sgen.Type){
			"rules.const":         func(t *j5sgen.Type) { t.Rules = &j5sgen.Rules{Const: p(true)} },
			"listRules.filtering": func(t *j5sgen.Type) { t.List = &j5sgen.ListRules{Filterable: p(true)} },
		}, nil},
		{"integer:INT32", func() *j5sgen.Type { return &j5sgen.Type{Kind: "integer", Format: "INT32"} }, intRules, nil},
		{"integer:INT64", func() *j5sgen.Type { return &j5sgen.Type{Kind: "integer", Format: "INT64"} }, intRules, nil},
		{"integer:UINT32", func() *j5sgen.Type { return &j5sgen.Type{Kind: "integer", Format: "UINT32"} }, intRules, nil},
		{"integer:UINT64", func() *j5sgen.Type { return &j5sgen.Type{Kind: "integer", Format: "UINT64"} }, intRules, nil},
		{"float:FLOAT32", func() *j5sgen.Type { return &j5sgen.Type{Kind: "float", Format: "FLOAT32"} }, map[string]func(*j5sgen.Type){
			"listRules.filtering": func(t *j5sgen.Type) { t.List = &j5sgen.ListRules{Filterable: p(true)} },
		}, nil},
		{"float:FLOAT64", func() *j5sgen.Type { return &j5sgen.Type{Kind: "float", Format: "FLOAT64"} }, map[string]func(*j5sgen.Type){
			"listRules.sorting": func(t *j5sgen.Type) { t.List = &j5sgen.ListRules{Sortable: p(true)} },
		}, nil},
		{"bytes", func() *j5sgen.Type { return &j5sgen.Type{Kind: "bytes"} }, map[string]func(*j5sgen.Type){
			"rules.minLength": func(t *j5sgen.Type) { t.Rules = &j5sgen.Rules{MinLength: p(uint64(1))} },
			"rules.maxLength": func(t *j5sgen.Type) { t.Rules = &j5sgen.Rules{MaxLength: p(uint64(5))} },
		}, nil},
		{"date", func() *j5sgen.Type { return &j5sgen.Type{Kind: "date"} }, strRange, nil},
		{"decimal", func() *j5sgen.Type { return &j5sgen.Type{Kind: "decimal"} }, decRange, nil},
		{"timestamp", func() *j5sgen.Type { return &j5sgen.Type{Kind: "timestamp"} }, map[string]func(*j5sgen.Type){
			"listRules.filtering": func(t *j5sgen.Type) { t.List = &j5sgen.ListRules{Filterable: p(true)} },
		}, nil},
		{"key", func() *j5sgen.Type { return &j5sgen.Type{Kind: "key"} }, map[string]func(*j5sgen.Type){
			"listRules.filtering": func(t *j5sgen.Type) { t.List = &j5sgen.ListRules{Filterable: p(true)} },
		}, nil},
		{"key:id62", func() *j5sgen.Type { return &j5sgen.Type{Kind: "key", Format: "id62"} }, map[string]func(*j5sgen.Type){
			"listRules.filtering": func(t *j5sgen.Type) { t.List = &j5sgen.ListRules{Filterable: p(true)} },
		}, nil},
		{"key:uuid", func() *j5sgen.Type { return &j5sgen.Type{Kind: "key", Format: "uuid"} }, nil, nil},
		{"key:informal", func() *j5sgen.Type { return &j5sgen.Type{Kind: "key", Format: "informal"} }, nil, nil},
		{"key:custom", func() *j5sgen.Type { return &j5sgen.Type{Kind: "key", Format: "custom", KeyPattern: "^[a-z]+$"} }, nil, nil},
		{"any", func() *j5sgen.Type { return &j5sgen.Type{Kind: "any"} }, map[string]func(*j5sgen.Type){
			"onlyDefined": func(t *j5sgen.Type) { t.AnyOnlyDefined = true; t.AnyTypes = []string{"cell.matrix.v1.Other"} },
		}, nil},
		{"object:ref", func() *j5sgen.Type { return &j5sgen.Type{Kind: "object", Ref: &j5sgen.Ref{Name: "Other"}} }, map[string]func(*j5sgen.Type){
			"flatten": func(t *j5sgen.Type) { t.Flatten = true },
			"bodyref": func(t *j5sgen.Type) { t.Ref.BodyRef = true },
		}, other},
		{"object:inline", func() *j5sgen.Type {
			return &j5sgen.Type{Kind: "object", InlineObject: &j5sgen.Object{Fields: []*j5sgen.Field{{Name: "inner", Type: &j5sgen.Type{Kind: "string"}}}}}
		}, map[string]func(*j5sgen.Type){
			"flatten":       func(t *j5sgen.Type) { t.Flatten = true },
			"name-override": func(t *j5sgen.Type) { t.NameOverride = true; t.InlineObject.Name = "Renamed" },
			"empty":         func(t *j5sgen.Type) { t.InlineObject.Fields = nil },
		}, nil},
		{"oneof:ref", func() *j5sgen.Type { return &j5sgen.Type{Kind: "oneof", Ref: &j5sgen.Ref{Name: "Pick"}} }, map[string]func(*j5sgen.Type){
			"listRules.filtering": func(t *j5sgen.Type) { t.List = &j5sgen.ListRules{Filterable: p(true)} },
		}, other},
		{"oneof:inline", func() *j5sgen.Type {
			return &j5sgen.Type{Kind: "oneof", InlineOneof: &j5sgen.Oneof{Options: []*j5sgen.Field{{Name: "a", Type: &j5sgen.Type{Kind: "object", InlineObject: &j5sgen.Object{}}}}}}
		}, map[string]func(*j5sgen.Type){
			"name-override": func(t *j5sgen.Type) { t.NameOverride = true; t.InlineOneof.Name = "Renamed" },
		}, nil},
		{"enum:ref", func() *j5sgen.Type { return &j5sgen.Type{Kind: "enum", Ref: &j5sgen.Ref{Name: "Kind"}} }, map[string]func(*j5sgen.Type){
			"rules.in":            func(t *j5sgen.Type) { t.Rules = &j5sgen.Rules{In: []string{"A"}} },
			"rules.notIn":         func(t *j5sgen.Type) { t.Rules = &j5sgen.Rules{NotIn: []string{"B"}} },
			"listRules.filtering": func(t *j5sgen.Type) { t.List = &j5sgen.ListRules{Filterable: p(true)} },
		}, other},
		{"enum:inline", func() *j5sgen.Type {
			return &j5sgen.Type{Kind: "enum", InlineEnum: &j5sgen.Enum{Options: []*j5sgen.EnumOption{{Name: "A"}, {Name: "B", Desc: "described"}}}}
		}, map[string]func(*j5sgen.Type){
			"prefix":        func(t *j5sgen.Type) { t.InlineEnum.Prefix = "XX_" },
			"option-info":   func(t *j5sgen.Type) { t.InlineEnum.Options[0].Info = map[string]string{"color": "red"} },
			"name-override": func(t *j5sgen.Type) { t.NameOverride = true; t.InlineEnum.Name = "Renamed" },
		}, nil},
	}
	for _, b := range bases {
		ruleNames := []string{""}
		for k := range b.rules {
			ruleNames = append(ruleNames, k)
		}
		sort.Strings(ruleNames)
		for _, rn := range ruleNames {
			for _, pres := range []string{"", "!", "?"} {
				for _, cont := range []string{"", "array", "map"} {
					if cont != "" && (pres == "?" || strings.HasPrefix(b.name, "any")) {
						continue
					}
					ty := b.ty()
					if rn != "" {
						b.rules[rn](ty)
					}
					if cont != "" && (ty.Flatten || (ty.Ref != nil && ty.Ref.BodyRef)) {
						continue
					}
					ft := ty
					if cont != "" {
						ft = &j5sgen.Type{Kind: cont, Items: ty}
					}
					f := &j5sgen.Field{Name: "value", Type: ft, Required: pres == "!", Optional: pres == "?"}
					feat := b.name
					if rn != "" {
						feat += "." + rn
					}
					c := cell{feature: fmt.Sprintf("%s|%s|%s", feat, map[string]string{"": "plain", "array": "array", "map": "map"}[cont], map[string]string{"": "none", "!": "required", "?": "optional"}[pres]), field: f}
					if b.extra != nil {
						c.extra = b.extra()
					}
					cells = append(cells, c)
				}
			}
		}
	}
	// container rules
	for _, cr := range []struct {
		name string
		ty   *j5sgen.Type
	}{
		{"array.rules.minItems", &j5sgen.Type{Kind: "array", Items: &j5sgen.Type{Kind: "string"}, Rules: &j5sgen.Rules{MinItems: p(uint64(1))}}},
		{"array.rules.maxItems", &j5sgen.Type{Kind: "array", Items: &j5sgen.Type{Kind: "bool"}, Rules: &j5sgen.Rules{MaxItems: p(uint64(3))}}},
		{"array.rules.uniqueItems", &j5sgen.Type{Kind: "array", Items: &j5sgen.Type{Kind: "integer", Format: "INT32"}, Rules: &j5sgen.Rules{Unique: p(true)}}},
		{"array.rules.minItems+object", &j5sgen.Type{Kind: "array", Items: &j5sgen.Type{Kind: "object", InlineObject: &j5sgen.Object{}}, Rules: &j5sgen.Rules{MinItems: p(uint64(1))}}},
		{"map.rules.minPairs", &j5sgen.Type{Kind: "map", Items: &j5sgen.Type{Kind: "string"}, Rules: &j5sgen.Rules{MinPairs: p(uint64(1))}}},
		{"map.rules.maxPairs", &j5sgen.Type{Kind: "map", Items: &j5sgen.Type{Kind: "bytes"}, Rules: &j5sgen.Rules{MaxPairs: p(uint64(2))}}},
		{"array.ext.singleForm", &j5sgen.Type{Kind: "array", Items: &j5sgen.Type{Kind: "string"}, SingleForm: "tag"}},
		{"array.ext.singleForm+object", &j5sgen.Type{Kind: "array", Items: &j5sgen.Type{Kind: "object", InlineObject: &j5sgen.Object{}}, SingleForm: "item"}},
		{"map.ext.singleForm", &j5sgen.Type{Kind: "map", Items: &j5sgen.Type{Kind: "string"}, SingleForm: "entry"}},
	} {
		cells = append(cells, cell{feature: cr.name + "|container|none", field: &j5sgen.Field{Name: "value", Type: cr.ty}})
	}
	return cells
}

func cellBundle(c cell) srcCase {
	pkg := &j5sgen.Package{Name: "cell.matrix.v1"}
	main := &j5sgen.File{Path: "cell/matrix/v1/main.j5s", Decls: []*j5sgen.Decl{{Object: &j5sgen.Object{Name: "Thing", Fields: []*j5sgen.Field{c.field}}}}}
	pkg.Files = append(pkg.Files, main)
	if len(c.extra) > 0 {
		pkg.Files = append(pkg.Files, &j5sgen.File{Path: "cell/matrix/v1/other.j5s", Decls: c.extra})
	}
	b := &j5sgen.Bundle{Packages: []*j5sgen.Package{pkg}}
	return srcCase{Files: b.Render(), Valid: true, What: "matrix:" + strings.SplitN(c.feature, "|", 2)[0]}
}

func declAlone(name string, d *j5sgen.Decl) srcCase {
	pkg := &j5sgen.Package{Name: "cell.matrix.v1", Files: []*j5sgen.File{{Path: "cell/matrix/v1/main.j5s", Decls: []*j5sgen.Decl{d}}}}
	b := &j5sgen.Bundle{Packages: []*j5sgen.Package{pkg}}
	return srcCase{Files: b.Render(), Valid: true, What: "matrix:" + name}
}

func TestMatrix(t *testing.T) {
	r := vf.Start(t, prop, "matrix")
	cells := matrixCells()
	for i, c := range cells {
		sc := cellBundle(c)
		r.Eval(true, vf.Hash(sc.Files), "cell")
		if i%97 == 0 {
			r.Sample(map[string]any{"feature": c.feature, "source": sc.Files["cell/matrix/v1/main.j5s"]})
		}
		r.JudgeNoFatal(sc, check(sc))
	}
	str := func() *j5sgen.Field { return &j5sgen.Field{Name: "name", Type: &j5sgen.Type{Kind: "string"}} }
	alone := []struct {
		name string
		d    *j5sgen.Decl
	}{
		{"enum-alone", &j5sgen.Decl{Enum: &j5sgen.Enum{Name: "Kind", Options: []*j5sgen.EnumOption{{Name: "A"}}}}},
		{"enum-alone.option-info", &j5sgen.Decl{Enum: &j5sgen.Enum{Name: "Kind", Options: []*j5sgen.EnumOption{{Name: "A", Info: map[string]string{"k": "v"}}}}}},
		{"enum-alone.prefix", &j5sgen.Decl{Enum: &j5sgen.Enum{Name: "Kind", Prefix: "K_", Options: []*j5sgen.EnumOption{{Name: "A", Desc: "d"}}}}},
		{"oneof-alone", &j5sgen.Decl{Oneof: &j5sgen.Oneof{Name: "Pick", Options: []*j5sgen.Field{{Name: "a", Type: &j5sgen.Type{Kind: "object", InlineObject: &j5sgen.Object{Fields: []*j5sgen.Field{str()}}}}}}}},
		{"object-empty", &j5sgen.Decl{Object: &j5sgen.Object{Name: "Empty"}}},
		{"object-nested", &j5sgen.Decl{Object: &j5sgen.Object{Name: "Outer", Nested: []*j5sgen.Object{{Name: "Inner", Fields: []*j5sgen.Field{str()}}}}}},
		// names: an inline type named like a message that encloses it (protobuf scoping)
		{"name-inline-like-parent", &j5sgen.Decl{Object: &j5sgen.Object{Name: "Thing", Fields: []*j5sgen.Field{{Name: "thing", Type: &j5sgen.Type{Kind: "object", InlineObject: &j5sgen.Object{Fields: []*j5sgen.Field{str()}}}}}}}},
		{"name-inline-like-parent+sibling", &j5sgen.Decl{Object: &j5sgen.Object{Name: "Thing", Fields: []*j5sgen.Field{
			{Name: "other", Type: &j5sgen.Type{Kind: "object", InlineObject: &j5sgen.Object{Fields: []*j5sgen.Field{str()}}}},
			{Name: "thing", Type: &j5sgen.Type{Kind: "enum", InlineEnum: &j5sgen.Enum{Options: []*j5sgen.EnumOption{{Name: "A"}}}}},
			{Name: "last", Type: &j5sgen.Type{Kind: "oneof", InlineOneof: &j5sgen.Oneof{Options: []*j5sgen.Field{{Name: "a", Type: &j5sgen.Type{Kind: "object", InlineObject: &j5sgen.Object{Fields: []*j5sgen.Field{str()}}}}}}}},
		}}}},
		{"name-inline-like-grandparent", &j5sgen.Decl{Object: &j5sgen.Object{Name: "Thing", Fields: []*j5sgen.Field{{Name: "level", Type: &j5sgen.Type{Kind: "object", InlineObject: &j5sgen.Object{Fields: []*j5sgen.Field{
			{Name: "thing", Type: &j5sgen.Type{Kind: "array", Items: &j5sgen.Type{Kind: "object", InlineObject: &j5sgen.Object{Fields: []*j5sgen.Field{str()}}}}},
			{Name: "level", Type: &j5sgen.Type{Kind: "object", InlineObject: &j5sgen.Object{Fields: []*j5sgen.Field{str()}}}},
		}}}}}}}},
		{"name-inline-like-request", &j5sgen.Decl{Service: &j5sgen.Service{Name: "Things", Methods: []*j5sgen.Method{{Name: "MakeThing", HTTPMethod: "POST", HTTPPath: "/thing",
			Request:  []*j5sgen.Field{{Name: "makeThingRequest", Type: &j5sgen.Type{Kind: "object", InlineObject: &j5sgen.Object{Fields: []*j5sgen.Field{str()}}}}},
			Response: []*j5sgen.Field{{Name: "makeThingResponse", Type: &j5sgen.Type{Kind: "enum", InlineEnum: &j5sgen.Enum{Options: []*j5sgen.EnumOption{{Name: "A"}}}}}}}}}}},
		{"service-get", &j5sgen.Decl{Service: &j5sgen.Service{Name: "Things", BasePath: "/things/v1", Methods: []*j5sgen.Method{{Name: "GetThing", HTTPMethod: "GET", HTTPPath: "/thing/:name", Request: []*j5sgen.Field{str()}, Response: []*j5sgen.Field{str()}}}}}},
		{"service-post", &j5sgen.Decl{Service: &j5sgen.Service{Name: "Things", Methods: []*j5sgen.Method{{Name: "MakeThing", HTTPMethod: "POST", HTTPPath: "/thing", Request: []*j5sgen.Field{str()}, Response: nil}}}}},
		{"service-no-response", &j5sgen.Decl{Service: &j5sgen.Service{Name: "Things", Methods: []*j5sgen.Method{{Name: "Raw", HTTPMethod: "GET", HTTPPath: "/raw", NoResponse: true}}}}},
		{"topic-publish", &j5sgen.Decl{Topic: &j5sgen.Topic{Name: "Things", Kind: "publish", Messages: []*j5sgen.TopicMessage{{Name: "PostThing", Fields: []*j5sgen.Field{str()}}}}}},
		{"topic-reqres", &j5sgen.Decl{Topic: &j5sgen.Topic{Name: "Things", Kind: "reqres", Request: &j5sgen.TopicMessage{Fields: []*j5sgen.Field{str()}}, Reply: &j5sgen.TopicMessage{Fields: []*j5sgen.Field{str()}}}}},
		{"topic-upsert", &j5sgen.Decl{Topic: &j5sgen.Topic{Name: "Things", Kind: "upsert", Messages: []*j5sgen.TopicMessage{{Fields: []*j5sgen.Field{str()}}}}}},
		{"entity-minimal", &j5sgen.Decl{Entity: &j5sgen.Entity{Name: "Thing", Keys: []*j5sgen.Field{{Name: "thingId", Primary: true, Type: &j5sgen.Type{Kind: "key", Format: "id62"}}}, Statuses: []*j5sgen.EnumOption{{Name: "ACTIVE"}}}}},
		{"entity-full", &j5sgen.Decl{Entity: &j5sgen.Entity{Name: "Thing", BaseURL: "/thing/v1",
			Keys:      []*j5sgen.Field{{Name: "thingId", Primary: true, Type: &j5sgen.Type{Kind: "key", Format: "id62"}}, {Name: "accountId", Tenant: "account", Type: &j5sgen.Type{Kind: "key", Format: "uuid"}}},
			Data:      []*j5sgen.Field{str()},
			Statuses:  []*j5sgen.EnumOption{{Name: "ACTIVE"}, {Name: "DONE"}},
			Events:    []*j5sgen.Event{{Name: "Create", Fields: []*j5sgen.Field{str()}}, {Name: "Archive"}},
			Summaries: []*j5sgen.TopicMessage{{Fields: []*j5sgen.Field{str()}}}}}},
	}
	for _, a := range alone {
		sc := declAlone(a.name, a.d)
		r.Eval(true, vf.Hash(sc.Files), "decl-alone")
		r.JudgeNoFatal(sc, check(sc))
	}
	// rules the schema language defines (j5.schema.v1 Rules messages) that the
	// model-based cells above do not render: written out as text
	for _, rc := range []struct{ feature, body string }{
		{"float.rules", "field value float:FLOAT64 {\n\t\trules.minimum = 1.5\n\t}"},
		{"float.rules", "field value float:FLOAT32 {\n\t\trules.maximum = 10\n\t\trules.exclusiveMaximum = true\n\t}"},
		{"timestamp.rules", "field value timestamp {\n\t\trules.minimum = \"2020-01-01T00:00:00Z\"\n\t}"},
		{"integer.rules.multipleOf", "field value integer:INT64 {\n\t\trules.multipleOf = 5\n\t}"},
		{"object.rules.minProperties", "field value object:Other {\n\t\trules.minProperties = 1\n\t}\n\tfield other object:Other"},
	} {
		text := "package cell.matrix.v1\n\nobject Thing {\n\t" + rc.body + "\n}\n"
		if strings.Contains(rc.body, "Other") {
			text += "\nobject Other {\n\tfield x string\n}\n"
		}
		// float and timestamp rules are not in the documented language (README) and
		// the compiler says so ("TODO: float rules not implemented"): only totality
		// (a positioned error, no panic) is asked of them, not acceptance
		valid := !strings.HasPrefix(rc.feature, "float.") && !strings.HasPrefix(rc.feature, "timestamp.")
		sc := srcCase{Files: map[string]string{"cell/matrix/v1/main.j5s": text}, Valid: valid, What: "matrix:" + rc.feature}
		r.Eval(true, vf.Hash(sc.Files), "raw-cell")
		r.JudgeNoFatal(sc, check(sc))
	}
	r.SetExhaustive()
	r.Note("%d field cells + %d single declarations", len(cells), len(alone))
}

// ---------------------------------------------------------------------------
// lane: totality on arbitrary text

func TestGarbage(t *testing.T) {
	r := vf.Start(t, prop, "garbage")
	rapid.Check(t, func(t *rapid.T) {
		var text, kind string
		switch rapid.IntRange(0, 4).Draw(t, "kind") {
		case 0:
			text, kind = string(rapid.SliceOfN(rapid.Byte(), 0, 200).Draw(t, "bytes")), "bytes"
		case 1:
			text, _ = bclgen.File(t)
			kind = "bcl"
		default:
			o := j5sgen.DefaultOpts()
			o.MaxPackages, o.MaxFiles = 1, 1
			b, _ := j5sgen.Draw(t, o)
			for _, v := range b.Render() {
				text = v
			}
			text = mutateText(t, text)
			kind = "mutated"
		}
		name := "alpha/beta/v1/main.j5s"
		if kind != "mutated" && !strings.HasPrefix(text, "package ") && rapid.Bool().Draw(t, "addpkg") {
			text = "package alpha.beta.v1\n" + text
		}
		c := srcCase{Files: map[string]string{name: text}, Valid: false, What: kind}
		r.Eval(strings.TrimSpace(text) != "", vf.Hash(text), "kind:"+kind)
		if kind == "mutated" && len(text) < 400 && r.WantSample() {
			r.Sample(c)
		}
		r.Journal(c)
		r.Judge(t, c, check(c))
	})
}

var tokenish = []string{"{", "}", "!", "?", ":", "=", "[", "]", ",", ".", "|", "//", "/*", "\"", "\n", "object", "field", "enum", "oneof", "option", "array", "map", "key", "ref", "required", "true", "1", "rules.minLength", "import", "package", "service", "method", "request", "entity", "status", "topic", "publish"}

func mutateText(t *rapid.T, text string) string {
	lines := strings.Split(text, "\n")
	n := rapid.IntRange(1, 3).Draw(t, "nmut")
	for i := 0; i < n && len(lines) > 0; i++ {
		li := rapid.IntRange(0, len(lines)-1).Draw(t, "line")
		words := strings.Fields(lines[li])
		switch rapid.IntRange(0, 5).Draw(t, "mut") {
		case 0: // delete a line
			lines = append(lines[:li], lines[li+1:]...)
		case 1: // duplicate a line
			lines = append(lines[:li+1], lines[li:]...)
		case 2: // delete a word
			if len(words) > 0 {
				wi := rapid.IntRange(0, len(words)-1).Draw(t, "word")
				words = append(words[:wi], words[wi+1:]...)
				lines[li] = strings.Join(words, " ")
			}
		case 3: // insert a token
			tok := rapid.SampledFrom(tokenish).Draw(t, "tok")
			wi := rapid.IntRange(0, len(words)).Draw(t, "at")
			words = append(words[:wi], append([]string{tok}, words[wi:]...)...)
			lines[li] = strings.Join(words, " ")
		case 4: // swap two lines
			lj := rapid.IntRange(0, len(lines)-1).Draw(t, "line2")
			lines[li], lines[lj] = lines[lj], lines[li]
		default: // replace a word
			if len(words) > 0 {
				wi := rapid.IntRange(0, len(words)-1).Draw(t, "word")
				words[wi] = rapid.SampledFrom(tokenish).Draw(t, "tok")
				lines[li] = strings.Join(words, " ")
			}
		}
	}
	return strings.Join(lines, "\n")
}

func fuzzCase(text string) srcCase {
	return srcCase{Files: map[string]string{"fz/pkg/v1/main.j5s": text}, Valid: false, What: "fuzz"}
}

// FuzzCompile: coverage-guided bytes into the whole compiler (parse, convert, link,
// lint) for one single-file package. Oracle: C07(a) totality + positioned errors.
func FuzzCompile(f *testing.F) {
	for _, c := range matrixCells() {
		if strings.Contains(c.feature, "|plain|none") || strings.Contains(c.feature, "container") {
			sc := cellBundle(c)
			f.Add(strings.Replace(sc.Files["cell/matrix/v1/main.j5s"], "package cell.matrix.v1", "package fz.pkg.v1", 1))
		}
	}
	f.Add("package fz.pkg.v1\n\nentity Thing {\n\tkey thingId key:id62 {\n\t\tprimary = true\n\t}\n\tstatus ACTIVE\n\tevent Create {\n\t\tfield name string\n\t}\n}\n")
	f.Add("package fz.pkg.v1\n\nservice Things {\n\tbasePath = \"/things\"\n\tmethod GetThing {\n\t\thttpMethod = \"GET\"\n\t\thttpPath = \"/:name\"\n\t\trequest {\n\t\t\tfield name string\n\t\t}\n\t\tresponse {\n\t\t\tfield name string\n\t\t}\n\t}\n}\n")
	f.Add("package fz.pkg.v1\n\ntopic Things publish {\n\tmessage PostThing {\n\t\tfield name string\n\t}\n}\n")
	known := vf.KnownOpen(prop)
	f.Fuzz(func(t *testing.T, text string) {
		if len(text) > 1<<13 {
			return
		}
		for _, fl := range check(fuzzCase(text)) {
			if !known[fl.Key] {
				t.Fatalf("C07 fuzz: [%s] %s", fl.Key, fl.Detail)
			}
		}
	})
}

// TestFuzzInput pushes crashers found by FuzzCompile through the normal verdict path.
func TestFuzzInput(t *testing.T) {
	r := vf.Start(t, prop, "fuzz")
	for _, p := range vf.FuzzInputs() {
		vals, err := vf.ReadFuzzInput(p)
		if err != nil || len(vals) != 1 {
			r.Note("unreadable fuzz input %s: %v", p, err)
			continue
		}
		c := fuzzCase(vals[0].(string))
		r.Eval(true, vf.Hash(c.Files), "fuzz-crasher")
		r.Journal(c)
		r.JudgeNoFatal(c, check(c))
	}
}
