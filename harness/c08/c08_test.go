package c08

import (
	"encoding/json"
	"strings"
	"testing"
	"time"

	"github.com/pentops/j5/internal/bcl/internal/verif/codecx"
	"github.com/pentops/j5/internal/bcl/internal/verif/j5ref"
	"github.com/pentops/j5/internal/bcl/internal/verif/jx"
	"github.com/pentops/j5/internal/bcl/internal/verif/mgen"
	"github.com/pentops/j5/internal/bcl/internal/verif/vf"
	"google.golang.org/protobuf/reflect/protoreflect"
	"pgregory.net/rapid"
)

const prop = "C08"

type caseX struct {
	codecx.Case
	Extended bool `json:"extended"`
}

func laneCase(raw json.RawMessage) ([]vf.Failure, error) {
	var c caseX
	if err := json.Unmarshal(raw, &c); err != nil {
		return nil, err
	}
	s, msg, err := c.Build()
	if err != nil {
		return nil, err
	}
	// the session so far: earlier messages of the case go through an encoder first
	// (their own verdicts were given when they were the subject)
	earlier, err := c.Earlier(s)
	if err != nil {
		return nil, err
	}
	for _, m := range earlier {
		vf.GuardTimed("ProtoToJSON", callLimit, func() { _, _ = s.NewCodec().ProtoToJSON(m) })
	}
	fails, _ := checkEncode(s, msg, c.Extended)
	return fails, nil
}

var lanes = map[string]vf.LaneFunc{"raw": laneCase, "extended": laneCase, "j5s": laneCase, "compiled": laneCase}

func TestReplay(t *testing.T) {
	if !vf.RunReplayMode(t, prop, lanes) {
		t.Skip("no VERIF_REPLAY")
	}
}

func TestWitness(t *testing.T) { vf.Witnesses(t, prop, lanes) }

const callLimit = 30 * time.Second

// checkEncode: the output is one well-formed JSON document and, inside the
// round-trip domain, every member has the documented representation. With
// extended=true only "error or well-formed JSON" is required.
func checkEncode(s *codecx.Schema, msg protoreflect.Message, extended bool) (fails []vf.Failure, doc string) {
	cdc := s.NewCodec()
	var out []byte
	var err error
	if f := vf.GuardTimed("ProtoToJSON", callLimit, func() { out, err = cdc.ProtoToJSON(msg) }); f != nil {
		return []vf.Failure{*f}, ""
	}
	if err != nil {
		if extended {
			return nil, ""
		}
		return []vf.Failure{vf.Failf("encode|error|"+vf.ErrClass(err), "ProtoToJSON: %v", err)}, ""
	}
	doc = string(out)
	got, perr := jx.Parse(out)
	if perr != nil {
		return []vf.Failure{vf.Failf("json|malformed", "output is not a JSON document: %v\n%s", perr, doc)}, doc
	}
	if extended {
		return nil, doc
	}
	enc := &j5ref.Encoder{Types: s.Resolver()}
	want, rerr := enc.Encode(msg)
	if rerr != nil {
		return []vf.Failure{vf.Failf("harness|reference", "reference encoder failed: %v", rerr)}, doc
	}
	if cls, d := j5ref.DiffSem(want, got, "$"); cls != "" {
		fails = append(fails, vf.Failf("format|"+cls, "%s\nexpected: %s\nactual:   %s", d, want.String(), doc))
	}
	return fails, doc
}

func run(t *testing.T, lane string, extended bool) { runFrom(t, lane, extended, "raw") }

func TestCompiled(t *testing.T) { runFrom(t, "compiled", false, "j5s") }

func runFrom(t *testing.T, lane string, extended bool, source string) {
	r := vf.Start(t, prop, lane)
	rapid.Check(t, func(t *rapid.T) {
		s, err := codecx.DrawFrom(t, source)
		if err != nil {
			t.Fatalf("generator: %v", err)
		}
		nmsg := rapid.IntRange(1, 6).Draw(t, "nmsg")
		var before [][2]string
		for i := 0; i < nmsg; i++ {
			md := s.Msgs[0]
			if i > 0 {
				md = rapid.SampledFrom(s.Msgs).Draw(t, "root")
			}
			ctx := s.MsgCtx(extended)
			msg := ctx.Message(t, md, 0, "m.")
			c := caseX{Case: s.Case(msg, source), Extended: extended}
			c.Before = append([][2]string(nil), before...)
			before = append(before, [2]string{c.Root, c.Msg})
			fails, doc := checkEncode(s, msg, extended)
			c.Doc = doc
			nt := mgen.HasHardText(doc) || strings.Contains(doc, "!type") || strings.Contains(doc, "[{") || len(ctx.Classes) > 2
			if extended {
				nt = ctx.Classes["non-finite-float"] || ctx.Classes["out-of-range-date"] || ctx.Classes["out-of-range-timestamp"]
			}
			cls := []string{}
			for k := range ctx.Classes {
				cls = append(cls, "msg:"+k)
			}
			for k := range s.Classes {
				cls = append(cls, "schema:"+k)
			}
			r.Eval(nt, vf.Hash(c.Files, c.Root, c.Msg), cls...)
			if nt && len(doc) < 500 && len(doc) > 40 && r.WantSample() {
				r.Sample(map[string]string{"root": c.Root, "message": c.MsgText, "document": doc})
			}
			r.Judge(t, c, fails)
		}
	})
}

func TestRaw(t *testing.T)      { run(t, "raw", false) }
func TestExtended(t *testing.T) { run(t, "extended", true) }
