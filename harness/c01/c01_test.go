package c01

import (
	"encoding/json"
	"strings"
	"testing"
	"time"

	"github.com/pentops/j5/internal/bcl/internal/verif/codecx"
	"github.com/pentops/j5/internal/bcl/internal/verif/j5ref"
	"github.com/pentops/j5/internal/bcl/internal/verif/mgen"
	"github.com/pentops/j5/internal/bcl/internal/verif/vf"
	"google.golang.org/protobuf/reflect/protoreflect"
	"google.golang.org/protobuf/types/dynamicpb"
	"pgregory.net/rapid"
)

const prop = "C01"

func laneCase(raw json.RawMessage) ([]vf.Failure, error) {
	var c codecx.Case
	if err := json.Unmarshal(raw, &c); err != nil {
		return nil, err
	}
	s, msg, err := c.Build()
	if err != nil {
		return nil, err
	}
	fails, _ := checkRoundtrip(s, msg)
	return fails, nil
}

var lanes = map[string]vf.LaneFunc{"raw": laneCase, "j5s": laneCase, "compiled": laneCase}

func TestReplay(t *testing.T) {
	if !vf.RunReplayMode(t, prop, lanes) {
		t.Skip("no VERIF_REPLAY")
	}
}

func TestWitness(t *testing.T) { vf.Witnesses(t, prop, lanes) }

const callLimit = 30 * time.Second

// checkRoundtrip: encode succeeds, decode of that succeeds, result equivalent.
func checkRoundtrip(s *codecx.Schema, msg protoreflect.Message) (fails []vf.Failure, doc string) {
	cdc := s.NewCodec()
	var out []byte
	var err error
	if f := vf.GuardTimed("ProtoToJSON", callLimit, func() { out, err = cdc.ProtoToJSON(msg) }); f != nil {
		return []vf.Failure{*f}, ""
	}
	if err != nil {
		return []vf.Failure{vf.Failf("encode|error|"+vf.ErrClass(err), "ProtoToJSON: %v", err)}, ""
	}
	doc = string(out)
	fresh := dynamicpb.NewMessage(msg.Descriptor())
	if f := vf.GuardTimed("JSONToProto", callLimit, func() { err = cdc.JSONToProto(out, fresh) }); f != nil {
		f.Detail += "\ndocument: " + doc
		return []vf.Failure{*f}, doc
	}
	if err != nil {
		return []vf.Failure{vf.Failf("decode|error|"+vf.ErrClass(err), "JSONToProto rejects the encoder's own output: %v\ndocument: %s", err, doc)}, doc
	}
	q := &j5ref.Equiv{Types: s.Resolver()}
	if cls, d := q.Diff(msg, fresh, string(msg.Descriptor().Name())); cls != "" {
		fails = append(fails, vf.Failf("diff|"+cls, "%s\ndocument: %s", d, doc))
	}
	return fails, doc
}

var ntClasses = []string{"nested-object", "exposed-oneof-set", "wrapper-oneof-set", "array-of-messages", "map-of-messages", "int64-boundary", "uint64-boundary", "optional-zero", "pb-any", "j5-any-form0", "j5-any-form1", "j5-any-form2"}

func TestRaw(t *testing.T)      { run(t, "raw", "raw") }
func TestCompiled(t *testing.T) { run(t, "compiled", "j5s") }

func run(t *testing.T, lane, source string) {
	r := vf.Start(t, prop, lane)
	rapid.Check(t, func(t *rapid.T) {
		s, err := codecx.DrawFrom(t, source)
		if err != nil {
			t.Fatalf("generator: %v", err)
		}
		nmsg := rapid.IntRange(1, 6).Draw(t, "nmsg")
		for i := 0; i < nmsg; i++ {
			md := s.Msgs[0]
			if i > 0 {
				md = rapid.SampledFrom(s.Msgs).Draw(t, "root")
			}
			ctx := s.MsgCtx(false)
			msg := ctx.Message(t, md, 0, "m.")
			c := s.Case(msg, source)
			fails, doc := checkRoundtrip(s, msg)
			c.Doc = doc
			nt := mgen.HasHardText(doc)
			cls := []string{}
			for k := range ctx.Classes {
				cls = append(cls, "msg:"+k)
			}
			for _, k := range ntClasses {
				if ctx.Classes[k] {
					nt = true
				}
			}
			for k := range s.Classes {
				cls = append(cls, "schema:"+k)
			}
			if j5ref.IsWrapper(md) {
				cls = append(cls, "root:oneof")
			}
			r.Eval(nt, vf.Hash(c.Files, c.Root, c.Msg), cls...)
			if nt && len(doc) < 600 && strings.Contains(doc, "!type") && r.WantSample() {
				r.Sample(map[string]string{"root": c.Root, "message": c.MsgText, "document": doc})
			}
			r.Judge(t, c, fails)
		}
	})
}
