package c14

import (
	"context"
	"crypto/sha256"
	"encoding/hex"
	"encoding/json"
	"fmt"
	"os"
	"os/exec"
	"path"
	"sort"
	"strings"
	"testing"
	"time"

	"github.com/pentops/j5/internal/bcl/internal/verif/j5sgen"
	"github.com/pentops/j5/internal/bcl/internal/verif/j5sx"
	"github.com/pentops/j5/internal/bcl/internal/verif/vf"
	"github.com/pentops/j5/internal/j5s/protobuild"
	"google.golang.org/protobuf/proto"
	"google.golang.org/protobuf/reflect/protodesc"
	"pgregory.net/rapid"
)

const prop = "C14"

// detCase: sources plus the configurations to compare with the baseline.
type detCase struct {
	Files     map[string]string `json:"files"`
	FileOrder []string          `json:"file_order"`    // a permutation of the file listing
	PkgOrder  []string          `json:"package_order"` // a permutation of the package listing
	CallOrder []string          `json:"call_order"`    // CompilePackage calls on one shared set (may repeat)
	Repeats   int               `json:"repeats"`
	Subproc   bool              `json:"subprocess,omitempty"`
	// Prelude: an unrelated bundle compiled first in this process ("what else was
	// compiled earlier"); the baseline is then compared with a fresh process that
	// never saw it.
	Prelude map[string]string `json:"prelude,omitempty"`
}

func laneCase(raw json.RawMessage) ([]vf.Failure, error) {
	var c detCase
	if err := json.Unmarshal(raw, &c); err != nil {
		return nil, err
	}
	return check(c), nil
}

var lanes = map[string]vf.LaneFunc{"determinism": laneCase}

func TestReplay(t *testing.T) {
	if !vf.RunReplayMode(t, prop, lanes) {
		t.Skip("no VERIF_REPLAY")
	}
}

func TestWitness(t *testing.T) { vf.Witnesses(t, prop, lanes) }

type output struct {
	desc string // hex sha256 of deterministic FileDescriptorProto bytes
	text string
}

func packages(files map[string]string) []string {
	seen := map[string]bool{}
	var out []string
	for f := range files {
		p := j5sx.PackageOf(f)
		if !seen[p] {
			seen[p] = true
			out = append(out, p)
		}
	}
	sort.Strings(out)
	return out
}

func record(into map[string]output, ps *protobuild.PackageSet, pkg string) error {
	files, err := ps.CompilePackage(context.Background(), pkg)
	if err != nil {
		return err
	}
	for _, f := range files {
		fdp := protodesc.ToFileDescriptorProto(f)
		b, err := proto.MarshalOptions{Deterministic: true}.Marshal(fdp)
		if err != nil {
			return err
		}
		sum := sha256.Sum256(b)
		text, err := j5sx.Print(f)
		if err != nil {
			return fmt.Errorf("print %s: %w", f.Path(), err)
		}
		into[f.Path()] = output{desc: hex.EncodeToString(sum[:]), text: text}
	}
	return nil
}

func compileAll(b *j5sx.Bundle, order []string, shared bool) (map[string]output, error) {
	out := map[string]output{}
	var ps *protobuild.PackageSet
	for _, pkg := range order {
		if ps == nil || !shared {
			var err error
			ps, err = j5sx.NewSet(b)
			if err != nil {
				return nil, err
			}
		}
		if err := record(out, ps, pkg); err != nil {
			return nil, fmt.Errorf("package %s: %w", pkg, err)
		}
	}
	return out, nil
}

func compare(label string, base, got map[string]output) (fails []vf.Failure) {
	var names []string
	for n := range base {
		names = append(names, n)
	}
	sort.Strings(names)
	for _, n := range names {
		g, ok := got[n]
		if !ok {
			fails = append(fails, vf.Failf("files|missing|"+label, "%s: file %s not produced", label, n))
			continue
		}
		if g.desc != base[n].desc {
			fails = append(fails, vf.Failf("descriptor|differs|"+label, "%s: descriptor bytes of %s differ from the baseline compile", label, n))
		}
		if g.text != base[n].text {
			fails = append(fails, vf.Failf("text|differs|"+label, "%s: printed text of %s differs from the baseline\n%s", label, n, firstDiff(base[n].text, g.text)))
		}
	}
	for n := range got {
		if _, ok := base[n]; !ok {
			fails = append(fails, vf.Failf("files|extra|"+label, "%s: extra file %s", label, n))
		}
	}
	return fails
}

func firstDiff(a, b string) string {
	la, lb := strings.Split(a, "\n"), strings.Split(b, "\n")
	for i := 0; i < len(la) && i < len(lb); i++ {
		if la[i] != lb[i] {
			lo := max(0, i-2)
			return fmt.Sprintf("line %d:\n- %s\n+ %s\ncontext:\n%s", i+1, la[i], lb[i], strings.Join(la[lo:min(len(la), i+3)], "\n"))
		}
	}
	return fmt.Sprintf("lengths %d vs %d lines", len(la), len(lb))
}

const callLimit = 120 * time.Second

func check(c detCase) (fails []vf.Failure) {
	var res []vf.Failure
	if f := vf.GuardTimed("determinism", callLimit, func() { res = checkInner(c) }); f != nil {
		return []vf.Failure{*f}
	}
	return res
}

func checkInner(c detCase) (fails []vf.Failure) {
	pkgs := packages(c.Files)
	if c.Prelude != nil {
		if _, err := compileAll(&j5sx.Bundle{Files: c.Prelude}, packages(c.Prelude), false); err != nil {
			return []vf.Failure{vf.Failf("compile|error", "prelude compile failed (C07's verdict): %v", err)}
		}
	}
	base, err := compileAll(&j5sx.Bundle{Files: c.Files}, pkgs, false)
	if err != nil {
		return []vf.Failure{vf.Failf("compile|error", "baseline compile failed (C07's verdict): %v", err)}
	}
	for i := 0; i < c.Repeats; i++ {
		got, err := compileAll(&j5sx.Bundle{Files: c.Files}, pkgs, false)
		if err != nil {
			fails = append(fails, vf.Failf("compile|flaky-error", "repeat %d failed: %v", i, err))
			continue
		}
		fails = append(fails, compare("repeat", base, got)...)
	}
	if len(c.FileOrder) > 0 {
		got, err := compileAll(&j5sx.Bundle{Files: c.Files, FileOrder: c.FileOrder, PackageOrder: c.PkgOrder}, pkgs, false)
		if err != nil {
			fails = append(fails, vf.Failf("compile|order-dependent-error", "compile with permuted listing fails: %v", err))
		} else {
			fails = append(fails, compare("listing-order", base, got)...)
		}
	}
	if len(c.CallOrder) > 0 {
		got, err := compileAll(&j5sx.Bundle{Files: c.Files, FileOrder: c.FileOrder, PackageOrder: c.PkgOrder}, c.CallOrder, true)
		if err != nil {
			fails = append(fails, vf.Failf("compile|reuse-error", "compile on a reused PackageSet in order %v fails: %v", c.CallOrder, err))
		} else {
			fails = append(fails, compare("reused-set", base, got)...)
		}
	}
	if c.Subproc {
		got, err := subprocessDigest(c)
		if err != nil {
			fails = append(fails, vf.Failf("harness|subprocess", "subprocess: %v", err))
		} else {
			label := "other-process"
			if c.Prelude != nil {
				label = "after-earlier-compile"
			}
			fails = append(fails, compare(label, base, got)...)
		}
	}
	return dedupe(fails)
}

func dedupe(fails []vf.Failure) []vf.Failure {
	seen := map[string]bool{}
	var out []vf.Failure
	for _, f := range fails {
		if !seen[f.Key] {
			seen[f.Key] = true
			out = append(out, f)
		}
	}
	return out
}

// subprocessDigest compiles the case in a fresh process (different map seeds).
func subprocessDigest(c detCase) (map[string]output, error) {
	tmp, err := os.CreateTemp("", "c14-*.json")
	if err != nil {
		return nil, err
	}
	defer os.Remove(tmp.Name())
	c.Prelude = nil // the other process compiles the bundle alone
	b, _ := json.Marshal(c)
	tmp.Write(b)
	tmp.Close()
	self, err := os.Executable()
	if err != nil {
		return nil, err
	}
	outPath := tmp.Name() + ".out"
	defer os.Remove(outPath)
	cmd := exec.Command(self, "-test.run", "^TestDigestHelper$")
	cmd.Env = append(os.Environ(), "VERIF_C14_CASE="+tmp.Name(), "VERIF_C14_OUT="+outPath)
	if outb, err := cmd.CombinedOutput(); err != nil {
		return nil, fmt.Errorf("%v: %s", err, outb)
	}
	raw, err := os.ReadFile(outPath)
	if err != nil {
		return nil, err
	}
	var flat map[string][2]string
	if err := json.Unmarshal(raw, &flat); err != nil {
		return nil, err
	}
	out := map[string]output{}
	for k, v := range flat {
		out[k] = output{desc: v[0], text: v[1]}
	}
	return out, nil
}

func TestDigestHelper(t *testing.T) {
	path := os.Getenv("VERIF_C14_CASE")
	if path == "" {
		t.Skip("helper")
	}
	raw, err := os.ReadFile(path)
	if err != nil {
		t.Fatal(err)
	}
	var c detCase
	if err := json.Unmarshal(raw, &c); err != nil {
		t.Fatal(err)
	}
	got, err := compileAll(&j5sx.Bundle{Files: c.Files}, packages(c.Files), false)
	if err != nil {
		t.Fatal(err)
	}
	flat := map[string][2]string{}
	for k, v := range got {
		flat[k] = [2]string{v.desc, v.text}
	}
	b, _ := json.Marshal(flat)
	if err := os.WriteFile(os.Getenv("VERIF_C14_OUT"), b, 0o644); err != nil {
		t.Fatal(err)
	}
}

// addTwinImport gives one file two un-aliased imports that imply the same default
// name (x.bar.v1 and zeta.bar.v1 both answer to "bar"): a copy of an imported
// package under another root, imported on the line before the original so that
// the original stays the later of the two, and referred to by its full name so
// that it is loaded. Which package "bar.Foo" then means is decided by the order
// of the import lines, not by chance; both declare Foo, so either way it links.
func addTwinImport(t *rapid.T, b *j5sgen.Bundle, files map[string]string) bool {
	type cand struct{ file, pkg, obj string }
	var cands []cand
	var paths []string
	for f := range files {
		paths = append(paths, f)
	}
	sort.Strings(paths)
	for _, f := range paths {
		for _, p := range b.Packages {
			if !strings.Contains(files[f], "\nimport "+p.Name+"\n") {
				continue
			}
			segs := strings.Split(p.Name, ".")
			word := segs[len(segs)-2]
			if !strings.Contains(files[f], ":"+word+".") && !strings.Contains(files[f], "ref "+word+".") {
				continue
			}
			for _, pf := range p.Files {
				for _, d := range pf.Decls {
					if d.Object != nil {
						cands = append(cands, cand{f, p.Name, d.Object.Name})
					}
				}
			}
		}
	}
	if len(cands) == 0 {
		return false
	}
	c := rapid.SampledFrom(cands).Draw(t, "twin")
	segs := strings.Split(c.pkg, ".")
	segs[0] = "zeta"
	twin := strings.Join(segs, ".")
	for _, p := range b.Packages {
		if p.Name != c.pkg {
			continue
		}
		for _, pf := range p.Files {
			tp := "zeta" + pf.Path[strings.Index(pf.Path, "/"):]
			files[tp] = strings.ReplaceAll(files[pf.Path], c.pkg, twin)
		}
	}
	files[c.file] = strings.Replace(files[c.file], "\nimport "+c.pkg+"\n", "\nimport "+twin+"\nimport "+c.pkg+"\n", 1) +
		"\nobject TwinUser {\n\tfield twin object:" + twin + "." + c.obj + "\n}\n"
	return true
}

func TestDeterminism(t *testing.T) {
	r := vf.Start(t, prop, "determinism")
	// what a case depends on is in the case (its prelude included); a failure that
	// needs the cases before it as well cannot be replayed and is set aside
	r.ConfirmFresh()
	n := 0
	rapid.Check(t, func(t *rapid.T) {
		o := j5sgen.DefaultOpts()
		o.MaxPackages, o.MaxFiles = 3, 3
		o.OddNames = true
		o.Entities = true
		b, classes := j5sgen.Draw(t, o)
		files := b.Render()
		cls := []string{}
		// a generated file left over from an earlier run, next to its source (j5
		// writes X.j5s.proto beside X.j5s): it is not a source file, and the output
		// must not depend on where the listing puts it
		if rapid.IntRange(0, 2).Draw(t, "stale") == 0 {
			var srcs []string
			for f := range files {
				srcs = append(srcs, f)
			}
			sort.Strings(srcs)
			src := rapid.SampledFrom(srcs).Draw(t, "stalefor")
			pkg := strings.ReplaceAll(path.Dir(src), "/", ".")
			files[src+".proto"] = "syntax = \"proto3\";\n\npackage " + pkg + ";\n\nmessage StaleLeftover {\n  string was_here = 1;\n}\n"
			cls = append(cls, "stale-generated-file")
		}
		// a package nested under another package's directory (acme.v1 and
		// acme.v1.audit.v1): which package a file belongs to must not depend on the
		// order in which the packages are listed
		if rapid.IntRange(0, 3).Draw(t, "nestedpkg") == 0 {
			p0 := b.Packages[0]
			if d0 := p0.Files[0].Decls[0]; d0.Object != nil {
				dir := strings.ReplaceAll(p0.Name, ".", "/") + "/audit/v1"
				files[dir+"/nested.j5s"] = "package " + p0.Name + ".audit.v1\n\nimport " + p0.Name + "\n\nobject NestedAudit {\n\tfield subject object:" + p0.Name + "." + d0.Object.Name + "\n\tfield note string\n}\n"
				cls = append(cls, "nested-package")
			}
		}
		if rapid.IntRange(0, 2).Draw(t, "twinimport") == 0 && addTwinImport(t, b, files) {
			cls = append(cls, "imports-sharing-default-name")
		}
		c := detCase{Files: files, Repeats: 2}
		var names []string
		for f := range files {
			names = append(names, f)
		}
		sort.Strings(names)
		c.FileOrder = rapid.Permutation(names).Draw(t, "fileorder")
		pkgs := packages(files)
		c.PkgOrder = rapid.Permutation(pkgs).Draw(t, "pkgorder")
		c.CallOrder = rapid.Permutation(pkgs).Draw(t, "callorder")
		if rapid.Bool().Draw(t, "callagain") {
			c.CallOrder = append(c.CallOrder, c.CallOrder[0])
		}
		n++
		if vf.Tier() == "thorough" && n%8 == 0 {
			c.Subproc = true
		}
		if rapid.IntRange(0, 5).Draw(t, "prelude") == 0 {
			po := j5sgen.DefaultOpts()
			po.MaxPackages, po.MaxFiles = 1, 2
			pb, _ := j5sgen.Draw(t, po)
			c.Prelude = pb.Render()
			c.Subproc = true
			cls = append(cls, "earlier-compile")
		}
		nt := (classes["multi-file-package"] && classes["multi-package"]) || classes["enum-option-info"]
		for k := range classes {
			cls = append(cls, k)
		}
		if c.Subproc {
			cls = append(cls, "other-process")
		}
		r.Eval(nt, vf.Hash(files, c.FileOrder, c.CallOrder), cls...)
		if nt && len(files) == 2 && r.WantSample() {
			r.Sample(map[string]any{"file_order": c.FileOrder, "package_order": c.PkgOrder, "call_order": c.CallOrder})
		}
		r.Journal(c)
		r.Judge(t, c, check(c))
	})
}
