package c14

import (
	"context"
	"encoding/json"
	"fmt"
	"sort"
	"strings"
	"testing"

	"github.com/pentops/j5/internal/bcl/internal/verif/j5sx"
	"github.com/pentops/j5/internal/bcl/internal/verif/vf"
	"github.com/pentops/j5/internal/j5s/protobuild"
	"google.golang.org/protobuf/proto"
	"google.golang.org/protobuf/reflect/protodesc"
	"google.golang.org/protobuf/types/descriptorpb"
	"pgregory.net/rapid"
)

// lane: dependency files. The packages a bundle imports may come from a dependency
// image instead of from source; the image lists its files by path prefix, in no
// particular order (production ranges over a map). The output may depend neither
// on that order nor on files of other packages that share the prefix (dep/v1/sub/,
// dep/v1beta/), and a reference to dep.v1.T must mean dep.v1.T.

type depFile struct {
	Name    string   `json:"name"`
	Package string   `json:"package"`
	Types   []string `json:"types"` // message names; each gets one field named after the package
}

type depsCase struct {
	Source string    `json:"source"`
	Deps   []depFile `json:"dependency_files"`
	Orders [][]int   `json:"listing_orders"` // permutations of Deps
	Refs   []string  `json:"referenced"`     // full names the source refers to
}

func init() {
	lanes["deps"] = func(raw json.RawMessage) ([]vf.Failure, error) {
		var c depsCase
		if err := json.Unmarshal(raw, &c); err != nil {
			return nil, err
		}
		return checkDeps(c), nil
	}
}

type depSet struct {
	files map[string]*descriptorpb.FileDescriptorProto
	order []string
}

func (d *depSet) ListDependencyFiles(root string) []string {
	var out []string
	for _, n := range d.order {
		if strings.HasPrefix(n, root) {
			out = append(out, n)
		}
	}
	return out
}

func (d *depSet) GetDependencyFile(name string) (*descriptorpb.FileDescriptorProto, error) {
	if f, ok := d.files[name]; ok {
		return f, nil
	}
	return nil, fmt.Errorf("dependency file not found: %s", name)
}

func (c depsCase) compile(order []int) (map[string]output, []string, error) {
	ds := &depSet{files: map[string]*descriptorpb.FileDescriptorProto{}}
	for _, i := range order {
		d := c.Deps[i]
		fd := &descriptorpb.FileDescriptorProto{Name: proto.String(d.Name), Package: proto.String(d.Package), Syntax: proto.String("proto3")}
		for _, tn := range d.Types {
			field := "of_" + strings.ReplaceAll(d.Package, ".", "_")
			fd.MessageType = append(fd.MessageType, &descriptorpb.DescriptorProto{Name: proto.String(tn), Field: []*descriptorpb.FieldDescriptorProto{{
				Name: proto.String(field), JsonName: proto.String(field), Number: proto.Int32(1),
				Type: descriptorpb.FieldDescriptorProto_TYPE_STRING.Enum(), Label: descriptorpb.FieldDescriptorProto_LABEL_OPTIONAL.Enum(),
			}}})
		}
		ds.files[d.Name] = fd
		ds.order = append(ds.order, d.Name)
	}
	ps, err := protobuild.NewPackageSet(ds, &j5sx.Bundle{Files: map[string]string{"main/app/v1/main.j5s": c.Source}})
	if err != nil {
		return nil, nil, err
	}
	files, err := ps.CompilePackage(context.Background(), "main.app.v1")
	if err != nil {
		return nil, nil, err
	}
	out := map[string]output{}
	var types []string
	for _, f := range files {
		b, _ := proto.MarshalOptions{Deterministic: true}.Marshal(protodesc.ToFileDescriptorProto(f))
		tx, _ := j5sx.Print(f)
		out[f.Path()] = output{desc: string(b), text: tx}
		msgs := f.Messages()
		for i := 0; i < msgs.Len(); i++ {
			fs := msgs.Get(i).Fields()
			for k := 0; k < fs.Len(); k++ {
				if m := fs.Get(k).Message(); m != nil {
					types = append(types, string(m.FullName()))
				}
			}
		}
	}
	sort.Strings(types)
	return out, types, nil
}

func checkDeps(c depsCase) (fails []vf.Failure) {
	var res []vf.Failure
	if f := vf.GuardTimed("dependencies", callLimit, func() { res = checkDepsInner(c) }); f != nil {
		return []vf.Failure{*f}
	}
	return res
}

func checkDepsInner(c depsCase) (fails []vf.Failure) {
	var base map[string]output
	want := append([]string(nil), c.Refs...)
	sort.Strings(want)
	for i, order := range c.Orders {
		got, types, err := c.compile(order)
		if err != nil {
			if i == 0 {
				return []vf.Failure{vf.Failf("compile|error", "bundle with dependency files does not compile (C07's verdict): %v\n%s", err, c.Source)}
			}
			fails = append(fails, vf.Failf("compile|order-dependent-error", "compiles with the dependency files listed in order %v but not in order %v: %v", c.Orders[0], order, err))
			continue
		}
		if strings.Join(types, ",") != strings.Join(want, ",") {
			fails = append(fails, vf.Failf("dependency|reference-resolves-elsewhere", "dependency files listed in order %v: the fields refer to %v, the source to %v\n%s", order, types, want, c.Source))
		}
		if i == 0 {
			base = got
			continue
		}
		fails = append(fails, compare("dependency-listing-order", base, got)...)
	}
	return dedupe(fails)
}

func TestDeps(t *testing.T) {
	r := vf.Start(t, prop, "deps")
	rapid.Check(t, func(t *rapid.T) {
		c := depsCase{}
		typeNames := []string{"Thing", "Other", "Third"}
		// the imported package, in one or two files, and neighbours that share its path prefix
		nOwn := rapid.IntRange(1, 2).Draw(t, "ownfiles")
		var ownTypes []string
		for i := 0; i < nOwn; i++ {
			tn := typeNames[i]
			c.Deps = append(c.Deps, depFile{Name: fmt.Sprintf("dep/v1/f%d.proto", i), Package: "dep.v1", Types: []string{tn}})
			ownTypes = append(ownTypes, tn)
		}
		cls := []string{fmt.Sprintf("own-files:%d", nOwn)}
		for _, nb := range []struct{ dir, pkg, cl string }{{"dep/v1/sub/", "dep.v1.sub", "neighbour:sub-package"}, {"dep/v1beta/", "dep.v1beta", "neighbour:longer-name"}, {"dep/v1/service/", "dep.v1.service", "neighbour:service"}} {
			if rapid.Bool().Draw(t, "neighbour") {
				// declares the same type names as the imported package (or a subset)
				n := rapid.IntRange(1, len(typeNames)).Draw(t, "nbtypes")
				c.Deps = append(c.Deps, depFile{Name: nb.dir + "n.proto", Package: nb.pkg, Types: typeNames[:n]})
				cls = append(cls, nb.cl)
			}
		}
		var sb strings.Builder
		sb.WriteString("package main.app.v1\n\nimport dep.v1\n\nobject User {\n")
		for i, tn := range ownTypes {
			spelling := rapid.SampledFrom([]string{"dep.v1.", "dep."}).Draw(t, "spelling")
			fmt.Fprintf(&sb, "\tfield f%d object:%s%s\n", i, spelling, tn)
			c.Refs = append(c.Refs, "dep.v1."+tn)
		}
		sb.WriteString("}\n")
		c.Source = sb.String()
		idx := make([]int, len(c.Deps))
		for i := range idx {
			idx[i] = i
		}
		c.Orders = [][]int{idx}
		for k := 0; k < 3; k++ {
			c.Orders = append(c.Orders, rapid.Permutation(idx).Draw(t, "order"))
		}
		r.Eval(len(c.Deps) > nOwn, vf.Hash(c), cls...)
		if len(c.Deps) > 2 && r.WantSample() {
			r.Sample(c)
		}
		r.Journal(c)
		r.Judge(t, c, checkDeps(c))
	})
}
