package j5sgen

import (
	"fmt"
	"sort"
	"strconv"
	"strings"
)

// ExpectedSchemas derives, from the model alone, the J5 schema of every object,
// oneof and enum the package declares (including inline / nested types and the
// generated request / response / topic messages), as SchemaLines-compatible
// lines keyed by "package/SchemaName".
func (b *Bundle) ExpectedSchemas(pkgName string) map[string][]string {
	out := map[string][]string{}
	for _, p := range b.Packages {
		if p.Name != pkgName {
			continue
		}
		for _, f := range p.Files {
			main := &schemaCtx{out: out, pkg: p.Name, srcPkg: p.Name}
			svc := &schemaCtx{out: out, pkg: p.Name + ".service", srcPkg: p.Name}
			top := &schemaCtx{out: out, pkg: p.Name + ".topic", srcPkg: p.Name}
			for _, d := range f.Decls {
				switch {
				case d.Object != nil:
					main.object(d.Object.Name, d.Object.Desc, d.Object.Fields, nil, d.Object.Nested)
				case d.Oneof != nil:
					main.oneof(d.Oneof.Name, d.Oneof)
				case d.Enum != nil:
					main.enum(d.Enum.Name, d.Enum)
				case d.Service != nil:
					for _, m := range d.Service.Methods {
						svc.object(m.Name+"Request", "", m.Request, nil, nil)
						if !m.NoResponse {
							svc.object(m.Name+"Response", "", m.Response, nil, nil)
						}
					}
				case d.Topic != nil:
					t := d.Topic
					switch t.Kind {
					case "publish":
						for _, m := range t.Messages {
							top.object(m.Name+"Message", "", m.Fields, nil, nil)
						}
					case "upsert":
						for _, m := range t.Messages {
							n := m.Name
							if n == "" {
								n = t.Name
							}
							top.object(n+"Message", "", m.Fields, []*Field{metaField("upsert", "UpsertMetadata")}, nil)
						}
					case "event":
						for _, m := range t.Messages {
							n := m.Name
							if n == "" {
								n = t.Name
							}
							top.object(n+"Message", "", m.Fields, nil, nil)
						}
					case "reqres":
						meta := []*Field{metaField("request", "RequestMetadata")}
						for _, m := range append([]*TopicMessage{t.Request}, t.MoreRequests...) {
							n := m.Name
							if n == "" {
								n = t.Name + "Request"
							}
							top.object(n+"Message", "", m.Fields, meta, nil)
						}
						for _, m := range append([]*TopicMessage{t.Reply}, t.MoreReplies...) {
							n := m.Name
							if n == "" {
								n = t.Name + "Reply"
							}
							top.object(n+"Message", "", m.Fields, meta, nil)
						}
					}
				}
			}
		}
	}
	for k := range out {
		sort.Strings(out[k])
	}
	return out
}

type schemaCtx struct {
	out    map[string][]string
	pkg    string
	srcPkg string
}

// descOf mirrors how a description survives the trip through proto comments:
// lines are trimmed.
func normDesc(d string) string {
	lines := strings.Split(d, "\n")
	for i := range lines {
		lines[i] = strings.TrimSpace(lines[i])
	}
	return strings.Join(lines, "\n")
}

func (c *schemaCtx) add(key, path, val string) {
	c.out[key] = append(c.out[key], fmt.Sprintf("%s.%s = %s", key, path, val))
}

func qq(s string) string { return fmt.Sprintf("%q", s) }

// schemaName of a nested type: parent names joined with "_".
func (c *schemaCtx) object(name, desc string, fields, prepend []*Field, nested []*Object) {
	key := c.pkg + "/" + name
	c.add(key, "type", "object")
	c.add(key, "object.name", qq(name))
	if desc != "" {
		c.add(key, "object.description", qq(normDesc(desc)))
	}
	c.properties(key, "object.properties", name, append(append([]*Field{}, prepend...), fields...))
	for _, n := range nested {
		c.object(name+"_"+n.Name, n.Desc, n.Fields, nil, n.Nested)
	}
}

func (c *schemaCtx) oneof(name string, o *Oneof) {
	key := c.pkg + "/" + name
	c.add(key, "type", "oneof")
	c.add(key, "oneof.name", qq(name))
	if o.Desc != "" {
		c.add(key, "oneof.description", qq(normDesc(o.Desc)))
	}
	c.properties(key, "oneof.properties", name, o.Options)
}

func (c *schemaCtx) enum(name string, e *Enum) {
	key := c.pkg + "/" + name
	simple := name
	if i := strings.LastIndex(name, "_"); i >= 0 {
		simple = name[i+1:]
	}
	prefix := e.Prefix
	if prefix == "" {
		prefix = screaming(simple) + "_"
	}
	c.add(key, "type", "enum")
	c.add(key, "enum.name", qq(name))
	c.add(key, "enum.prefix", qq(prefix))
	if e.Desc != "" {
		c.add(key, "enum.description", qq(normDesc(e.Desc)))
	}
	names := []string{"UNSPECIFIED"}
	c.add(key, "enum.options[UNSPECIFIED].name", qq("UNSPECIFIED"))
	if z := e.ExplicitZero; z != nil {
		if z.Desc != "" {
			c.add(key, "enum.options[UNSPECIFIED].description", qq(normDesc(z.Desc)))
		}
		for k, v := range z.Info {
			c.add(key, fmt.Sprintf("enum.options[UNSPECIFIED].info[%s]", k), qq(v))
		}
	}
	for i, o := range e.Options {
		names = append(names, o.Name)
		p := fmt.Sprintf("enum.options[%s]", o.Name)
		c.add(key, p+".name", qq(o.Name))
		c.add(key, p+".number", strconv.Itoa(i+1))
		if o.Desc != "" {
			c.add(key, p+".description", qq(normDesc(o.Desc)))
		}
		for k, v := range o.Info {
			c.add(key, fmt.Sprintf("%s.info[%s]", p, k), qq(v))
		}
	}
	c.add(key, "enum.options.order", strings.Join(names, ","))
}

func (c *schemaCtx) properties(key, base, parentSchema string, fields []*Field) {
	var names []string
	for i, f := range fields {
		names = append(names, f.Name)
		p := fmt.Sprintf("%s[%s]", base, f.Name)
		c.add(key, p+".name", qq(f.Name))
		c.add(key, p+".proto_field[0]", strconv.Itoa(i+1))
		if f.Required || f.Primary {
			c.add(key, p+".required", "true")
		}
		if f.Optional && f.Type.Kind != "array" && f.Type.Kind != "map" {
			c.add(key, p+".explicitly_optional", "true")
		}
		if f.Desc != "" {
			c.add(key, p+".description", qq(normDesc(f.Desc)))
		}
		c.field(key, p+".schema", parentSchema, f.Name, f.Type, f)
	}
	if len(names) > 0 {
		c.add(key, base+".order", strings.Join(names, ","))
	}
}

func (c *schemaCtx) ref(key, path string, r *Ref) {
	pkg := r.Package
	if pkg == "" {
		pkg = c.srcPkg
	}
	c.add(key, path+".schema", "ref")
	c.add(key, path+".ref.package", qq(pkg))
	c.add(key, path+".ref.schema", qq(r.Name))
}

func (c *schemaCtx) listRules(key, path string, t *Type) {
	l := t.List
	if l == nil {
		return
	}
	lp := path + ".list_rules"
	if l.Filterable != nil && *l.Filterable {
		c.add(key, lp+".filtering.filterable", "true")
	}
	for i, d := range l.DefaultFilters {
		c.add(key, fmt.Sprintf("%s.filtering.default_filters[%d]", lp, i), qq(d))
	}
	if l.Sortable != nil && *l.Sortable {
		c.add(key, lp+".sorting.sortable", "true")
	}
	if l.DefaultSort != nil && *l.DefaultSort {
		c.add(key, lp+".sorting.default_sort", "true")
	}
	if l.Searchable != nil && *l.Searchable {
		c.add(key, lp+".searching.searchable", "true")
	}
	if l.FieldID != nil {
		c.add(key, lp+".searching.field_identifier", qq(*l.FieldID))
	}
}

func (c *schemaCtx) field(key, path, parentSchema, fieldName string, t *Type, f *Field) {
	c.add(key, path+".type", t.Kind)
	kp := path + "." + t.Kind
	r := t.Rules
	switch t.Kind {
	case "string":
		if r != nil {
			if r.MinLength != nil {
				c.add(key, kp+".rules.min_length", u(r.MinLength))
			}
			if r.MaxLength != nil {
				c.add(key, kp+".rules.max_length", u(r.MaxLength))
			}
			if r.Pattern != nil {
				c.add(key, kp+".rules.pattern", qq(*r.Pattern))
			}
		}
	case "bytes":
		if r != nil {
			if r.MinLength != nil {
				c.add(key, kp+".rules.min_length", u(r.MinLength))
			}
			if r.MaxLength != nil {
				c.add(key, kp+".rules.max_length", u(r.MaxLength))
			}
		}
	case "bool":
		if r != nil && r.Const != nil {
			c.add(key, kp+".rules.const", strconv.FormatBool(*r.Const))
		}
	case "integer":
		c.add(key, kp+".format", "FORMAT_"+t.Format)
		if r != nil {
			if r.Minimum != nil {
				c.add(key, kp+".rules.minimum", strconv.FormatInt(*r.Minimum, 10))
			}
			if r.Maximum != nil {
				c.add(key, kp+".rules.maximum", strconv.FormatInt(*r.Maximum, 10))
			}
			if r.ExclusiveMin != nil && *r.ExclusiveMin {
				c.add(key, kp+".rules.exclusive_minimum", "true")
			}
			if r.ExclusiveMax != nil && *r.ExclusiveMax {
				c.add(key, kp+".rules.exclusive_maximum", "true")
			}
			if r.MultipleOf != nil {
				c.add(key, kp+".rules.multiple_of", strconv.FormatInt(*r.MultipleOf, 10))
			}
		}
	case "float":
		c.add(key, kp+".format", "FORMAT_"+t.Format)
	case "date", "decimal":
		if r != nil {
			if r.MinStr != nil {
				c.add(key, kp+".rules.minimum", qq(*r.MinStr))
			}
			if r.MaxStr != nil {
				c.add(key, kp+".rules.maximum", qq(*r.MaxStr))
			}
			if r.ExclusiveMin != nil && *r.ExclusiveMin {
				c.add(key, kp+".rules.exclusive_minimum", "true")
			}
			if r.ExclusiveMax != nil && *r.ExclusiveMax {
				c.add(key, kp+".rules.exclusive_maximum", "true")
			}
		}
	case "key":
		switch t.Format {
		case "id62", "uuid":
			c.add(key, kp+".format.type", t.Format)
		case "custom":
			c.add(key, kp+".format.type", "custom")
			c.add(key, kp+".format.custom.pattern", qq(t.KeyPattern))
		}
		if f != nil {
			switch {
			case f.Primary:
				c.add(key, kp+".entity.type", "primary_key")
				c.add(key, kp+".entity.primary_key", "true")
			case f.Foreign != "":
				i := strings.LastIndex(f.Foreign, ".")
				c.add(key, kp+".entity.type", "foreign_key")
				c.add(key, kp+".entity.foreign_key.package", qq(f.Foreign[:i]))
				c.add(key, kp+".entity.foreign_key.entity", qq(f.Foreign[i+1:]))
			}
			if f.Tenant != "" {
				c.add(key, kp+".entity.tenant_key", qq(f.Tenant))
			}
		}
		switch {
		case t.KeyPrimary:
			c.add(key, kp+".entity.type", "primary_key")
			c.add(key, kp+".entity.primary_key", "true")
		case t.KeyForeign != "":
			i := strings.LastIndex(t.KeyForeign, ".")
			c.add(key, kp+".entity.type", "foreign_key")
			c.add(key, kp+".entity.foreign_key.package", qq(t.KeyForeign[:i]))
			c.add(key, kp+".entity.foreign_key.entity", qq(t.KeyForeign[i+1:]))
		}
		if t.KeyTenant != "" {
			c.add(key, kp+".entity.tenant_key", qq(t.KeyTenant))
		}
	case "any":
		if t.AnyOnlyDefined {
			c.add(key, kp+".only_defined", "true")
		}
		for i, ty := range t.AnyTypes {
			c.add(key, fmt.Sprintf("%s.types[%d]", kp, i), qq(ty))
		}
	case "object":
		if t.Flatten {
			c.add(key, kp+".flatten", "true")
		}
		if r != nil {
			if r.MinProps != nil {
				c.add(key, kp+".rules.min_properties", u(r.MinProps))
			}
			if r.MaxProps != nil {
				c.add(key, kp+".rules.max_properties", u(r.MaxProps))
			}
		}
		if t.Ref != nil {
			c.ref(key, kp, t.Ref)
		} else {
			name := camel(fieldName)
			if t.NameOverride {
				name = t.InlineObject.Name
			}
			full := parentSchema + "_" + name
			c.ref(key, kp, &Ref{Package: c.pkg, Name: full})
			c.object(full, t.InlineObject.Desc, t.InlineObject.Fields, nil, nil)
		}
	case "oneof":
		if t.Ref != nil {
			c.ref(key, kp, t.Ref)
		} else {
			name := camel(fieldName)
			if t.NameOverride {
				name = t.InlineOneof.Name
			}
			full := parentSchema + "_" + name
			c.ref(key, kp, &Ref{Package: c.pkg, Name: full})
			c.oneof(full, t.InlineOneof)
		}
	case "enum":
		if r != nil {
			for i, v := range r.In {
				c.add(key, fmt.Sprintf("%s.rules.in[%d]", kp, i), qq(v))
			}
			for i, v := range r.NotIn {
				c.add(key, fmt.Sprintf("%s.rules.not_in[%d]", kp, i), qq(v))
			}
		}
		if t.Ref != nil {
			c.ref(key, kp, t.Ref)
		} else {
			name := camel(fieldName)
			if t.NameOverride {
				name = t.InlineEnum.Name
			}
			full := parentSchema + "_" + name
			c.ref(key, kp, &Ref{Package: c.pkg, Name: full})
			c.enum(full, t.InlineEnum)
		}
	case "array":
		if t.SingleForm != "" {
			c.add(key, kp+".ext.single_form", qq(t.SingleForm))
		}
		if r != nil {
			if r.MinItems != nil {
				c.add(key, kp+".rules.min_items", u(r.MinItems))
			}
			if r.MaxItems != nil {
				c.add(key, kp+".rules.max_items", u(r.MaxItems))
			}
			if r.Unique != nil && *r.Unique {
				c.add(key, kp+".rules.unique_items", "true")
			}
		}
		c.field(key, kp+".items", parentSchema, fieldName, t.Items, nil)
		return
	case "map":
		if t.SingleForm != "" {
			c.add(key, kp+".ext.single_form", qq(t.SingleForm))
		}
		if r != nil {
			if r.MinPairs != nil {
				c.add(key, kp+".rules.min_pairs", u(r.MinPairs))
			}
			if r.MaxPairs != nil {
				c.add(key, kp+".rules.max_pairs", u(r.MaxPairs))
			}
		}
		c.field(key, kp+".item_schema", parentSchema, fieldName, t.Items, nil)
		return
	}
	c.listRules(key, kp, t)
}
