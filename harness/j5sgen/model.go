// Package j5sgen is G1: an abstract model of a j5s bundle, drawn by rapid, from
// which the source text, the expected descriptors (C02/C13/C17), the expected J5
// schema (C04) and rule semantics (C12) are derived independently of j5.
package j5sgen

// Bundle is the root of the model. Everything is JSON-serialisable: the model is
// the replay unit.
type Bundle struct {
	Packages []*Package `json:"packages"`
}

type Package struct {
	Name  string  `json:"name"` // e.g. "alpha.beta.v1"
	Files []*File `json:"files"`
}

type Import struct {
	Package string `json:"package"`
	Alias   string `json:"alias,omitempty"` // "" = default (last-but-one segment)
	ByFile  string `json:"by_file,omitempty"`
}

type File struct {
	Path    string    `json:"path"` // alpha/beta/v1/name.j5s
	Imports []*Import `json:"imports,omitempty"`
	Decls   []*Decl   `json:"decls"`
	// Noise controls purely syntactic variety of the rendering.
	Noise int `json:"noise"`
}

type Decl struct {
	Object  *Object  `json:"object,omitempty"`
	Oneof   *Oneof   `json:"oneof,omitempty"`
	Enum    *Enum    `json:"enum,omitempty"`
	Service *Service `json:"service,omitempty"`
	Topic   *Topic   `json:"topic,omitempty"`
	Entity  *Entity  `json:"entity,omitempty"`
}

type Object struct {
	Name   string    `json:"name"`
	Desc   string    `json:"desc,omitempty"`
	Fields []*Field  `json:"fields"`
	Nested []*Object `json:"nested,omitempty"` // explicit `object X {}` inside the body
}

type Oneof struct {
	Name    string   `json:"name"`
	Desc    string   `json:"desc,omitempty"`
	Options []*Field `json:"options"` // every option is an object (ref or inline)
}

type EnumOption struct {
	Name string            `json:"name"`
	Desc string            `json:"desc,omitempty"`
	Info map[string]string `json:"info,omitempty"`
	// Number: an explicit `number = N`. The language accepts it; options are
	// numbered by position all the same (C02), so no expectation depends on it.
	Number *int32 `json:"number,omitempty"`
}

type Enum struct {
	Name    string        `json:"name"`
	Desc    string        `json:"desc,omitempty"`
	Prefix  string        `json:"prefix,omitempty"` // "" = default
	Options []*EnumOption `json:"options"`
	// ExplicitZero: the zero option is written out (`option UNSPECIFIED`), possibly
	// with a description; otherwise it is implicit
	ExplicitZero *EnumOption `json:"explicit_zero,omitempty"`
}

// Field is an object property, oneof option, entity key / data field, request or
// message field.
type Field struct {
	Name     string `json:"name"`
	Desc     string `json:"desc,omitempty"`
	Required bool   `json:"required,omitempty"`
	Optional bool   `json:"optional,omitempty"`
	// Style: how required/optional are written. 0: "!"/"?" mark, 1: body attribute,
	// 2: body attribute with the long name (explicitlyOptional)
	Style int   `json:"style,omitempty"`
	Type  *Type `json:"type"`
	// entity key markers
	Primary bool `json:"primary,omitempty"`
	// PrimaryFalse: `primary = false` written out (allowed "to self-document")
	PrimaryFalse bool   `json:"primary_false,omitempty"`
	Foreign      string `json:"foreign,omitempty"` // "pkg.Entity"
	Tenant       string `json:"tenant,omitempty"`
	Shard        bool   `json:"shard,omitempty"`
}

type Ref struct {
	Package string `json:"package"` // full package of the target
	Name    string `json:"name"`
	// Spelling: "" bare (same package), "full" (full package), "short"
	// (last-but-one segment), "alias:<x>"
	Spelling string `json:"spelling,omitempty"`
	// BodyRef: written as `ref X` in the body instead of a qualifier
	BodyRef bool `json:"body_ref,omitempty"`
}

// Type is a field type.
type Type struct {
	Kind   string `json:"kind"` // string bool integer float bytes date decimal timestamp key any object oneof enum array map
	Format string `json:"format,omitempty"`
	// key
	KeyPattern string `json:"key_pattern,omitempty"`
	// entity-key annotations on a plain key field or on key items (entity blocks
	// carry theirs on the Field)
	KeyPrimary bool   `json:"key_primary,omitempty"`
	// KeyPrimaryFalse: entity.primaryKey = false written out (no key at all, said aloud)
	KeyPrimaryFalse bool `json:"key_primary_false,omitempty"`
	KeyForeign string `json:"key_foreign,omitempty"` // "pkg.Entity"
	KeyTenant  string `json:"key_tenant,omitempty"`
	// object/oneof/enum
	Ref          *Ref    `json:"ref,omitempty"`
	InlineObject *Object `json:"inline_object,omitempty"`
	InlineOneof  *Oneof  `json:"inline_oneof,omitempty"`
	InlineEnum   *Enum   `json:"inline_enum,omitempty"`
	NameOverride bool    `json:"name_override,omitempty"` // inline type has an explicit name different from the default
	Flatten      bool    `json:"flatten,omitempty"`
	// array / map
	Items *Type `json:"items,omitempty"`
	// SingleForm: ext.singleForm of an array or map ("" = not declared)
	SingleForm string     `json:"single_form,omitempty"`
	Rules      *Rules     `json:"rules,omitempty"`
	List       *ListRules `json:"list,omitempty"`
	// any
	AnyOnlyDefined bool     `json:"any_only_defined,omitempty"`
	AnyTypes       []string `json:"any_types,omitempty"`
}

// Rules holds every validation rule the generator can express; which apply
// depends on Type.Kind.
type Rules struct {
	MinLength *uint64 `json:"min_length,omitempty"` // string, bytes
	MaxLength *uint64 `json:"max_length,omitempty"`
	Pattern   *string `json:"pattern,omitempty"` // string

	Minimum      *int64 `json:"minimum,omitempty"` // integer
	Maximum      *int64 `json:"maximum,omitempty"`
	ExclusiveMin *bool  `json:"exclusive_min,omitempty"`
	ExclusiveMax *bool  `json:"exclusive_max,omitempty"`

	MinStr *string `json:"min_str,omitempty"` // date, decimal
	MaxStr *string `json:"max_str,omitempty"`

	Const *bool `json:"const,omitempty"` // bool

	MinItems *uint64 `json:"min_items,omitempty"` // array
	MaxItems *uint64 `json:"max_items,omitempty"`
	Unique   *bool   `json:"unique,omitempty"`

	MinPairs *uint64 `json:"min_pairs,omitempty"` // map
	MaxPairs *uint64 `json:"max_pairs,omitempty"`

	MultipleOf *int64  `json:"multiple_of,omitempty"`    // integer
	MinProps   *uint64 `json:"min_properties,omitempty"` // object
	MaxProps   *uint64 `json:"max_properties,omitempty"`

	In    []string `json:"in,omitempty"` // enum
	NotIn []string `json:"not_in,omitempty"`
}

type ListRules struct {
	Filterable     *bool    `json:"filterable,omitempty"`
	DefaultFilters []string `json:"default_filters,omitempty"`
	Sortable       *bool    `json:"sortable,omitempty"`
	DefaultSort    *bool    `json:"default_sort,omitempty"`
	Searchable     *bool    `json:"searchable,omitempty"`
	FieldID        *string  `json:"field_identifier,omitempty"`
}

type Method struct {
	Name       string   `json:"name"`
	Desc       string   `json:"desc,omitempty"`
	HTTPMethod string   `json:"http_method"`
	HTTPPath   string   `json:"http_path"`
	Request    []*Field `json:"request"`
	Response   []*Field `json:"response"`
	NoResponse bool     `json:"no_response,omitempty"`
	// method options block
	Label  string `json:"label,omitempty"`
	Hidden bool   `json:"hidden,omitempty"`
}

type Service struct {
	Name     string    `json:"name"`
	BasePath string    `json:"base_path,omitempty"`
	Methods  []*Method `json:"methods"`
	// Audience: declared through an options block (options { audience = [...] })
	Audience []string `json:"audience,omitempty"`
}

type TopicMessage struct {
	Name   string   `json:"name,omitempty"`
	Fields []*Field `json:"fields"`
}

type Topic struct {
	Name     string          `json:"name"`
	Kind     string          `json:"kind"` // publish | reqres | upsert | event
	Messages []*TopicMessage `json:"messages,omitempty"`
	Request  *TopicMessage   `json:"request,omitempty"`
	Reply    *TopicMessage   `json:"reply,omitempty"`
	// reqres: further (named) request / reply messages
	MoreRequests []*TopicMessage `json:"more_requests,omitempty"`
	MoreReplies  []*TopicMessage `json:"more_replies,omitempty"`
	// event: the entity the events belong to ("pkg/name")
	EntityName string `json:"entity_name,omitempty"`
}

type Event struct {
	Name   string   `json:"name"`
	Fields []*Field `json:"fields"`
}

type Entity struct {
	Name      string          `json:"name"`
	Desc      string          `json:"desc,omitempty"`
	BaseURL   string          `json:"base_url,omitempty"`
	Keys      []*Field        `json:"keys"`
	Data      []*Field        `json:"data"`
	Statuses  []*EnumOption   `json:"statuses"`
	Events    []*Event        `json:"events"`
	Commands  []*Service      `json:"commands,omitempty"`
	Summaries []*TopicMessage `json:"summaries,omitempty"`
	// Nested: objects / enums / oneofs declared inside the entity block; they become
	// ordinary schemas of the package and are referenced from the entity's fields
	Nested []*Decl `json:"nested,omitempty"`
	// query settings
	EventsInGet         bool     `json:"events_in_get,omitempty"`
	DefaultStatusFilter []string `json:"default_status_filter,omitempty"`
}
