package j5sgen

import "strings"

// The harness's own case conversions. They are only exact for the generator's
// vocabulary (letters, lowerCamel / UpperCamel words without acronym runs or
// digits); names outside it are never fed to an expected model.

func snake(s string) string {
	var sb strings.Builder
	for i, r := range s {
		if r >= 'A' && r <= 'Z' {
			if i > 0 {
				sb.WriteByte('_')
			}
			sb.WriteRune(r - 'A' + 'a')
		} else {
			sb.WriteRune(r)
		}
	}
	return sb.String()
}

func camel(s string) string {
	if s == "" {
		return s
	}
	var sb strings.Builder
	up := true
	for _, r := range s {
		if r == '_' {
			up = true
			continue
		}
		if up && r >= 'a' && r <= 'z' {
			r = r - 'a' + 'A'
		}
		up = false
		sb.WriteRune(r)
	}
	return sb.String()
}

func screaming(s string) string { return strings.ToUpper(snake(s)) }

func (r *Rules) empty() bool {
	return r.MinLength == nil && r.MaxLength == nil && r.Pattern == nil && r.Minimum == nil && r.Maximum == nil &&
		r.ExclusiveMin == nil && r.ExclusiveMax == nil && r.MinStr == nil && r.MaxStr == nil && r.Const == nil &&
		r.MinItems == nil && r.MaxItems == nil && r.Unique == nil && r.MinPairs == nil && r.MaxPairs == nil && len(r.In) == 0 && len(r.NotIn) == 0
}
