package j5sgen

import (
	"fmt"
	"strings"

	"pgregory.net/rapid"
)

// Opts selects which parts of the language a generated bundle may use.
type Opts struct {
	MaxPackages int
	MaxFiles    int
	Services    bool
	Topics      bool
	Entities    bool
	// OddMethodNames: method names with acronym runs, a lower-case initial, digits
	// or underscores (C02)
	OddMethodNames bool
	// KeyEntity: entity-key annotations (foreign / primary / tenant) on key fields
	// and key items outside entity blocks
	KeyEntity  bool
	Rules      bool
	ListRules  bool
	Descs      bool
	OddNames   bool // acronym / digit names (no expected-model lanes)
	EntityOnly bool // every file gets an entity (C17)
	// OddPathParams: scalar request fields that become path parameters may get a name
	// that does not survive camel -> snake -> camel (userID, snake_name, aB); C16
	OddPathParams bool
	// UndocumentedRules: rules the schema proto defines but the README does not
	// mention (integer multipleOf, object minProperties / maxProperties); C04
	UndocumentedRules bool
	Noise             bool
	// Mask disables features that are excluded by construction because of an open
	// finding; the key names are those used in Classes.
	Mask map[string]bool
}

func DefaultOpts() Opts {
	return Opts{MaxPackages: 2, MaxFiles: 2, Services: true, Topics: true, Rules: true, ListRules: true, Descs: true, Noise: true, KeyEntity: true}
}

// j5, buf and google are also the roots of the packages every generated file
// refers to (annotations, validate rules, well-known types)
var pkgWords = []string{"alpha", "beta", "gamma", "delta", "omega", "sigma", "kappa", "theta", "j5", "buf", "google"}
var typeWords = []string{"Order", "Item", "User", "Account", "Ledger", "Entry", "Shape", "Point", "Route", "Stop", "Ticket", "Note", "Plan", "Task", "Door", "Lamp"}
var fieldWords = []string{"name", "title", "count", "total", "label", "code", "size", "level", "owner", "parent", "child", "first", "last", "next", "color", "weight", "height", "width", "depth", "score"}
var fieldWords2 = []string{"Id", "Name", "Count", "Type", "Code", "Date", "Key", "List", "Map", "Value"}
var oddNames = []string{"userID", "line2", "HTTPServer", "snake_name", "x", "aB", "urlV2", "ID"}
var enumWords = []string{"ACTIVE", "INACTIVE", "PENDING", "DONE", "RED", "GREEN", "BLUE", "SMALL", "LARGE", "OPEN", "CLOSED", "PHASE2", "STEP_3", "V1"}
var descPool = []string{"A short description.", "Second line\nof text", "Uses \"quotes\" and a \\ backslash", "Multi paragraph\n\nsecond paragraph", "unicode é名", "trailing words here", "Has // slashes and /* stars */"}
var patternPool = []string{"^[a-z]+$", "^\\d{3}$", "^[A-Z][a-z0-9_]*$", "^a.b$", "^(x|y)z?$", "^[^/]+$", "^[😀-🙏]+$", "^é名$"}

// typeInfo is a declared (referencable) top-level type.
type typeInfo struct {
	pkg, name, kind string
	pkgIdx, fileIdx int
	leaf            bool // object with only scalar fields (safe flatten target)
	enum            *Enum
	object          *Object
}

type gen struct {
	t       *rapid.T
	o       Opts
	b       *Bundle
	types   []*typeInfo
	used    map[string]bool        // type names per package: pkg+"."+name
	derived map[string][][2]string // per package: {stem, suffix} of user types named like derived messages
	Classes map[string]bool
	cur     struct{ pkgIdx, fileIdx int }
	curFile *File
	curPkg  *Package
}

func (g *gen) cls(c string) { g.Classes[c] = true }

func (g *gen) masked(c string) bool { return g.o.Mask != nil && g.o.Mask[c] }

func (g *gen) typeName(pkg string) string {
	for i := 0; ; i++ {
		n := rapid.SampledFrom(typeWords).Draw(g.t, "tw1")
		if i > 2 || rapid.Bool().Draw(g.t, "tw2on") {
			n += rapid.SampledFrom(typeWords).Draw(g.t, "tw2")
		}
		if i > 6 {
			n += rapid.SampledFrom(typeWords).Draw(g.t, "tw3")
		}
		if !g.used[pkg+"."+n] {
			g.used[pkg+"."+n] = true
			return n
		}
	}
}

func (g *gen) fieldName(taken map[string]bool) string {
	for i := 0; ; i++ {
		var n string
		if g.o.OddNames && rapid.IntRange(0, 4).Draw(g.t, "odd") == 0 {
			n = rapid.SampledFrom(oddNames).Draw(g.t, "oddname")
		} else {
			n = rapid.SampledFrom(fieldWords).Draw(g.t, "fw1")
			if i > 1 || rapid.Bool().Draw(g.t, "fw2on") {
				n += rapid.SampledFrom(fieldWords2).Draw(g.t, "fw2")
			}
			if i > 5 {
				n += rapid.SampledFrom(fieldWords2).Draw(g.t, "fw3")
			}
		}
		if !taken[strings.ToLower(snake(n))] {
			taken[strings.ToLower(snake(n))] = true
			return n
		}
	}
}

func (g *gen) desc() string {
	if !g.o.Descs || rapid.IntRange(0, 2).Draw(g.t, "hasdesc") != 0 {
		return ""
	}
	g.cls("description")
	return rapid.SampledFrom(descPool).Draw(g.t, "desc")
}

func ptr[T any](v T) *T { return &v }

// Draw generates a bundle.
func Draw(t *rapid.T, o Opts) (*Bundle, map[string]bool) {
	g := &gen{t: t, o: o, b: &Bundle{}, used: map[string]bool{}, derived: map[string][][2]string{}, Classes: map[string]bool{}}
	np := rapid.IntRange(1, max(1, o.MaxPackages)).Draw(t, "npkgs")
	pw := rapid.Permutation(pkgWords).Draw(t, "pkgwords")
	for i := 0; i < np; i++ {
		second := pw[2*i+1]
		if i > 0 && rapid.IntRange(0, 2).Draw(t, "sharedsegment") == 0 {
			// two packages whose default import name (last-but-one segment) is the same
			second = pkgWordOf(g.b.Packages[rapid.IntRange(0, i-1).Draw(t, "sharewith")].Name)
			g.cls("shared-package-word")
		}
		p := &Package{Name: fmt.Sprintf("%s.%s.v1", pw[2*i], second)}
		nf := rapid.IntRange(1, max(1, o.MaxFiles)).Draw(t, "nfiles")
		for k := 0; k < nf; k++ {
			f := &File{Path: fmt.Sprintf("%s/%s.j5s", strings.ReplaceAll(p.Name, ".", "/"), []string{"main", "extra", "more"}[k])}
			if o.Noise {
				f.Noise = rapid.IntRange(0, 1<<20).Draw(t, "noise")
			}
			p.Files = append(p.Files, f)
		}
		g.b.Packages = append(g.b.Packages, p)
	}
	if np > 1 {
		g.cls("multi-package")
	}
	serviceOnly := map[int]bool{}
	// phase 1: plan referencable type headers so fields can point anywhere
	for pi, p := range g.b.Packages {
		for fi := range p.Files {
			n := rapid.IntRange(1, 4).Draw(t, "ntypes")
			if pi > 0 && len(p.Files) == 1 && (o.Services || o.Topics) && !o.EntityOnly && rapid.IntRange(0, 4).Draw(t, "svconly") == 0 {
				// a package that declares nothing but a service or a topic: all its
				// messages live in the .service / .topic sub-package
				n = 0
				serviceOnly[pi] = true
				g.cls("package-without-own-schemas")
			}
			for k := 0; k < n; k++ {
				kind := rapid.SampledFrom([]string{"object", "object", "object", "enum", "oneof"}).Draw(t, "declkind")
				if pi == 0 && fi == 0 && k == 0 {
					kind = "object"
				}
				ti := &typeInfo{pkg: p.Name, name: g.typeName(p.Name), kind: kind, pkgIdx: pi, fileIdx: fi}
				if (o.Services || o.Topics) && !(pi == 0 && fi == 0 && k == 0) && rapid.IntRange(0, 7).Draw(t, "derivedname") == 0 {
					// a user type named like a message the compiler derives for the
					// .service / .topic sub-package (<Method>Request, <Method>Response,
					// <Name>Message): different packages, so no clash - the method or
					// topic message that derives the same short name is drawn later
					suffix := rapid.SampledFrom([]string{"Request", "Response", "Message"}).Draw(t, "derivedsuffix")
					var stem string
					if suffix == "Message" {
						stem = rapid.SampledFrom(topicVerbs).Draw(t, "dverb") + rapid.SampledFrom(typeWords).Draw(t, "dnoun")
					} else {
						stem = rapid.SampledFrom(methodVerbs).Draw(t, "dverb") + rapid.SampledFrom(typeWords).Draw(t, "dnoun")
					}
					if !g.used[p.Name+"."+stem+suffix] {
						g.used[p.Name+"."+stem+suffix] = true
						ti.name = stem + suffix
						g.derived[p.Name] = append(g.derived[p.Name], [2]string{stem, suffix})
					}
				}
				if kind == "enum" {
					ti.enum = g.enumBody(ti.name, ti.name)
				}
				g.types = append(g.types, ti)
			}
		}
	}
	// phase 2: bodies, in declaration order per file
	for pi, p := range g.b.Packages {
		g.curPkg = p
		for fi, f := range p.Files {
			g.cur.pkgIdx, g.cur.fileIdx = pi, fi
			g.curFile = f
			if len(p.Files) > 1 {
				g.cls("multi-file-package")
			}
			for _, ti := range g.types {
				if ti.pkgIdx != pi || ti.fileIdx != fi {
					continue
				}
				switch ti.kind {
				case "object":
					obj := &Object{Name: ti.name, Desc: g.desc()}
					obj.Fields = g.fields(rapid.IntRange(0, 6).Draw(t, "nfields"), 0, false)
					if rapid.IntRange(0, 5).Draw(t, "nestedobj") == 0 {
						nested := &Object{Name: "Nested" + ti.name, Desc: g.desc()}
						nested.Fields = g.fields(rapid.IntRange(0, 3).Draw(t, "nnested"), 2, false)
						obj.Nested = append(obj.Nested, nested)
						g.cls("explicit-nested-object")
					}
					ti.object = obj
					f.Decls = append(f.Decls, &Decl{Object: obj})
				case "oneof":
					oo := &Oneof{Name: ti.name, Desc: g.desc()}
					oo.Options = g.fields(rapid.IntRange(1, 4).Draw(t, "noptions"), 1, true)
					f.Decls = append(f.Decls, &Decl{Oneof: oo})
				case "enum":
					f.Decls = append(f.Decls, &Decl{Enum: ti.enum})
				}
			}
			forced := ""
			if serviceOnly[pi] {
				forced = "service"
				if !o.Services || (o.Topics && rapid.Bool().Draw(t, "svconlytopic")) {
					forced = "topic"
				}
			}
			if o.Services && (forced == "service" || rapid.IntRange(0, 2).Draw(t, "hassvc") == 0) {
				f.Decls = append(f.Decls, &Decl{Service: g.service()})
				g.cls("service")
			}
			if o.Topics && (forced == "topic" || rapid.IntRange(0, 2).Draw(t, "hastopic") == 0) {
				f.Decls = append(f.Decls, &Decl{Topic: g.topic()})
				g.cls("topic")
			}
			if o.Entities && (o.EntityOnly || rapid.IntRange(0, 1).Draw(t, "hasentity") == 0) {
				f.Decls = append(f.Decls, &Decl{Entity: g.entity()})
				g.cls("entity")
			}
		}
	}
	return g.b, g.Classes
}

// optionNumber sometimes writes an explicit number on an enum option or entity
// status: one that differs from its position, repeats, or is zero.
func (g *gen) optionNumber(o *EnumOption) {
	if g.masked("enum-option-number") || rapid.IntRange(0, 7).Draw(g.t, "optnumber") != 0 {
		return
	}
	n := int32(rapid.SampledFrom([]int{0, 1, 2, 3, 5, 9, 100}).Draw(g.t, "optnumberv"))
	o.Number = &n
	g.cls("enum-option-explicit-number")
}

func (g *gen) enumBody(name, hint string) *Enum {
	t := g.t
	e := &Enum{Name: name, Desc: g.desc()}
	if rapid.IntRange(0, 3).Draw(t, "enumprefix") == 0 {
		// unique per enum: proto enum values live in the enclosing scope
		e.Prefix = rapid.SampledFrom([]string{"X_", "KIND_", "E_"}).Draw(t, "prefix") + screaming(hint) + "_"
		g.cls("enum-prefix-override")
	}
	if rapid.IntRange(0, 2).Draw(t, "explicitzero") == 0 {
		e.ExplicitZero = &EnumOption{Name: "UNSPECIFIED", Desc: g.desc()}
		g.cls("enum-explicit-zero")
	}
	words := rapid.Permutation(enumWords).Draw(t, "enumwords")
	n := rapid.IntRange(1, 4).Draw(t, "nopts")
	for i := 0; i < n; i++ {
		o := &EnumOption{Name: words[i], Desc: g.desc()}
		if !g.masked("enum-option-info") && rapid.IntRange(0, 3).Draw(t, "info") == 0 {
			o.Info = map[string]string{"color": rapid.SampledFrom([]string{"red", "dark \"blue\"", "", "😀 ok", "𝔘nicode é名", "back\\slash"}).Draw(t, "infov")}
			if rapid.Bool().Draw(t, "info2") {
				o.Info["size"] = "big"
				o.Info["alpha"] = "first"
			}
			if rapid.IntRange(0, 2).Draw(t, "infocase") == 0 {
				// keys that differ only in case, or in a character that sorts between
				// the cases
				o.Info["Color"] = "upper"
				o.Info["colour"] = "uk"
				o.Info["Size"] = "upper"
				g.cls("enum-option-info:keys-differing-in-case")
			}
			g.cls("enum-option-info")
		}
		g.optionNumber(o)
		e.Options = append(e.Options, o)
	}
	return e
}

// ensureImport makes the current file able to refer to pkg and returns the
// spelling to use for references.
func (g *gen) refTo(ti *typeInfo) *Ref {
	t := g.t
	r := &Ref{Package: ti.pkg, Name: ti.name}
	if ti.pkg == g.curPkg.Name {
		if rapid.IntRange(0, 5).Draw(t, "qualifiedlocal") == 0 {
			r.Spelling = "full"
			g.cls("ref-qualified-local")
		}
		if ti.fileIdx != g.cur.fileIdx {
			g.cls("ref-cross-file")
		}
	} else {
		g.cls("ref-cross-package")
		var imp *Import
		for _, x := range g.curFile.Imports {
			if x.Package == ti.pkg {
				imp = x
			}
		}
		if imp == nil {
			imp = &Import{Package: ti.pkg}
			// the default name is taken when an earlier import of this file (or the
			// file's own package) already answers to it: then an alias is required
			taken := pkgWordOf(g.curPkg.Name) == pkgWordOf(ti.pkg)
			for _, x := range g.curFile.Imports {
				if x.Alias == "" && pkgWordOf(x.Package) == pkgWordOf(ti.pkg) {
					taken = true
				}
			}
			if taken || rapid.IntRange(0, 2).Draw(t, "importstyle") == 1 {
				imp.Alias = fmt.Sprintf("im%s%d", pkgWordOf(ti.pkg), len(g.curFile.Imports))
				g.cls("import-alias")
				if taken {
					g.cls("import-alias-forced")
				}
			}
			g.curFile.Imports = append(g.curFile.Imports, imp)
		}
		switch {
		case imp.Alias != "":
			r.Spelling = "alias:" + imp.Alias
		case rapid.Bool().Draw(t, "shortspelling"):
			r.Spelling = "short"
		default:
			r.Spelling = "full"
		}
	}
	if rapid.IntRange(0, 5).Draw(t, "bodyref") == 0 {
		r.BodyRef = true
		g.cls("ref-in-body")
	}
	return r
}

func pkgWordOf(pkg string) string {
	parts := strings.Split(pkg, ".")
	return parts[len(parts)-2]
}

func (g *gen) pickType(kind string) *typeInfo {
	var cands []*typeInfo
	for _, ti := range g.types {
		if ti.kind != kind {
			continue
		}
		// packages may only depend on earlier packages, and files of a package only
		// on earlier files: generated proto files cannot import each other
		if ti.pkgIdx > g.cur.pkgIdx || (ti.pkgIdx == g.cur.pkgIdx && ti.fileIdx > g.cur.fileIdx) {
			continue
		}
		cands = append(cands, ti)
	}
	if len(cands) == 0 {
		return nil
	}
	return rapid.SampledFrom(cands).Draw(g.t, "reftarget")
}

var scalarKinds = []string{"string", "string", "bool", "integer", "integer", "float", "bytes", "date", "decimal", "timestamp", "key", "key", "any"}

func (g *gen) scalarType() *Type {
	t := g.t
	for {
		k := rapid.SampledFrom(scalarKinds).Draw(t, "scalarkind")
		if g.masked("type:" + k) {
			continue
		}
		ty := &Type{Kind: k}
		switch k {
		case "integer":
			ty.Format = rapid.SampledFrom([]string{"INT32", "INT64", "UINT32", "UINT64"}).Draw(t, "intfmt")
		case "float":
			ty.Format = rapid.SampledFrom([]string{"FLOAT32", "FLOAT64"}).Draw(t, "floatfmt")
		case "key":
			ty.Format = rapid.SampledFrom([]string{"", "id62", "uuid", "informal", "custom"}).Draw(t, "keyfmt")
			if g.masked("key:" + ty.Format) {
				ty.Format = "id62"
			}
			if ty.Format == "custom" {
				ty.KeyPattern = rapid.SampledFrom(patternPool).Draw(t, "keypattern")
			}
			g.cls("key:" + ty.Format)
			if g.o.KeyEntity && rapid.IntRange(0, 2).Draw(t, "keyentity") == 0 {
				// a key outside an entity block may still point at an entity
				if rapid.Bool().Draw(t, "keyforeign") {
					ty.KeyForeign = g.curPkg.Name + "." + rapid.SampledFrom(typeWords).Draw(t, "keyfkent")
					g.cls("key-entity:foreign")
				}
				if rapid.IntRange(0, 2).Draw(t, "keytenant") == 0 {
					ty.KeyTenant = rapid.SampledFrom([]string{"account", "org"}).Draw(t, "keytenantv")
					g.cls("key-entity:tenant")
				}
			}
		case "any":
			if rapid.Bool().Draw(t, "anydefined") {
				ty.AnyOnlyDefined = true
				ty.AnyTypes = []string{"alpha.beta.v1.Thing"}
			}
		}
		g.cls("type:" + k)
		if g.o.Rules {
			g.rules(ty)
		}
		if g.o.ListRules {
			g.listRules(ty)
		}
		return ty
	}
}

func (g *gen) rules(ty *Type) {
	t := g.t
	if rapid.IntRange(0, 2).Draw(t, "hasrules") != 0 || g.masked("rules:"+ty.Kind) {
		return
	}
	r := &Rules{}
	switch ty.Kind {
	case "string":
		if rapid.Bool().Draw(t, "minlen") {
			r.MinLength = ptr(uint64(rapid.IntRange(0, 3).Draw(t, "minlenv")))
		}
		if rapid.Bool().Draw(t, "maxlen") {
			r.MaxLength = ptr(uint64(rapid.IntRange(3, 9).Draw(t, "maxlenv")))
		}
		if rapid.IntRange(0, 2).Draw(t, "pattern") == 0 {
			r.Pattern = ptr(rapid.SampledFrom(patternPool).Draw(t, "patternv"))
		}
	case "bytes":
		if rapid.Bool().Draw(t, "minlen") {
			r.MinLength = ptr(uint64(rapid.IntRange(0, 3).Draw(t, "minlenv")))
		}
		if rapid.Bool().Draw(t, "maxlen") {
			r.MaxLength = ptr(uint64(rapid.IntRange(3, 9).Draw(t, "maxlenv")))
		}
	case "integer":
		if g.o.UndocumentedRules && rapid.IntRange(0, 4).Draw(t, "multipleof") == 0 {
			r.MultipleOf = ptr(int64(rapid.IntRange(2, 9).Draw(t, "multipleofv")))
			g.cls("rules:integer:multipleOf")
		}
		lo := int64(rapid.IntRange(0, 50).Draw(t, "lo"))
		hi := lo + int64(rapid.IntRange(2, 50).Draw(t, "span"))
		if rapid.IntRange(0, 3).Draw(t, "bigbounds") == 0 {
			switch ty.Format {
			case "INT64", "UINT64":
				hi = 1 << 40
			default:
				hi = 1<<31 - 1
			}
		}
		if rapid.Bool().Draw(t, "hasmin") {
			r.Minimum = &lo
			if rapid.Bool().Draw(t, "exminset") {
				r.ExclusiveMin = ptr(rapid.Bool().Draw(t, "exmin"))
			}
		}
		if rapid.Bool().Draw(t, "hasmax") {
			r.Maximum = &hi
			if rapid.Bool().Draw(t, "exmaxset") {
				r.ExclusiveMax = ptr(rapid.Bool().Draw(t, "exmax"))
			}
		}
	case "date":
		if rapid.Bool().Draw(t, "hasmin") {
			r.MinStr = ptr("2020-01-01")
			if rapid.Bool().Draw(t, "exminset") {
				r.ExclusiveMin = ptr(rapid.Bool().Draw(t, "exmin"))
			}
		}
		if rapid.Bool().Draw(t, "hasmax") {
			r.MaxStr = ptr("2030-12-31")
			if rapid.Bool().Draw(t, "exmaxset") {
				r.ExclusiveMax = ptr(rapid.Bool().Draw(t, "exmax"))
			}
		}
	case "decimal":
		if rapid.Bool().Draw(t, "hasmin") {
			r.MinStr = ptr("0.5")
			if rapid.Bool().Draw(t, "exminset") {
				r.ExclusiveMin = ptr(rapid.Bool().Draw(t, "exmin"))
			}
		}
		if rapid.Bool().Draw(t, "hasmax") {
			r.MaxStr = ptr("100.25")
			if rapid.Bool().Draw(t, "exmaxset") {
				r.ExclusiveMax = ptr(rapid.Bool().Draw(t, "exmax"))
			}
		}
	case "bool":
		r.Const = ptr(rapid.Bool().Draw(t, "const"))
	default:
		return
	}
	if r.empty() {
		return
	}
	ty.Rules = r
	g.cls("rules:" + ty.Kind)
}

func (g *gen) listRules(ty *Type) {
	t := g.t
	if rapid.IntRange(0, 4).Draw(t, "haslist") != 0 || g.masked("list:"+ty.Kind) {
		return
	}
	l := &ListRules{}
	switch ty.Kind {
	case "string":
		l.Searchable = ptr(rapid.Bool().Draw(t, "searchable"))
		if rapid.Bool().Draw(t, "fid") {
			l.FieldID = ptr("tsv_x")
		}
	case "integer", "float", "decimal", "timestamp":
		l.Filterable = ptr(rapid.Bool().Draw(t, "filterable"))
		if rapid.Bool().Draw(t, "sortset") {
			l.Sortable = ptr(rapid.Bool().Draw(t, "sortable"))
			if rapid.Bool().Draw(t, "defsort") {
				l.DefaultSort = ptr(true)
			}
		}
	case "bool", "date", "key", "enum", "oneof", "any":
		l.Filterable = ptr(rapid.Bool().Draw(t, "filterable"))
		if ty.Kind == "bool" {
			if rapid.IntRange(0, 2).Draw(t, "deff") == 0 {
				l.DefaultFilters = []string{"true"}
			}
		}
	default:
		return
	}
	ty.List = l
	g.cls("list:" + ty.Kind)
}

// fieldType draws any field type. depth limits inline nesting; objectOnly is for
// oneof options.
func (g *gen) fieldType(depth int, objectOnly bool, allowContainer bool, hint string) *Type {
	t := g.t
	for {
		k := rapid.IntRange(0, 19).Draw(t, "ftk")
		switch {
		case objectOnly || (k >= 8 && k <= 11):
			ty := &Type{Kind: "object"}
			if depth < 3 && rapid.IntRange(0, 2).Draw(t, "inlineobj") == 0 {
				taken := map[string]bool{}
				_ = taken
				o := &Object{}
				o.Fields = g.fields(rapid.IntRange(0, 3).Draw(t, "ninline"), depth+1, false)
				ty.InlineObject = o
				g.cls("inline-object")
				if depth >= 1 {
					g.cls("inline-depth>=2")
				}
				if !objectOnly && rapid.IntRange(0, 3).Draw(t, "flatten") == 0 && !g.masked("flatten") {
					ty.Flatten = true
					g.cls("flatten")
				}
			} else {
				ti := g.pickType("object")
				if ti == nil {
					continue
				}
				ty.Ref = g.refTo(ti)
				if g.o.UndocumentedRules && rapid.IntRange(0, 5).Draw(t, "objectrules") == 0 {
					ty.Rules = &Rules{MinProps: ptr(uint64(1))}
					if rapid.Bool().Draw(t, "maxprops") {
						ty.Rules.MaxProps = ptr(uint64(rapid.IntRange(1, 4).Draw(t, "maxpropsv")))
					}
					g.cls("rules:object")
				}
			}
			return ty
		case k <= 7:
			return g.scalarType()
		case k <= 13:
			ty := &Type{Kind: "enum"}
			if rapid.Bool().Draw(t, "inlineenum") {
				ty.InlineEnum = g.enumBody("", hint)
				ty.InlineEnum.Desc = "" // an inline enum has no description of its own in the source
				g.cls("inline-enum")
			} else {
				ti := g.pickType("enum")
				if ti == nil {
					continue
				}
				ty.Ref = g.refTo(ti)
				ty.InlineEnum = nil
				if g.o.Rules && !g.masked("rules:enum") && rapid.IntRange(0, 1).Draw(t, "enumrules") == 0 {
					names := []string{}
					for _, o := range ti.enum.Options {
						names = append(names, o.Name)
					}
					// a non-empty sub-list of the options, in declaration order, which may
					// name the implicit zero option as well
					var pick []string
					if ti.enum.ExplicitZero != nil && rapid.IntRange(0, 3).Draw(t, "rulezero") != 0 {
						pick = append(pick, "UNSPECIFIED")
						g.cls("rules:enum:names-unspecified")
					}
					for i, n := range names {
						if (i == 0 && len(pick) == 0) || rapid.IntRange(0, 2).Draw(t, "rulepick") == 0 {
							pick = append(pick, n)
						}
					}
					if rapid.Bool().Draw(t, "in") {
						ty.Rules = &Rules{In: pick}
					} else {
						ty.Rules = &Rules{NotIn: pick}
					}
					if len(pick) > 1 {
						g.cls("rules:enum:several-names")
					}
					g.cls("rules:enum")
				}
			}
			if g.o.ListRules {
				g.listRules(ty)
			}
			return ty
		case k <= 15:
			ty := &Type{Kind: "oneof"}
			if depth < 2 && rapid.Bool().Draw(t, "inlineoneof") {
				oo := &Oneof{}
				oo.Options = g.fields(rapid.IntRange(1, 3).Draw(t, "ninlineopts"), depth+1, true)
				ty.InlineOneof = oo
				g.cls("inline-oneof")
			} else {
				ti := g.pickType("oneof")
				if ti == nil {
					continue
				}
				ty.Ref = g.refTo(ti)
			}
			return ty
		default:
			if !allowContainer {
				continue
			}
			kind := "array"
			if k >= 18 {
				kind = "map"
			}
			items := g.fieldType(depth, false, false, hint)
			if items.Kind == "any" || items.Flatten {
				items.Flatten = false
				if items.Kind == "any" {
					continue // arrays/maps of any are not part of the J5 type list
				}
			}
			if items.Ref != nil {
				items.Ref.BodyRef = false
			}
			ty := &Type{Kind: kind, Items: items}
			if rapid.IntRange(0, 4).Draw(t, "singleform") == 0 && !g.masked(kind+".ext.singleForm") {
				ty.SingleForm = rapid.SampledFrom([]string{"item", "entry", "one \"thing\""}).Draw(t, "singleformv")
				g.cls("ext-single-form:" + kind)
			}
			if g.o.Rules && rapid.IntRange(0, 2).Draw(t, "containerrules") == 0 && !g.masked("rules:"+kind) {
				r := &Rules{}
				if kind == "array" {
					if rapid.Bool().Draw(t, "minitems") {
						r.MinItems = ptr(uint64(rapid.IntRange(0, 2).Draw(t, "minitemsv")))
					}
					if rapid.Bool().Draw(t, "maxitems") {
						r.MaxItems = ptr(uint64(rapid.IntRange(2, 5).Draw(t, "maxitemsv")))
					}
					if rapid.IntRange(0, 2).Draw(t, "unique") == 0 {
						r.Unique = ptr(rapid.Bool().Draw(t, "uniquev"))
					}
				} else {
					if rapid.Bool().Draw(t, "minpairs") {
						r.MinPairs = ptr(uint64(rapid.IntRange(0, 2).Draw(t, "minpairsv")))
					}
					if rapid.Bool().Draw(t, "maxpairs") {
						r.MaxPairs = ptr(uint64(rapid.IntRange(2, 5).Draw(t, "maxpairsv")))
					}
				}
				if !r.empty() {
					ty.Rules = r
					g.cls("rules:" + kind)
				}
			}
			g.cls(kind + ":" + items.Kind)
			return ty
		}
	}
}

func (g *gen) fields(n, depth int, objectOnly bool) []*Field {
	t := g.t
	taken := map[string]bool{}
	var out []*Field
	for i := 0; i < n; i++ {
		f := &Field{Name: g.fieldName(taken), Desc: g.desc()}
		f.Type = g.fieldType(depth, objectOnly, !objectOnly, f.Name)
		sibling := g.shadow(f, taken, objectOnly)
		if g.o.KeyEntity && !objectOnly && f.Type.Kind == "key" && f.Type.KeyForeign == "" && rapid.IntRange(0, 5).Draw(t, "keyprimary") == 0 {
			// the compiler makes a primary key required; declare it so
			f.Type.KeyPrimary = true
			g.cls("key-entity:primary")
		}
		if !objectOnly {
			switch rapid.IntRange(0, 5).Draw(t, "presence") {
			case 0:
				f.Required = true
				g.cls("required")
			case 1:
				f.Optional = true
				g.cls("optional")
				if f.Type.Kind == "array" || f.Type.Kind == "map" {
					// accepted and without effect: repeated fields have no presence
					g.cls("optional-on-container")
				}
			}
			f.Style = rapid.IntRange(0, 2).Draw(t, "presencestyle")
		}
		if f.Type.KeyPrimary {
			f.Required, f.Optional = true, false
		}
		// flattened inline objects: keep JSON names unique in the parent
		if f.Type.Flatten && f.Type.InlineObject != nil {
			// members of a flattened object - at every level of flatten-in-flatten -
			// share the parent's JSON namespace
			var claim func(o *Object)
			claim = func(o *Object) {
				for _, inner := range o.Fields {
					if inner.Type.Flatten && inner.Type.InlineObject != nil {
						claim(inner.Type.InlineObject)
						continue
					}
					for taken[strings.ToLower(snake(inner.Name))] {
						inner.Name += "Alt"
					}
					taken[strings.ToLower(snake(inner.Name))] = true
				}
			}
			claim(f.Type.InlineObject)
			f.Optional = false
		}
		// an inline type may carry an explicit name
		lt := f.Type
		if lt.Items != nil {
			lt = lt.Items
		}
		if (lt.InlineObject != nil || lt.InlineOneof != nil || lt.InlineEnum != nil) && rapid.IntRange(0, 3).Draw(t, "nameoverride") == 0 {
			lt.NameOverride = true
			nm := "Named" + camel(f.Name)
			switch {
			case lt.InlineObject != nil:
				lt.InlineObject.Name = nm
			case lt.InlineOneof != nil:
				lt.InlineOneof.Name = nm
			default:
				lt.InlineEnum.Name = nm
			}
			g.cls("inline-name-override")
		}
		out = append(out, f)
		if sibling != nil {
			out = append(out, sibling)
		}
	}
	avoidMapEntryClash(out, taken)
	return out
}

// avoidMapEntryClash: protobuf names the synthetic entry message of a map field
// <Field>Entry. A sibling inline type that derives the same nested name (only
// reachable through shadow(): a top-level type called LampEntry next to a map field
// lamp) is two declarations of one symbol, not a valid program. The map field gives way.
func avoidMapEntryClash(out []*Field, taken map[string]bool) {
	nestedName := func(f *Field) string {
		lt := f.Type
		if lt.Items != nil {
			lt = lt.Items
		}
		switch {
		case lt.InlineObject != nil && lt.InlineObject.Name != "":
			return lt.InlineObject.Name
		case lt.InlineOneof != nil && lt.InlineOneof.Name != "":
			return lt.InlineOneof.Name
		case lt.InlineEnum != nil && lt.InlineEnum.Name != "":
			return lt.InlineEnum.Name
		case lt.InlineObject != nil || lt.InlineOneof != nil || lt.InlineEnum != nil:
			return camel(f.Name)
		}
		return ""
	}
	for _, m := range out {
		if m.Type.Kind != "map" {
			continue
		}
		clash := func() bool {
			for _, f := range out {
				if n := nestedName(f); n != "" && n == camel(m.Name)+"Entry" {
					return true
				}
			}
			return false
		}
		for clash() {
			m.Name += "Alt"
			for taken[strings.ToLower(snake(m.Name))] {
				m.Name += "Alt"
			}
			taken[strings.ToLower(snake(m.Name))] = true
		}
	}
}

// shadow renames a field with an inline type after a top-level type of the
// current package (the enclosing one included): an inline type is named after
// its field, so the nested Parent.X then shadows the top-level X in protobuf's
// scoping. Half the time a sibling field referring to that top-level X is
// returned as well - the reference the shadow can capture.
func (g *gen) shadow(f *Field, taken map[string]bool, objectOnly bool) *Field {
	t := g.t
	il := f.Type
	if il.Items != nil {
		il = il.Items
	}
	if il.InlineObject == nil && il.InlineOneof == nil && il.InlineEnum == nil {
		return nil
	}
	if rapid.IntRange(0, 5).Draw(t, "shadowname") != 0 {
		return nil
	}
	var cands []*typeInfo
	for _, ti := range g.types {
		if ti.pkg == g.curPkg.Name {
			cands = append(cands, ti)
		}
	}
	if len(cands) == 0 {
		return nil
	}
	target := rapid.SampledFrom(cands).Draw(t, "shadowed")
	cand := lowerFirst(target.name)
	if taken[strings.ToLower(snake(cand))] {
		return nil
	}
	// the old name stays reserved: an inline enum's value prefix was derived from it
	f.Name = cand
	taken[strings.ToLower(snake(cand))] = true
	g.cls("inline-shadows-type")
	// the sibling may only refer to types that are already declarable here
	if target.pkgIdx > g.cur.pkgIdx || (target.pkgIdx == g.cur.pkgIdx && target.fileIdx > g.cur.fileIdx) {
		return nil
	}
	if (objectOnly && target.kind != "object") || !rapid.Bool().Draw(t, "shadowsibling") {
		return nil
	}
	sib := &Field{Name: g.fieldName(taken), Type: &Type{Kind: target.kind, Ref: g.refTo(target)}}
	sib.Type.Ref.BodyRef = false
	g.cls("inline-shadows-type:with-reference")
	return sib
}

var httpMethods = []string{"GET", "POST", "PUT", "PATCH", "DELETE"}
var methodVerbs = []string{"Get", "List", "Create", "Update", "Delete", "Run", "Check"}
var topicVerbs = []string{"Post", "Send", "Notify", "Sync"}

// derivedStem hands out, once each and half of the time, the stem of a user type
// of the current package that is named <stem>Request / Response / Message.
func (g *gen) derivedStem(a, b string) string {
	for i, d := range g.derived[g.curPkg.Name] {
		if d[0] == "" || (d[1] != a && d[1] != b) {
			continue
		}
		if !rapid.Bool().Draw(g.t, "usederived") {
			return ""
		}
		g.derived[g.curPkg.Name][i][0] = ""
		g.cls("type-named-like-derived-message")
		return d[0]
	}
	return ""
}

func (g *gen) simpleFields(n int) []*Field {
	taken := map[string]bool{}
	var out []*Field
	for i := 0; i < n; i++ {
		f := &Field{Name: g.fieldName(taken)}
		f.Type = g.fieldType(2, false, true, f.Name)
		if f.Type.Flatten {
			f.Type.Flatten = false
		}
		sibling := g.shadow(f, taken, false)
		out = append(out, f)
		if sibling != nil {
			out = append(out, sibling)
		}
	}
	avoidMapEntryClash(out, taken)
	return out
}

func (g *gen) method(names map[string]bool) *Method {
	t := g.t
	var name string
	for {
		name = rapid.SampledFrom(methodVerbs).Draw(t, "mverb") + rapid.SampledFrom(typeWords).Draw(t, "mnoun")
		if stem := g.derivedStem("Request", "Response"); stem != "" {
			name = stem
		} else if g.o.OddMethodNames && rapid.IntRange(0, 4).Draw(t, "oddmethod") == 0 {
			// names a case converter would change: the rpc and its <Method>Request /
			// <Method>Response keep the declared spelling
			name = rapid.SampledFrom([]string{"GetAPIKey", "RotateKeyID", "getThing", "Get2fa", "Do_It", "X", "HTTPGet"}).Draw(t, "oddmethodname")
			g.cls("method-name:odd")
		}
		if !names[name] && !g.used[g.curPkg.Name+".service."+name] {
			names[name] = true
			g.used[g.curPkg.Name+".service."+name] = true
			break
		}
	}
	m := &Method{Name: name, Desc: g.desc(), HTTPMethod: rapid.SampledFrom(httpMethods).Draw(t, "verb")}
	m.Request = g.simpleFields(rapid.IntRange(0, 4).Draw(t, "nreq"))
	segs := []string{"/" + strings.ToLower(name)}
	// path parameters: scalar string-ish request fields
	for _, f := range m.Request {
		pathable := false
		switch f.Type.Kind {
		case "string", "key", "integer", "bool", "date", "enum":
			pathable = true
		}
		if pathable && rapid.Bool().Draw(t, "inpath") {
			g.cls("path-parameter:" + f.Type.Kind)
			if g.o.OddPathParams && f.Type.Kind != "enum" && rapid.Bool().Draw(t, "oddparam") {
				cand := rapid.SampledFrom(oddNames).Draw(t, "oddparamname")
				clash := false
				for _, other := range m.Request {
					if strings.EqualFold(snake(other.Name), snake(cand)) || strings.EqualFold(other.Name, cand) {
						clash = true
					}
				}
				if !clash {
					f.Name = cand
					g.cls("path-parameter:odd-name")
				}
			}
			segs = append(segs, "/:"+f.Name)
			if rapid.Bool().Draw(t, "pathsuffix") {
				segs = append(segs, "/"+rapid.SampledFrom([]string{"detail", "items", "x"}).Draw(t, "seg"))
			}
			g.cls("path-parameter")
		}
	}
	m.HTTPPath = strings.Join(segs, "")
	if rapid.IntRange(0, 3).Draw(t, "methodoptions") == 0 {
		m.Label = rapid.SampledFrom([]string{"Do it", "Read \"one\"", "😀 label"}).Draw(t, "mlabel")
		m.Hidden = rapid.Bool().Draw(t, "mhidden")
		g.cls("method-options")
	}
	if rapid.IntRange(0, 5).Draw(t, "noresp") == 0 && !g.masked("no-response") {
		m.NoResponse = true
		g.cls("no-response")
	} else {
		m.Response = g.simpleFields(rapid.IntRange(0, 3).Draw(t, "nresp"))
	}
	return m
}

func (g *gen) service() *Service {
	t := g.t
	s := &Service{Name: g.typeName(g.curPkg.Name + ".service")}
	if rapid.Bool().Draw(t, "basepath") {
		s.BasePath = "/" + pkgWordOf(g.curPkg.Name) + "/v1"
	}
	if rapid.IntRange(0, 3).Draw(t, "svcoptions") == 0 {
		s.Audience = []string{"internal"}
		g.cls("service-options")
	}
	names := map[string]bool{}
	n := rapid.IntRange(1, 3).Draw(t, "nmethods")
	for i := 0; i < n; i++ {
		s.Methods = append(s.Methods, g.method(names))
	}
	// a parameter in the service's base path: every method's request then carries the field,
	// and the rule of every method spells it "{snake_name}" like a parameter of its own path
	if s.BasePath != "" && rapid.IntRange(0, 2).Draw(t, "basepathparam") == 0 {
		param := rapid.SampledFrom([]string{"tenantId", "orgId", "realm", "scopeKeyId"}).Draw(t, "basepathparamname")
		clash := false
		for _, m := range s.Methods {
			for _, f := range m.Request {
				if strings.EqualFold(snake(f.Name), snake(param)) || strings.EqualFold(f.Name, param) {
					clash = true
				}
			}
		}
		if !clash {
			for _, m := range s.Methods {
				m.Request = append(m.Request, &Field{Name: param, Type: &Type{Kind: "string"}})
			}
			s.BasePath += "/:" + param
			g.cls("base-path-parameter")
		}
	}
	return s
}

func (g *gen) topic() *Topic {
	t := g.t
	tp := &Topic{Name: g.typeName(g.curPkg.Name + ".topic"), Kind: rapid.SampledFrom([]string{"publish", "reqres", "upsert", "event"}).Draw(t, "topickind")}
	g.cls("topic:" + tp.Kind)
	msgName := func() string {
		for {
			n := rapid.SampledFrom(topicVerbs).Draw(t, "tverb") + rapid.SampledFrom(typeWords).Draw(t, "tnoun")
			if stem := g.derivedStem("Message", "Message"); stem != "" {
				n = stem
			}
			if !g.used[g.curPkg.Name+".topic."+n] {
				g.used[g.curPkg.Name+".topic."+n] = true
				return n
			}
		}
	}
	switch tp.Kind {
	case "publish":
		n := rapid.IntRange(1, 3).Draw(t, "nmsgs")
		for i := 0; i < n; i++ {
			tp.Messages = append(tp.Messages, &TopicMessage{Name: msgName(), Fields: g.simpleFields(rapid.IntRange(0, 3).Draw(t, "nmf"))})
		}
	case "upsert":
		m := &TopicMessage{Fields: g.simpleFields(rapid.IntRange(0, 3).Draw(t, "nmf"))}
		if rapid.Bool().Draw(t, "upsertnamed") {
			m.Name = msgName()
		}
		tp.Messages = []*TopicMessage{m}
	case "event":
		tp.EntityName = g.curPkg.Name + "/" + strings.ToLower(rapid.SampledFrom(typeWords).Draw(t, "evententity"))
		tp.Messages = []*TopicMessage{{Name: msgName(), Fields: g.simpleFields(rapid.IntRange(0, 3).Draw(t, "nmf"))}}
	default:
		tp.Request = &TopicMessage{Fields: g.simpleFields(rapid.IntRange(0, 3).Draw(t, "nrq"))}
		tp.Reply = &TopicMessage{Fields: g.simpleFields(rapid.IntRange(0, 3).Draw(t, "nrp"))}
		// named and additional request / reply messages
		if rapid.IntRange(0, 2).Draw(t, "rqnamed") == 0 {
			tp.Request.Name = msgName()
			g.cls("reqres-named")
		}
		if rapid.IntRange(0, 2).Draw(t, "rpnamed") == 0 {
			tp.Reply.Name = msgName()
		}
		if rapid.IntRange(0, 3).Draw(t, "morerq") == 0 {
			tp.MoreRequests = []*TopicMessage{{Name: msgName(), Fields: g.simpleFields(rapid.IntRange(0, 2).Draw(t, "nrq2"))}}
			if tp.Request.Name == "" {
				tp.Request.Name = msgName() // several requests: each must be named
			}
			g.cls("reqres-multi")
		}
		if rapid.IntRange(0, 3).Draw(t, "morerp") == 0 {
			tp.MoreReplies = []*TopicMessage{{Name: msgName(), Fields: g.simpleFields(rapid.IntRange(0, 2).Draw(t, "nrp2"))}}
			if tp.Reply.Name == "" {
				tp.Reply.Name = msgName()
			}
			g.cls("reqres-multi")
		}
	}
	return tp
}

func (g *gen) entity() *Entity {
	t := g.t
	e := &Entity{Name: g.typeName(g.curPkg.Name), Desc: g.desc()}
	if rapid.Bool().Draw(t, "baseurl") {
		e.BaseURL = "/" + pkgWordOf(g.curPkg.Name) + "/v1/" + strings.ToLower(e.Name)
	}
	taken := map[string]bool{}
	nk := rapid.IntRange(1, 4).Draw(t, "nkeys")
	for i := 0; i < nk; i++ {
		k := &Field{Name: g.fieldName(taken), Type: &Type{Kind: "key", Format: rapid.SampledFrom([]string{"id62", "uuid", ""}).Draw(t, "kfmt")}}
		switch {
		case i == 0 || rapid.IntRange(0, 3).Draw(t, "primary") == 0:
			k.Primary = true
		case rapid.IntRange(0, 2).Draw(t, "foreign") == 0:
			k.Foreign = g.curPkg.Name + "." + rapid.SampledFrom(typeWords).Draw(t, "fkent")
		case rapid.IntRange(0, 2).Draw(t, "primaryfalse") == 0:
			k.PrimaryFalse = true
			g.cls("key:primary-false")
		}
		if rapid.IntRange(0, 3).Draw(t, "tenant") == 0 {
			k.Tenant = rapid.SampledFrom([]string{"account", "org"}).Draw(t, "tenantv")
		}
		if rapid.IntRange(0, 4).Draw(t, "shard") == 0 {
			k.Shard = true
			k.Required = true
			k.Style = 1
		}
		e.Keys = append(e.Keys, k)
	}
	for _, f := range g.simpleFields(rapid.IntRange(0, 5).Draw(t, "ndata")) {
		for taken[strings.ToLower(snake(f.Name))] {
			f.Name += "Alt"
		}
		taken[strings.ToLower(snake(f.Name))] = true
		e.Data = append(e.Data, f)
	}
	// schemas declared inside the entity block, each used by a data field
	nn := rapid.IntRange(0, 2).Draw(t, "nentitynested")
	for i := 0; i < nn; i++ {
		name := g.typeName(g.curPkg.Name)
		fname := lowerFirst(name) + "Ref"
		for taken[strings.ToLower(snake(fname))] {
			fname += "Alt"
		}
		taken[strings.ToLower(snake(fname))] = true
		ref := &Ref{Package: g.curPkg.Name, Name: name}
		switch rapid.IntRange(0, 2).Draw(t, "entitynestedkind") {
		case 0:
			e.Nested = append(e.Nested, &Decl{Object: &Object{Name: name, Fields: g.simpleFields(rapid.IntRange(0, 2).Draw(t, "nnf"))}})
			e.Data = append(e.Data, &Field{Name: fname, Type: &Type{Kind: "object", Ref: ref}})
		case 1:
			en := g.enumBody(name, name)
			e.Nested = append(e.Nested, &Decl{Enum: en})
			e.Data = append(e.Data, &Field{Name: fname, Type: &Type{Kind: "enum", Ref: ref}})
		default:
			oo := &Oneof{Name: name, Options: []*Field{{Name: "first", Type: &Type{Kind: "object", InlineObject: &Object{Fields: g.simpleFields(1)}}}}}
			e.Nested = append(e.Nested, &Decl{Oneof: oo})
			e.Data = append(e.Data, &Field{Name: fname, Type: &Type{Kind: "oneof", Ref: ref}})
		}
		g.cls("entity-nested-schema")
	}
	words := rapid.Permutation(enumWords).Draw(t, "statuswords")
	ns := rapid.IntRange(1, 5).Draw(t, "nstatus")
	for i := 0; i < ns; i++ {
		st := &EnumOption{Name: words[i], Desc: g.desc()}
		g.optionNumber(st)
		e.Statuses = append(e.Statuses, st)
	}
	ne := rapid.IntRange(0, 4).Draw(t, "nevents")
	evNames := rapid.Permutation([]string{"Create", "Update", "Archive", "Approve", "Cancel"}).Draw(t, "evnames")
	for i := 0; i < ne; i++ {
		e.Events = append(e.Events, &Event{Name: evNames[i], Fields: g.simpleFields(rapid.IntRange(0, 3).Draw(t, "nevf"))})
	}
	nsum := rapid.IntRange(0, 3).Draw(t, "nsummaries")
	// at most one summary may be unnamed (it takes the default name), in any position
	unnamedAt := rapid.IntRange(-1, nsum-1).Draw(t, "unnamedsummary")
	sumNames := rapid.Permutation([]string{"Overview", "Digest", "ByOwner"}).Draw(t, "summarynames")
	for i := 0; i < nsum; i++ {
		s := &TopicMessage{Fields: g.simpleFields(rapid.IntRange(0, 3).Draw(t, "nsf"))}
		if i != unnamedAt {
			// not built from the entity name: Order + "OrderSummary" would collide
			// with a sibling entity OrderOrder's default summary
			s.Name = sumNames[i]
		} else if i > 0 {
			g.cls("summary-unnamed-after-named")
		}
		e.Summaries = append(e.Summaries, s)
	}
	nc := rapid.IntRange(0, 2).Draw(t, "ncommands")
	for i := 0; i < nc; i++ {
		cmd := &Service{}
		if i > 0 {
			cmd.Name = e.Name + "Admin"
			cmd.BasePath = "admin"
		}
		names := map[string]bool{}
		pk := e.Keys[0]
		m := g.method(names)
		m.HTTPMethod = "POST"
		m.NoResponse = false
		m.Request = append([]*Field{{Name: pk.Name, Type: &Type{Kind: "key", Format: pk.Type.Format}}}, m.Request...)
		seenReq := map[string]bool{}
		var req []*Field
		for _, f := range m.Request {
			if !seenReq[f.Name] {
				seenReq[f.Name] = true
				req = append(req, f)
			}
		}
		m.Request = req
		m.HTTPPath = "/:" + pk.Name + "/" + strings.ToLower(m.Name)
		cmd.Methods = []*Method{m}
		if rapid.IntRange(0, 2).Draw(t, "cmdoptions") == 0 {
			cmd.Audience = []string{"internal", "admin"}
			g.cls("command-options")
		}
		e.Commands = append(e.Commands, cmd)
	}
	if rapid.IntRange(0, 2).Draw(t, "query") == 0 {
		e.EventsInGet = rapid.Bool().Draw(t, "eig")
		if rapid.Bool().Draw(t, "dsf") {
			e.DefaultStatusFilter = []string{e.Statuses[rapid.IntRange(0, len(e.Statuses)-1).Draw(t, "dsfwhich")].Name}
			if len(e.Statuses) >= 3 && rapid.Bool().Draw(t, "dsfseveral") {
				// several, in an order that is neither declaration nor alphabetical order
				e.DefaultStatusFilter = nil
				for _, i := range rapid.Permutation([]int{0, 1, 2}).Draw(t, "dsforder") {
					e.DefaultStatusFilter = append(e.DefaultStatusFilter, e.Statuses[i].Name)
				}
				g.cls("default-status-filter:several")
			}
			if strings.ContainsAny(e.DefaultStatusFilter[0], "0123456789") {
				g.cls("default-status-filter:name-with-digit")
			}
		}
	}
	return e
}

func lowerFirst(s string) string { return strings.ToLower(s[:1]) + s[1:] }
