package j5sgen

import (
	"fmt"
	"path"
	"sort"
	"strings"

	"buf.build/gen/go/bufbuild/protovalidate/protocolbuffers/go/buf/validate"
	"github.com/pentops/j5/gen/j5/messaging/v1/messaging_j5pb"
	"google.golang.org/genproto/googleapis/api/annotations"
	"google.golang.org/protobuf/proto"
	"google.golang.org/protobuf/reflect/protoreflect"
)

// The compiled contract of a package is compared as a set of lines, one per
// message, field, enum, enum value, service and method. ExpectedLines derives
// them from the model alone (README rules); ActualLines reads descriptors.

type lineSet struct {
	lines []string
	deps  []string
}

func (ls *lineSet) add(format string, a ...any) {
	ls.lines = append(ls.lines, fmt.Sprintf(format, a...))
}

type expCtx struct {
	ls      *lineSet
	pkg     string // proto package of the file being described
	srcPkg  string // j5s package (for resolving bare refs)
	file    string // proto file path being described
	bundle  *Bundle
	typeLoc map[string]string // "pkg.Name" -> proto file
}

func protoFileOf(f *File) string { return f.Path + ".proto" }

func subFile(f *File, sub string) string {
	dir, base := path.Split(f.Path)
	return path.Join(dir, sub, strings.TrimSuffix(base, ".j5s")+".p.j5s.proto")
}

func scalarProto(t *Type) string {
	switch t.Kind {
	case "string", "key":
		return "string"
	case "bool":
		return "bool"
	case "bytes":
		return "bytes"
	case "integer":
		return map[string]string{"INT32": "int32", "INT64": "int64", "UINT32": "uint32", "UINT64": "uint64"}[t.Format]
	case "float":
		return map[string]string{"FLOAT32": "float", "FLOAT64": "double"}[t.Format]
	case "date":
		return "msg:j5.types.date.v1.Date"
	case "decimal":
		return "msg:j5.types.decimal.v1.Decimal"
	case "timestamp":
		return "msg:google.protobuf.Timestamp"
	case "any":
		return "msg:j5.types.any.v1.Any"
	}
	return "?" + t.Kind
}

func (c *expCtx) refName(r *Ref) string {
	pkg := r.Package
	if pkg == "" {
		pkg = c.srcPkg
	}
	full := pkg + "." + r.Name
	if loc, ok := c.typeLoc[full]; ok && loc != c.file {
		c.ls.deps = append(c.ls.deps, fmt.Sprintf("dep %s -> %s", c.file, loc))
	}
	return full
}

// leafType returns the proto type string of a non-container type and emits any
// inline type nested under parent.
func (c *expCtx) leafType(parent string, fieldName string, t *Type) string {
	switch t.Kind {
	case "object":
		if t.Ref != nil {
			return "msg:" + c.refName(t.Ref)
		}
		name := camel(fieldName)
		if t.NameOverride {
			name = t.InlineObject.Name
		}
		full := parent + "." + name
		c.object(full, t.InlineObject.Fields, nil)
		return "msg:" + full
	case "oneof":
		if t.Ref != nil {
			return "msg:" + c.refName(t.Ref)
		}
		name := camel(fieldName)
		if t.NameOverride {
			name = t.InlineOneof.Name
		}
		full := parent + "." + name
		c.oneof(full, t.InlineOneof)
		return "msg:" + full
	case "enum":
		if t.Ref != nil {
			return "enum:" + c.refName(t.Ref)
		}
		name := camel(fieldName)
		if t.NameOverride {
			name = t.InlineEnum.Name
		}
		c.enum(parent, name, t.InlineEnum)
		return "enum:" + parent + "." + name
	}
	return scalarProto(t)
}

func (c *expCtx) fieldLine(msg string, num int, f *Field, oneofName string) {
	t := f.Type
	card := "single"
	var ty string
	switch t.Kind {
	case "array":
		card = "repeated"
		ty = c.leafType(msg, f.Name, t.Items)
	case "map":
		card = "map"
		ty = c.leafType(msg, f.Name, t.Items)
	default:
		ty = c.leafType(msg, f.Name, t)
	}
	req := f.Required || f.Primary
	// a repeated field has no presence: "optional" on an array or map is accepted
	// and leaves no trace in the contract
	opt := f.Optional && card == "single"
	c.ls.add("field %s.%s num=%d json=%s type=%s card=%s opt=%v req=%v oneof=%s", msg, snake(f.Name), num, f.Name, ty, card, opt, req, oneofName)
}

// object emits a message with the given fields; prepend are implicit leading
// fields (request / upsert metadata).
func (c *expCtx) object(full string, fields []*Field, prepend []*Field, nested ...*Object) {
	c.ls.add("msg %s", full)
	n := 0
	for _, f := range prepend {
		n++
		c.fieldLine(full, n, f, "-")
	}
	for _, f := range fields {
		n++
		c.fieldLine(full, n, f, "-")
	}
	for _, no := range nested {
		c.object(full+"."+no.Name, no.Fields, nil, no.Nested...)
	}
}

func (c *expCtx) oneof(full string, o *Oneof) {
	c.ls.add("msg %s", full)
	for i, f := range o.Options {
		c.fieldLine(full, i+1, f, "type")
	}
}

func (c *expCtx) enum(scope, name string, e *Enum) {
	prefix := e.Prefix
	if prefix == "" {
		prefix = screaming(name) + "_"
	}
	c.ls.add("enum %s.%s", scope, name)
	c.ls.add("enumval %s.%sUNSPECIFIED = 0", scope, prefix)
	for i, o := range e.Options {
		c.ls.add("enumval %s.%s%s = %d", scope, prefix, o.Name, i+1)
	}
}

func metaField(name, msg string) *Field {
	return &Field{Name: name, Required: true, Type: &Type{Kind: "object", Ref: &Ref{Package: "j5.messaging.v1", Name: msg}}}
}

func httpPath(base, p string) string {
	full := p
	if base != "" {
		full = path.Join(base, p)
	}
	parts := strings.Split(full, "/")
	for i, seg := range parts {
		if strings.HasPrefix(seg, ":") {
			parts[i] = "{" + snake(seg[1:]) + "}"
		}
	}
	return strings.Join(parts, "/")
}

func (c *expCtx) service(s *Service, svcName string) {
	full := c.pkg + "." + svcName
	c.ls.add("svc %s", full)
	for _, m := range s.Methods {
		in := c.pkg + "." + m.Name + "Request"
		c.object(in, m.Request, nil)
		out := "google.api.HttpBody"
		if !m.NoResponse {
			out = c.pkg + "." + m.Name + "Response"
			c.object(out, m.Response, nil)
		}
		body := "*"
		if m.HTTPMethod == "GET" {
			body = ""
		}
		c.ls.add("rpc %s.%s in=%s out=%s http=%s %s body=%q", full, m.Name, in, out, m.HTTPMethod, httpPath(s.BasePath, m.HTTPPath), body)
	}
}

func (c *expCtx) topicService(name, topicName, role string, msgs []*TopicMessage, single string, prepend []*Field) {
	full := c.pkg + "." + camel(name) + "Topic"
	c.ls.add("svc %s topic=%s role=%s", full, topicName, role)
	for _, m := range msgs {
		mn := m.Name
		if mn == "" {
			mn = single
		}
		msg := c.pkg + "." + mn + "Message"
		c.object(msg, m.Fields, prepend)
		c.ls.add("rpc %s.%s in=%s out=google.protobuf.Empty", full, mn, msg)
	}
}

func (c *expCtx) topic(t *Topic) {
	switch t.Kind {
	case "publish":
		c.topicService(t.Name, snake(t.Name), "publish", t.Messages, t.Name, nil)
	case "upsert":
		c.topicService(t.Name, snake(t.Name), "upsert", t.Messages, t.Name, []*Field{metaField("upsert", "UpsertMetadata")})
	case "event":
		c.topicService(t.Name, snake(t.Name), "event", t.Messages, t.Name, nil)
	case "reqres":
		c.topicService(t.Name+"Request", snake(t.Name), "request", append([]*TopicMessage{t.Request}, t.MoreRequests...), t.Name+"Request", []*Field{metaField("request", "RequestMetadata")})
		c.topicService(t.Name+"Reply", snake(t.Name), "reply", append([]*TopicMessage{t.Reply}, t.MoreReplies...), t.Name+"Reply", []*Field{metaField("request", "RequestMetadata")})
	}
}

// ExpectedLines returns the contract lines and the required dependency lines of
// package pkgName. Entities are not part of this model (C17 has its own).
func (b *Bundle) ExpectedLines(pkgName string) (lines, deps []string) {
	typeLoc := map[string]string{}
	for _, p := range b.Packages {
		for _, f := range p.Files {
			for _, d := range f.Decls {
				switch {
				case d.Object != nil:
					typeLoc[p.Name+"."+d.Object.Name] = protoFileOf(f)
				case d.Oneof != nil:
					typeLoc[p.Name+"."+d.Oneof.Name] = protoFileOf(f)
				case d.Enum != nil:
					typeLoc[p.Name+"."+d.Enum.Name] = protoFileOf(f)
				}
			}
		}
	}
	ls := &lineSet{}
	for _, p := range b.Packages {
		if p.Name != pkgName {
			continue
		}
		for _, f := range p.Files {
			main := &expCtx{ls: ls, pkg: p.Name, srcPkg: p.Name, file: protoFileOf(f), bundle: b, typeLoc: typeLoc}
			svc := &expCtx{ls: ls, pkg: p.Name + ".service", srcPkg: p.Name, file: subFile(f, "service"), bundle: b, typeLoc: typeLoc}
			top := &expCtx{ls: ls, pkg: p.Name + ".topic", srcPkg: p.Name, file: subFile(f, "topic"), bundle: b, typeLoc: typeLoc}
			for _, d := range f.Decls {
				switch {
				case d.Object != nil:
					main.object(p.Name+"."+d.Object.Name, d.Object.Fields, nil, d.Object.Nested...)
				case d.Oneof != nil:
					main.oneof(p.Name+"."+d.Oneof.Name, d.Oneof)
				case d.Enum != nil:
					main.enum(p.Name, d.Enum.Name, d.Enum)
				case d.Service != nil:
					svc.service(d.Service, d.Service.Name+"Service")
				case d.Topic != nil:
					top.topic(d.Topic)
				}
			}
		}
	}
	sort.Strings(ls.lines)
	sort.Strings(ls.deps)
	return ls.lines, uniq(ls.deps)
}

func uniq(s []string) []string {
	var out []string
	for i, x := range s {
		if i == 0 || x != s[i-1] {
			out = append(out, x)
		}
	}
	return out
}

// ---------------------------------------------------------------------------
// actual side

func protoTypeString(f protoreflect.FieldDescriptor) string {
	switch f.Kind() {
	case protoreflect.MessageKind:
		return "msg:" + string(f.Message().FullName())
	case protoreflect.EnumKind:
		return "enum:" + string(f.Enum().FullName())
	}
	return f.Kind().String()
}

func isRequired(f protoreflect.FieldDescriptor) bool {
	if f.Options() == nil {
		return false
	}
	fc, _ := proto.GetExtension(f.Options(), validate.E_Field).(*validate.FieldConstraints)
	return fc != nil && fc.GetRequired()
}

func actualMessage(md protoreflect.MessageDescriptor, ls *lineSet) {
	if md.IsMapEntry() {
		return
	}
	ls.add("msg %s", md.FullName())
	for i := 0; i < md.Fields().Len(); i++ {
		f := md.Fields().Get(i)
		card := "single"
		ty := protoTypeString(f)
		switch {
		case f.IsMap():
			card = "map"
			ty = protoTypeString(f.MapValue())
			if f.MapKey().Kind() != protoreflect.StringKind {
				card = "map<" + f.MapKey().Kind().String() + ">"
			}
		case f.IsList():
			card = "repeated"
		}
		oneofName := "-"
		if oo := f.ContainingOneof(); oo != nil && (!oo.IsSynthetic() || f.IsList() || f.IsMap()) {
			// (a repeated field in any oneof, synthetic or not, is not a legal contract)
			oneofName = string(oo.Name())
		}
		ls.add("field %s.%s num=%d json=%s type=%s card=%s opt=%v req=%v oneof=%s", md.FullName(), f.Name(), f.Number(), f.JSONName(), ty, card, f.HasOptionalKeyword(), isRequired(f), oneofName)
	}
	for i := 0; i < md.Messages().Len(); i++ {
		actualMessage(md.Messages().Get(i), ls)
	}
	for i := 0; i < md.Enums().Len(); i++ {
		actualEnum(md.Enums().Get(i), ls)
	}
}

func actualEnum(ed protoreflect.EnumDescriptor, ls *lineSet) {
	ls.add("enum %s", ed.FullName())
	scope := ed.Parent().FullName()
	for i := 0; i < ed.Values().Len(); i++ {
		v := ed.Values().Get(i)
		ls.add("enumval %s.%s = %d", scope, v.Name(), v.Number())
	}
}

// ActualLines renders the same lines from compiled descriptors, and the
// dependency lines of each file.
func ActualLines(files []protoreflect.FileDescriptor) (lines, deps []string) {
	ls := &lineSet{}
	for _, fd := range files {
		for i := 0; i < fd.Messages().Len(); i++ {
			actualMessage(fd.Messages().Get(i), ls)
		}
		for i := 0; i < fd.Enums().Len(); i++ {
			actualEnum(fd.Enums().Get(i), ls)
		}
		for i := 0; i < fd.Services().Len(); i++ {
			sd := fd.Services().Get(i)
			line := "svc " + string(sd.FullName())
			if sd.Options() != nil {
				if sc, _ := proto.GetExtension(sd.Options(), messaging_j5pb.E_Service).(*messaging_j5pb.ServiceConfig); sc != nil {
					role := "?"
					switch sc.Role.(type) {
					case *messaging_j5pb.ServiceConfig_Publish_:
						role = "publish"
					case *messaging_j5pb.ServiceConfig_Request_:
						role = "request"
					case *messaging_j5pb.ServiceConfig_Reply_:
						role = "reply"
					case *messaging_j5pb.ServiceConfig_Upsert_:
						role = "upsert"
					case *messaging_j5pb.ServiceConfig_Event_:
						role = "event"
					}
					line += fmt.Sprintf(" topic=%s role=%s", sc.GetTopicName(), role)
				}
			}
			ls.lines = append(ls.lines, line)
			for k := 0; k < sd.Methods().Len(); k++ {
				m := sd.Methods().Get(k)
				l := fmt.Sprintf("rpc %s in=%s out=%s", m.FullName(), m.Input().FullName(), m.Output().FullName())
				if m.Options() != nil {
					if hr, _ := proto.GetExtension(m.Options(), annotations.E_Http).(*annotations.HttpRule); hr != nil {
						verb, p := "?", ""
						switch pt := hr.Pattern.(type) {
						case *annotations.HttpRule_Get:
							verb, p = "GET", pt.Get
						case *annotations.HttpRule_Post:
							verb, p = "POST", pt.Post
						case *annotations.HttpRule_Put:
							verb, p = "PUT", pt.Put
						case *annotations.HttpRule_Patch:
							verb, p = "PATCH", pt.Patch
						case *annotations.HttpRule_Delete:
							verb, p = "DELETE", pt.Delete
						}
						l += fmt.Sprintf(" http=%s %s body=%q", verb, p, hr.Body)
					}
				}
				ls.lines = append(ls.lines, l)
			}
		}
		imps := fd.Imports()
		for i := 0; i < imps.Len(); i++ {
			ls.deps = append(ls.deps, fmt.Sprintf("dep %s -> %s", fd.Path(), imps.Get(i).Path()))
		}
	}
	sort.Strings(ls.lines)
	sort.Strings(ls.deps)
	return ls.lines, uniq(ls.deps)
}

// DiffLines returns the multiset differences want-got and got-want.
func DiffLines(want, got []string) (missing, extra []string) {
	cnt := map[string]int{}
	for _, l := range want {
		cnt[l]++
	}
	for _, l := range got {
		cnt[l]--
	}
	for _, l := range want {
		if cnt[l] > 0 {
			missing = append(missing, l)
			cnt[l]--
		}
	}
	for _, l := range got {
		if cnt[l] < 0 {
			extra = append(extra, l)
			cnt[l]++
		}
	}
	return missing, extra
}
