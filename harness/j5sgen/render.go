package j5sgen

import (
	"fmt"
	"sort"
	"strconv"
	"strings"
)

// Render produces the source text of every file of the bundle, keyed by path.
func (b *Bundle) Render() map[string]string {
	out := map[string]string{}
	for _, p := range b.Packages {
		for _, f := range p.Files {
			out[f.Path] = f.Render(p)
		}
	}
	return out
}

type writer struct {
	sb    strings.Builder
	noise int
	n     int
}

// pick returns a small deterministic pseudo-choice derived from the file's noise
// value: syntactic variety without any randomness outside rapid (the noise value
// itself is a rapid draw stored in the model).
func (w *writer) pick(n int) int {
	w.n++
	x := uint64(w.noise)*2654435761 + uint64(w.n)*40503
	x ^= x >> 13
	x *= 0x9E3779B97F4A7C15
	x ^= x >> 29
	return int(x % uint64(n))
}

func (w *writer) line(depth int, s string) {
	ind := strings.Repeat("\t", depth)
	if w.noise != 0 && w.pick(7) == 0 {
		ind = strings.Repeat("  ", depth)
	}
	w.sb.WriteString(ind + s + "\n")
}

func (w *writer) blank() {
	if w.noise != 0 && w.pick(3) == 0 {
		w.sb.WriteString("\n")
	}
}

func (w *writer) comment(depth int) {
	if w.noise != 0 && w.pick(9) == 0 {
		w.line(depth, "// generated comment "+strconv.Itoa(w.n))
	}
}

func (w *writer) desc(depth int, d string) {
	if d == "" {
		return
	}
	for _, l := range strings.Split(d, "\n") {
		if l == "" {
			w.line(depth, "|")
		} else {
			w.line(depth, "| "+l)
		}
	}
}

func q(s string) string {
	s = strings.ReplaceAll(s, `\`, `\\`)
	s = strings.ReplaceAll(s, `"`, `\"`)
	return `"` + s + `"`
}

func strList(ss []string) string {
	parts := make([]string, len(ss))
	for i, s := range ss {
		parts[i] = q(s)
	}
	return "[" + strings.Join(parts, ", ") + "]"
}

func (f *File) Render(p *Package) string {
	w := &writer{noise: f.Noise}
	w.comment(0)
	w.line(0, "package "+p.Name)
	w.sb.WriteString("\n")
	for _, im := range f.Imports {
		switch {
		case im.ByFile != "":
			w.line(0, "import "+q(im.ByFile))
		case im.Alias != "":
			w.line(0, "import "+im.Package+":"+im.Alias)
		default:
			w.line(0, "import "+im.Package)
		}
	}
	if len(f.Imports) > 0 {
		w.sb.WriteString("\n")
	}
	for i, d := range f.Decls {
		if i > 0 {
			w.sb.WriteString("\n")
		}
		w.comment(0)
		switch {
		case d.Object != nil:
			w.object(0, "object", d.Object)
		case d.Oneof != nil:
			w.oneof(0, d.Oneof)
		case d.Enum != nil:
			w.enum(0, d.Enum)
		case d.Service != nil:
			w.service(0, "service "+d.Service.Name, d.Service)
		case d.Topic != nil:
			w.topic(0, d.Topic)
		case d.Entity != nil:
			w.entity(0, d.Entity)
		}
	}
	return w.sb.String()
}

func (w *writer) object(depth int, kw string, o *Object) {
	w.line(depth, kw+" "+o.Name+" {")
	w.desc(depth+1, o.Desc)
	for _, n := range o.Nested {
		w.object(depth+1, "object", n)
		w.blank()
	}
	for _, f := range o.Fields {
		w.field(depth+1, "field", f)
		w.blank()
	}
	w.line(depth, "}")
}

func (w *writer) oneof(depth int, o *Oneof) {
	w.line(depth, "oneof "+o.Name+" {")
	w.desc(depth+1, o.Desc)
	for _, f := range o.Options {
		w.field(depth+1, "option", f)
		w.blank()
	}
	w.line(depth, "}")
}

// withZero prepends the explicitly written zero option, if any.
func withZero(e *Enum) []*EnumOption {
	if e.ExplicitZero == nil {
		return e.Options
	}
	return append([]*EnumOption{e.ExplicitZero}, e.Options...)
}

func (w *writer) enumOptions(depth int, kw string, opts []*EnumOption) {
	for _, o := range opts {
		if len(o.Info) == 0 && o.Number == nil {
			if o.Desc != "" && !strings.Contains(o.Desc, "\n") && w.pick(2) == 0 {
				w.line(depth, kw+" "+o.Name+" | "+o.Desc)
			} else if o.Desc != "" {
				w.line(depth, kw+" "+o.Name+" {")
				w.desc(depth+1, o.Desc)
				w.line(depth, "}")
			} else {
				w.line(depth, kw+" "+o.Name)
			}
			continue
		}
		w.line(depth, kw+" "+o.Name+" {")
		w.desc(depth+1, o.Desc)
		if o.Number != nil {
			w.line(depth+1, "number = "+strconv.Itoa(int(*o.Number)))
		}
		keys := make([]string, 0, len(o.Info))
		for k := range o.Info {
			keys = append(keys, k)
		}
		sort.Strings(keys)
		for _, k := range keys {
			w.line(depth+1, "info."+k+" = "+q(o.Info[k]))
		}
		w.line(depth, "}")
	}
}

func (w *writer) enum(depth int, e *Enum) {
	w.line(depth, "enum "+e.Name+" {")
	w.desc(depth+1, e.Desc)
	if e.Prefix != "" {
		w.line(depth+1, "prefix = "+q(e.Prefix))
	}
	w.enumOptions(depth+1, "option", withZero(e))
	w.line(depth, "}")
}

func (r *Ref) spell() string {
	switch {
	case r.Spelling == "":
		return r.Name
	case r.Spelling == "full":
		return r.Package + "." + r.Name
	case r.Spelling == "short":
		parts := strings.Split(r.Package, ".")
		return parts[len(parts)-2] + "." + r.Name
	case strings.HasPrefix(r.Spelling, "alias:"):
		return strings.TrimPrefix(r.Spelling, "alias:") + "." + r.Name
	}
	return r.Name
}

// typeHead returns the qualifier chain (e.g. "array:object:Bar") and whether the
// reference, if any, still has to be written in the body.
func typeHead(t *Type) (head string, bodyRef *Ref) {
	switch t.Kind {
	case "integer", "float":
		return t.Kind + ":" + t.Format, nil
	case "key":
		if t.Format == "" {
			return "key", nil
		}
		return "key:" + t.Format, nil
	case "object", "oneof", "enum":
		if t.Ref != nil {
			if t.Ref.BodyRef {
				return t.Kind, t.Ref
			}
			return t.Kind + ":" + t.Ref.spell(), nil
		}
		return t.Kind, nil
	case "array", "map":
		h, br := typeHead(t.Items)
		return t.Kind + ":" + h, br
	}
	return t.Kind, nil
}

func u(v *uint64) string { return strconv.FormatUint(*v, 10) }

// ruleLines renders the rules of a (non-container) type under the given prefix.
func ruleLines(prefix string, t *Type) []string {
	var out []string
	r := t.Rules
	if r != nil {
		add := func(name, val string) { out = append(out, prefix+"rules."+name+" = "+val) }
		switch t.Kind {
		case "string":
			if r.MinLength != nil {
				add("minLength", u(r.MinLength))
			}
			if r.MaxLength != nil {
				add("maxLength", u(r.MaxLength))
			}
			if r.Pattern != nil {
				add("pattern", q(*r.Pattern))
			}
		case "bytes":
			if r.MinLength != nil {
				add("minLength", u(r.MinLength))
			}
			if r.MaxLength != nil {
				add("maxLength", u(r.MaxLength))
			}
		case "integer":
			if r.Minimum != nil {
				add("minimum", strconv.FormatInt(*r.Minimum, 10))
			}
			if r.Maximum != nil {
				add("maximum", strconv.FormatInt(*r.Maximum, 10))
			}
			if r.ExclusiveMin != nil {
				add("exclusiveMinimum", strconv.FormatBool(*r.ExclusiveMin))
			}
			if r.ExclusiveMax != nil {
				add("exclusiveMaximum", strconv.FormatBool(*r.ExclusiveMax))
			}
			if r.MultipleOf != nil {
				add("multipleOf", strconv.FormatInt(*r.MultipleOf, 10))
			}
		case "object":
			if r.MinProps != nil {
				add("minProperties", u(r.MinProps))
			}
			if r.MaxProps != nil {
				add("maxProperties", u(r.MaxProps))
			}
		case "date", "decimal":
			if r.MinStr != nil {
				add("minimum", q(*r.MinStr))
			}
			if r.MaxStr != nil {
				add("maximum", q(*r.MaxStr))
			}
			if r.ExclusiveMin != nil {
				add("exclusiveMinimum", strconv.FormatBool(*r.ExclusiveMin))
			}
			if r.ExclusiveMax != nil {
				add("exclusiveMaximum", strconv.FormatBool(*r.ExclusiveMax))
			}
		case "bool":
			if r.Const != nil {
				add("const", strconv.FormatBool(*r.Const))
			}
		case "enum":
			if len(r.In) > 0 {
				add("in", strList(r.In))
			}
			if len(r.NotIn) > 0 {
				add("notIn", strList(r.NotIn))
			}
		}
	}
	if l := t.List; l != nil {
		add := func(name, val string) { out = append(out, prefix+"listRules."+name+" = "+val) }
		if l.Filterable != nil {
			add("filtering.filterable", strconv.FormatBool(*l.Filterable))
		}
		if len(l.DefaultFilters) > 0 {
			add("filtering.defaultFilters", strList(l.DefaultFilters))
		}
		if l.Sortable != nil {
			add("sorting.sortable", strconv.FormatBool(*l.Sortable))
		}
		if l.DefaultSort != nil {
			add("sorting.defaultSort", strconv.FormatBool(*l.DefaultSort))
		}
		if l.Searchable != nil {
			add("searching.searchable", strconv.FormatBool(*l.Searchable))
		}
		if l.FieldID != nil {
			add("searching.fieldIdentifier", q(*l.FieldID))
		}
	}
	return out
}

func (w *writer) field(depth int, kw string, f *Field) {
	head, bodyRef := typeHead(f.Type)
	mark := ""
	var body []string
	if f.Required {
		if f.Style == 0 {
			mark = "! "
		} else {
			body = append(body, "required = true")
		}
	}
	if f.Optional {
		switch f.Style {
		case 0:
			mark = "? "
		case 1:
			body = append(body, "optional = true")
		default:
			body = append(body, "explicitlyOptional = true")
		}
	}
	if f.Primary {
		body = append(body, "primary = true")
	} else if f.PrimaryFalse {
		body = append(body, "primary = false")
	}
	if f.Foreign != "" {
		body = append(body, "foreign = "+q(f.Foreign))
	}
	if f.Tenant != "" {
		body = append(body, "tenant = "+q(f.Tenant))
	}
	if f.Shard {
		body = append(body, "shardKey = true")
	}

	t := f.Type
	leaf := t
	itemPrefix := ""
	switch t.Kind {
	case "array":
		leaf = t.Items
		itemPrefix = "items." + leaf.Kind + "."
		if t.SingleForm != "" {
			body = append(body, "ext.singleForm = "+q(t.SingleForm))
		}
		if r := t.Rules; r != nil {
			if r.MinItems != nil {
				body = append(body, "rules.minItems = "+u(r.MinItems))
			}
			if r.MaxItems != nil {
				body = append(body, "rules.maxItems = "+u(r.MaxItems))
			}
			if r.Unique != nil {
				body = append(body, "rules.uniqueItems = "+strconv.FormatBool(*r.Unique))
			}
		}
	case "map":
		leaf = t.Items
		itemPrefix = "itemSchema." + leaf.Kind + "."
		if t.SingleForm != "" {
			body = append(body, "ext.singleForm = "+q(t.SingleForm))
		}
		if r := t.Rules; r != nil {
			if r.MinPairs != nil {
				body = append(body, "rules.minPairs = "+u(r.MinPairs))
			}
			if r.MaxPairs != nil {
				body = append(body, "rules.maxPairs = "+u(r.MaxPairs))
			}
		}
	}
	if leaf.Kind == "key" && leaf.Format == "custom" {
		p := "format.custom.pattern = " + q(leaf.KeyPattern)
		if itemPrefix != "" {
			p = itemPrefix + p
		}
		body = append(body, p)
	}
	if leaf.Kind == "key" {
		// README: "the key type has ... foreign (string)"; primary and tenant only
		// have their alias inside entity blocks, so they are written by full path
		if leaf.KeyForeign != "" {
			body = append(body, itemPrefix+"foreign = "+q(leaf.KeyForeign))
		}
		if leaf.KeyPrimary {
			body = append(body, itemPrefix+"entity.primaryKey = true")
		} else if leaf.KeyPrimaryFalse {
			body = append(body, itemPrefix+"entity.primaryKey = false")
		}
		if leaf.KeyTenant != "" {
			body = append(body, itemPrefix+"entity.tenantKey = "+q(leaf.KeyTenant))
		}
	}
	if leaf.Kind == "any" {
		if leaf.AnyOnlyDefined {
			body = append(body, itemPrefix+"onlyDefined = true")
		}
		if len(leaf.AnyTypes) > 0 {
			body = append(body, itemPrefix+"types = "+strList(leaf.AnyTypes))
		}
	}
	body = append(body, ruleLines(itemPrefix, leaf)...)
	if leaf.Flatten {
		body = append(body, "flatten = true")
	}
	if bodyRef != nil {
		body = append(body, "ref "+bodyRef.spell())
	}

	var inlineWrite func(d int)
	switch {
	case leaf.InlineObject != nil:
		o := leaf.InlineObject
		if leaf.NameOverride {
			body = append(body, "object.name = "+q(o.Name))
		}
		inlineWrite = func(d int) {
			for _, n := range o.Fields {
				w.field(d, "field", n)
			}
		}
	case leaf.InlineOneof != nil:
		o := leaf.InlineOneof
		if leaf.NameOverride {
			body = append(body, "oneof.name = "+q(o.Name))
		}
		inlineWrite = func(d int) {
			for _, n := range o.Options {
				w.field(d, "option", n)
			}
		}
	case leaf.InlineEnum != nil:
		e := leaf.InlineEnum
		if leaf.NameOverride {
			body = append(body, "enum.name = "+q(e.Name))
		}
		if e.Prefix != "" {
			body = append(body, "enum.prefix = "+q(e.Prefix))
		}
		inlineWrite = func(d int) { w.enumOptions(d, "option", withZero(e)) }
	}

	headLine := fmt.Sprintf("%s %s %s%s", kw, f.Name, mark, head)
	if len(body) == 0 && inlineWrite == nil {
		if f.Desc != "" && !strings.Contains(f.Desc, "\n") && w.pick(2) == 0 {
			w.line(depth, headLine+" | "+f.Desc)
			return
		}
		if f.Desc == "" {
			if w.noise != 0 && w.pick(6) == 0 {
				w.line(depth, headLine+" {")
				w.line(depth, "}")
			} else {
				w.line(depth, headLine)
			}
			return
		}
	}
	w.line(depth, headLine+" {")
	w.desc(depth+1, f.Desc)
	for _, l := range body {
		w.line(depth+1, l)
	}
	if inlineWrite != nil {
		if len(body) > 0 {
			w.blank()
		}
		inlineWrite(depth + 1)
	}
	w.line(depth, "}")
}

func (w *writer) methods(depth int, ms []*Method) {
	for _, m := range ms {
		w.line(depth, "method "+m.Name+" {")
		w.desc(depth+1, m.Desc)
		w.line(depth+1, "httpMethod = "+q(m.HTTPMethod))
		w.line(depth+1, "httpPath = "+q(m.HTTPPath))
		if m.Label != "" || m.Hidden {
			w.line(depth+1, "options {")
			if m.Label != "" {
				w.line(depth+2, "label = "+q(m.Label))
			}
			if m.Hidden {
				w.line(depth+2, "hidden = true")
			}
			w.line(depth+1, "}")
		}
		w.line(depth+1, "request {")
		for _, f := range m.Request {
			w.field(depth+2, "field", f)
		}
		w.line(depth+1, "}")
		if !m.NoResponse {
			w.line(depth+1, "response {")
			for _, f := range m.Response {
				w.field(depth+2, "field", f)
			}
			w.line(depth+1, "}")
		}
		w.line(depth, "}")
		w.blank()
	}
}

func (w *writer) service(depth int, head string, s *Service) {
	w.line(depth, head+" {")
	if s.BasePath != "" {
		w.line(depth+1, "basePath = "+q(s.BasePath))
	}
	w.serviceOptions(depth+1, s)
	w.methods(depth+1, s.Methods)
	w.line(depth, "}")
}

func (w *writer) serviceOptions(depth int, s *Service) {
	if len(s.Audience) == 0 {
		return
	}
	w.line(depth, "options {")
	w.line(depth+1, "audience = "+strList(s.Audience))
	w.line(depth, "}")
}

func (w *writer) topicMessage(depth int, kw string, m *TopicMessage) {
	head := kw
	if m.Name != "" {
		head += " " + m.Name
	}
	w.line(depth, head+" {")
	for _, f := range m.Fields {
		w.field(depth+1, "field", f)
	}
	w.line(depth, "}")
}

func (w *writer) topic(depth int, t *Topic) {
	w.line(depth, "topic "+t.Name+" "+t.Kind+" {")
	switch t.Kind {
	case "publish", "upsert":
		for _, m := range t.Messages {
			w.topicMessage(depth+1, "message", m)
		}
	case "event":
		if t.EntityName != "" {
			w.line(depth+1, "entityName = "+q(t.EntityName))
		}
		for _, m := range t.Messages {
			w.topicMessage(depth+1, "message", m)
		}
	case "reqres":
		w.topicMessage(depth+1, "request", t.Request)
		for _, m := range t.MoreRequests {
			w.topicMessage(depth+1, "request", m)
		}
		w.topicMessage(depth+1, "reply", t.Reply)
		for _, m := range t.MoreReplies {
			w.topicMessage(depth+1, "reply", m)
		}
	}
	w.line(depth, "}")
}

func (w *writer) entity(depth int, e *Entity) {
	w.line(depth, "entity "+e.Name+" {")
	w.desc(depth+1, e.Desc)
	if e.BaseURL != "" {
		w.line(depth+1, "baseUrlPath = "+q(e.BaseURL))
	}
	for _, k := range e.Keys {
		w.field(depth+1, "key", k)
	}
	w.blank()
	for _, d := range e.Data {
		w.field(depth+1, "data", d)
	}
	w.blank()
	w.enumOptions(depth+1, "status", e.Statuses)
	if e.EventsInGet || len(e.DefaultStatusFilter) > 0 {
		w.line(depth+1, "query {")
		if e.EventsInGet {
			w.line(depth+2, "eventsInGet = true")
		}
		if len(e.DefaultStatusFilter) > 0 {
			w.line(depth+2, "defaultStatusFilter = "+strList(e.DefaultStatusFilter))
		}
		w.line(depth+1, "}")
	}
	for _, n := range e.Nested {
		switch {
		case n.Object != nil:
			w.object(depth+1, "object", n.Object)
		case n.Enum != nil:
			w.enum(depth+1, n.Enum)
		case n.Oneof != nil:
			w.oneof(depth+1, n.Oneof)
		}
	}
	for _, ev := range e.Events {
		w.line(depth+1, "event "+ev.Name+" {")
		for _, f := range ev.Fields {
			w.field(depth+2, "field", f)
		}
		w.line(depth+1, "}")
		w.blank()
	}
	for _, c := range e.Commands {
		head := "command"
		w.line(depth+1, head+" {")
		if c.Name != "" {
			w.line(depth+2, "name = "+q(c.Name))
		}
		if c.BasePath != "" {
			w.line(depth+2, "basePath = "+q(c.BasePath))
		}
		w.serviceOptions(depth+2, c)
		w.methods(depth+2, c.Methods)
		w.line(depth+1, "}")
	}
	for _, s := range e.Summaries {
		w.line(depth+1, "summary {")
		if s.Name != "" {
			w.line(depth+2, "name = "+q(s.Name))
		}
		for _, f := range s.Fields {
			w.field(depth+2, "field", f)
		}
		w.line(depth+1, "}")
	}
	w.line(depth, "}")
}
