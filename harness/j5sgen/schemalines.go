package j5sgen

import (
	"fmt"
	"sort"
	"strings"

	"github.com/pentops/j5/gen/j5/schema/v1/schema_j5pb"
	"google.golang.org/protobuf/reflect/protoreflect"
)

// SchemaLines flattens a RootSchema into "path = value" lines: one per scalar
// leaf and one per set oneof ("<path>.<oneof> = <member>"). Properties are
// addressed by name; their order is a separate line. Representation that does
// not change meaning is dropped (normal form): empty messages produce nothing,
// exclusive_* / unique_items = false are the same as unset.
func SchemaLines(pkg string, root *schema_j5pb.RootSchema) []string {
	var out []string
	var name string
	switch rt := root.Type.(type) {
	case *schema_j5pb.RootSchema_Object:
		name = rt.Object.Name
	case *schema_j5pb.RootSchema_Oneof:
		name = rt.Oneof.Name
	case *schema_j5pb.RootSchema_Enum:
		name = rt.Enum.Name
	}
	walkMsg(pkg+"/"+name, root.ProtoReflect(), &out)
	sort.Strings(out)
	return out
}

var falseIsUnset = map[string]bool{"exclusive_minimum": true, "exclusive_maximum": true, "unique_items": true}

func walkMsg(path string, m protoreflect.Message, out *[]string) {
	md := m.Descriptor()
	for i := 0; i < md.Oneofs().Len(); i++ {
		oo := md.Oneofs().Get(i)
		if oo.IsSynthetic() {
			continue
		}
		if f := m.WhichOneof(oo); f != nil {
			*out = append(*out, fmt.Sprintf("%s.%s = %s", path, oo.Name(), f.Name()))
		}
	}
	m.Range(func(fd protoreflect.FieldDescriptor, v protoreflect.Value) bool {
		p := path + "." + string(fd.Name())
		switch {
		case fd.IsMap():
			v.Map().Range(func(k protoreflect.MapKey, mv protoreflect.Value) bool {
				*out = append(*out, fmt.Sprintf("%s[%s] = %s", p, k.String(), leaf(fd.MapValue(), mv)))
				return true
			})
		case fd.IsList():
			l := v.List()
			if fd.Kind() == protoreflect.MessageKind && fd.Message().FullName() == "j5.schema.v1.ObjectProperty" {
				var names []string
				for i := 0; i < l.Len(); i++ {
					pm := l.Get(i).Message()
					n := pm.Get(pm.Descriptor().Fields().ByName("name")).String()
					names = append(names, n)
					walkMsg(fmt.Sprintf("%s[%s]", p, n), pm, out)
				}
				*out = append(*out, fmt.Sprintf("%s.order = %s", p, strings.Join(names, ",")))
				return true
			}
			if fd.Kind() == protoreflect.MessageKind && fd.Message().FullName() == "j5.schema.v1.Enum.Option" {
				var names []string
				for i := 0; i < l.Len(); i++ {
					pm := l.Get(i).Message()
					n := pm.Get(pm.Descriptor().Fields().ByName("name")).String()
					names = append(names, n)
					walkMsg(fmt.Sprintf("%s[%s]", p, n), pm, out)
				}
				*out = append(*out, fmt.Sprintf("%s.order = %s", p, strings.Join(names, ",")))
				return true
			}
			for i := 0; i < l.Len(); i++ {
				if fd.Kind() == protoreflect.MessageKind {
					walkMsg(fmt.Sprintf("%s[%d]", p, i), l.Get(i).Message(), out)
				} else {
					*out = append(*out, fmt.Sprintf("%s[%d] = %s", p, i, leaf(fd, l.Get(i))))
				}
			}
		case fd.Kind() == protoreflect.MessageKind:
			walkMsg(p, v.Message(), out)
		default:
			if falseIsUnset[string(fd.Name())] && fd.Kind() == protoreflect.BoolKind && !v.Bool() {
				return true
			}
			*out = append(*out, fmt.Sprintf("%s = %s", p, leaf(fd, v)))
		}
		return true
	})
}

func leaf(fd protoreflect.FieldDescriptor, v protoreflect.Value) string {
	switch fd.Kind() {
	case protoreflect.StringKind:
		return fmt.Sprintf("%q", v.String())
	case protoreflect.EnumKind:
		if ev := fd.Enum().Values().ByNumber(v.Enum()); ev != nil {
			return string(ev.Name())
		}
		return fmt.Sprint(v.Enum())
	}
	return fmt.Sprint(v.Interface())
}
