package c11

import (
	"encoding/json"
	"fmt"
	"os"
	"path/filepath"
	"strings"
	"testing"
	"time"
	"unicode/utf8"

	"github.com/pentops/j5/internal/bcl/errpos"
	"github.com/pentops/j5/internal/bcl/internal/parser"
	"github.com/pentops/j5/internal/bcl/internal/verif/bclgen"
	"github.com/pentops/j5/internal/bcl/internal/verif/bclx"
	"github.com/pentops/j5/internal/bcl/internal/verif/vf"
	"pgregory.net/rapid"
)

const prop = "C11"

type textCase struct {
	Text string `json:"text"`
	// Nest describes a deep or long input compactly: prefix + open x n + mid + close x n
	Nest *nestText `json:"nest,omitempty"`
}

type nestText struct {
	Prefix string `json:"prefix"`
	Open   string `json:"open"`
	Mid    string `json:"mid"`
	Close  string `json:"close"`
	N      int    `json:"n"`
	NoWalk bool   `json:"no_walk,omitempty"` // skip the harness's own (recursive) node walk
}

func (n *nestText) text() string {
	return n.Prefix + strings.Repeat(n.Open, n.N) + n.Mid + strings.Repeat(n.Close, n.N)
}

func laneText(raw json.RawMessage) ([]vf.Failure, error) {
	var c textCase
	if err := json.Unmarshal(raw, &c); err != nil {
		return nil, err
	}
	if c.Nest != nil {
		limit = deepLimit
		return checkParseOpts(c.Nest.text(), !c.Nest.NoWalk), nil
	}
	return checkParse(c.Text), nil
}

var lanes = map[string]vf.LaneFunc{
	"exhaustive": laneText,
	"random":     laneText,
	"mutate":     laneText,
	"corpus":     laneText,
	"fuzz":       laneText,
	"deep":       laneText,
}

func TestReplay(t *testing.T) {
	if !vf.RunReplayMode(t, prop, lanes) {
		t.Skip("no VERIF_REPLAY")
	}
}

func TestWitness(t *testing.T) { vf.Witnesses(t, prop, lanes) }

type diag struct {
	start, end errpos.Point
	hasPos     bool
	msg        string
}

type outcome struct {
	tree  *parser.File
	err   error
	diags []diag
}

const callLimit = 30 * time.Second

// limit is the watchdog for one parser call. It only exists to turn a call that
// never returns into a report; it is not a performance verdict. The deep lane's
// multi-megabyte inputs legitimately take seconds per call on an idle core and
// many times that on a loaded or slower machine, so they get ten minutes.
var limit = callLimit

const deepLimit = 10 * time.Minute

func runParse(text string, failFast bool) (outcome, *vf.Failure) {
	var o outcome
	what := fmt.Sprintf("ParseFile(failFast=%v)", failFast)
	if f := vf.GuardTimed(what, limit, func() { o.tree, o.err = parser.ParseFile(text, failFast) }); f != nil {
		return o, f
	}
	if o.err != nil {
		if ews, ok := errpos.AsErrorsWithSource(o.err); ok {
			for _, e := range ews.Errors {
				d := diag{}
				if e.Err != nil {
					d.msg = e.Err.Error()
				}
				if e.Pos != nil {
					d.hasPos = true
					d.start, d.end = e.Pos.Start, e.Pos.End
				}
				o.diags = append(o.diags, d)
			}
		}
	}
	return o, nil
}

// checkParse: all obligations of C11 for one input.
func checkParse(text string) (fails []vf.Failure) { return checkParseOpts(text, true) }

// checkParseOpts: walk=false skips the harness's recursive walk over the tree (for
// inputs nested so deeply that the walk itself would need the stack).
func checkParseOpts(text string, walk bool) (fails []vf.Failure) {
	lens := bclx.LineLens(text)
	var outs [2]outcome
	for i, ff := range []bool{true, false} {
		mode := "collect"
		if ff {
			mode = "failfast"
		}
		o, f := runParse(text, ff)
		if f != nil {
			fails = append(fails, *f)
			return fails
		}
		outs[i] = o
		if o.err == nil {
			if o.tree == nil {
				fails = append(fails, vf.Failf("result|nil-nil", "%s: nil tree and nil error", mode))
				continue
			}
			if !walk {
				continue
			}
			bclx.WalkNodes(o.tree, func(n bclx.Node) {
				if !bclx.InBounds(n.Start, lens) || !bclx.InBounds(n.End, lens) {
					fails = append(fails, vf.Failf("node-pos|out-of-file|"+n.Kind, "%s: node %s at %v-%v outside input (%d lines)", mode, n.Kind, n.Start, n.End, len(lens)))
				} else if !bclx.NotAfter(n.Start, n.End) {
					fails = append(fails, vf.Failf("node-pos|start-after-end|"+n.Kind, "%s: node %s start %v after end %v", mode, n.Kind, n.Start, n.End))
				}
			})
			continue
		}
		if len(o.diags) == 0 {
			fails = append(fails, vf.Failf("diag|none", "%s: error without diagnostics: %T %v", mode, o.err, o.err))
			continue
		}
		for _, d := range o.diags {
			if !d.hasPos {
				fails = append(fails, vf.Failf("diag|no-position", "%s: diagnostic %q has no position", mode, d.msg))
				continue
			}
			if !bclx.InBounds(d.start, lens) || !bclx.InBounds(d.end, lens) {
				fails = append(fails, vf.Failf("diag-pos|out-of-file", "%s: diagnostic %q at %v-%v outside input (%d lines, lens %v)", mode, d.msg, d.start, d.end, len(lens), headInts(lens)))
			} else if !bclx.NotAfter(d.start, d.end) {
				fails = append(fails, vf.Failf("diag-pos|start-after-end", "%s: diagnostic %q start %v after end %v", mode, d.msg, d.start, d.end))
			}
		}
		if ews, ok := errpos.AsErrorsWithSource(o.err); ok {
			for _, k := range []int{0, 1, 3} {
				var s string
				if f := vf.Guard("HumanString", func() { s = ews.HumanString(k) }); f != nil {
					fails = append(fails, *f)
				} else if s == "" {
					fails = append(fails, vf.Failf("render|empty", "%s: HumanString(%d) is empty", mode, k))
				} else if strings.Contains(s, "out of range (len ") {
					// the renderer's own words for a position it cannot find in the
					// source it was given: every position lies inside the input
					fails = append(fails, vf.Failf("render|line-out-of-range", "%s: HumanString(%d) could not place a diagnostic in the source:\n%s", mode, k, s))
				}
			}
		}
	}
	ffo, all := outs[0], outs[1]
	if (ffo.err == nil) != (all.err == nil) {
		fails = append(fails, vf.Failf("modes|accept-differs", "failfast err=%v, collect-all err=%v", ffo.err, all.err))
	} else if ffo.err != nil && len(ffo.diags) > 0 && len(all.diags) > 0 {
		a, b := ffo.diags[0], all.diags[0]
		if a.msg != b.msg || a.start != b.start || a.end != b.end {
			fails = append(fails, vf.Failf("modes|first-differs", "failfast first diagnostic %q@%v-%v, collect-all first %q@%v-%v", a.msg, a.start, a.end, b.msg, b.start, b.end))
		}
	}
	return dedupe(fails)
}

func headInts(v []int) []int {
	if len(v) > 8 {
		return v[:8]
	}
	return v
}

func dedupe(fails []vf.Failure) []vf.Failure {
	seen := map[string]bool{}
	var out []vf.Failure
	for _, f := range fails {
		if seen[f.Key] {
			continue
		}
		seen[f.Key] = true
		out = append(out, f)
	}
	return out
}

func classify(text string) (nontrivial bool, cls string) {
	// classification runs the code under test too: a panic here is the check's to
	// report (checkParse does, under its guard), not a reason to lose the case
	defer func() {
		if r := recover(); r != nil {
			nontrivial, cls = true, "panicked"
		}
	}()
	l := parser.NewLexer(text)
	toks, ok, _ := l.AllTokens(false)
	if !ok {
		// lexer errors: count tokens loosely by checking the input is non-blank
		return strings.TrimSpace(text) != "", "lex-error"
	}
	if len(toks) == 0 {
		return false, "no-tokens"
	}
	if _, err := parser.ParseFile(text, true); err != nil {
		return true, "parse-error"
	}
	return true, "accepted"
}

// ---------------------------------------------------------------------------
// lane 1: bounded-exhaustive over the token alphabet

// One or two representative spellings per token kind, plus the malformed forms.
var alphabet = []string{
	"a", "é名", "true", // IDENT (ascii, multi-byte), BOOL
	`"s"`, `"a\"b"`, `"x`, `"\q"`, "\"x\\\n", // STRING, escaped, unterminated, bad escape, escaped newline then nothing
	"/re/", "/r", // REGEX, unterminated
	"1", "1.5", "1.2.3", // INT, DECIMAL, second dot
	"// c", "/* c */", "/* u", // COMMENT, BLOCK_COMMENT, unterminated block comment
	"| d", "|d\u3000\u3000", // DESCRIPTION, ending in multi-byte white space
	"\n",                                                  // EOL
	"=", "{", "}", "[", "]", ".", ",", ":", "+", "!", "?", // operators
	"#", // a character no token starts with
}

func TestExhaustive(t *testing.T) {
	r := vf.Start(t, prop, "exhaustive")
	L := 4
	if vf.Tier() == "thorough" {
		L = 5
	}
	if v := os.Getenv("VERIF_L"); v != "" {
		fmt.Sscanf(v, "%d", &L)
	}
	n := len(alphabet)
	idx := make([]int, 0, L)
	var count int
	var rec func(depth int)
	shard, shards := r.Shard, r.Shards
	emit := func() {
		count++
		if shards > 1 && count%shards != shard {
			return
		}
		parts := make([]string, len(idx))
		for i, k := range idx {
			parts[i] = alphabet[k]
		}
		for _, sep := range []string{"", " "} {
			text := strings.Join(parts, sep)
			nt, cls := classify(text)
			r.Eval(nt, vf.Hash(text), cls)
			if cls == "accepted" && len(idx) == L && r.WantSample() {
				r.Sample(textCase{Text: text})
			}
			r.JudgeNoFatal(textCase{Text: text}, checkParse(text))
		}
	}
	rec = func(depth int) {
		emit()
		if depth == L {
			return
		}
		for k := 0; k < n; k++ {
			idx = append(idx, k)
			rec(depth + 1)
			idx = idx[:len(idx)-1]
		}
	}
	rec(0)
	r.Note("alphabet=%d spellings, L=%d, joined with \"\" and \" \"", n, L)
	r.SetExhaustive()
}

// ---------------------------------------------------------------------------
// lane 2: random strings over the full Unicode range and raw bytes

var hostile = []string{"\"", "\\", "/", "/*", "*/", "//", "|", "\n", "\r\n", "\t", "{", "}", "[", "]", "=", "+=", ":", ".", ",", "!", "?", "0", "9.", "a", "é", " ", "\x00", "\xff", " ", "٣", "\u3000", "\u3000\u3000", "\u2029", "\u0085", "\u1680", "\u200b", "\ufeff", "\U0001F600"}

func genRandom() *rapid.Generator[string] {
	return rapid.Custom(func(t *rapid.T) string {
		switch rapid.IntRange(0, 4).Draw(t, "kind") {
		case 4:
			// the same faulty line many times over: diagnostics by the hundred
			line := strings.Join(rapid.SliceOfN(rapid.OneOf(rapid.SampledFrom(hostile), rapid.SampledFrom(alphabet)), 1, 5).Draw(t, "line"), rapid.SampledFrom([]string{"", " "}).Draw(t, "linesep"))
			n := rapid.SampledFrom([]int{2, 10, 99, 100, 101, 150, 400}).Draw(t, "repeat")
			return strings.Repeat(line+"\n", n)
		case 0:
			return rapid.String().Draw(t, "s")
		case 1:
			return string(rapid.SliceOfN(rapid.Byte(), 0, 64).Draw(t, "bytes"))
		case 2:
			parts := rapid.SliceOfN(rapid.SampledFrom(hostile), 0, 24).Draw(t, "parts")
			return strings.Join(parts, "")
		default:
			parts := rapid.SliceOfN(rapid.OneOf(rapid.SampledFrom(hostile), rapid.SampledFrom(alphabet), rapid.StringN(0, 3, -1)), 0, 30).Draw(t, "mixed")
			return strings.Join(parts, rapid.SampledFrom([]string{"", " ", "\n"}).Draw(t, "sep"))
		}
	})
}

func TestRandom(t *testing.T) {
	r := vf.Start(t, prop, "random")
	rapid.Check(t, func(t *rapid.T) {
		text := genRandom().Draw(t, "text")
		fails := checkParse(text)
		nt, cls := classify(text)
		if !utf8.ValidString(text) {
			cls += "+invalid-utf8"
		}
		r.Eval(nt, vf.Hash(text), cls)
		if nt && r.WantSample() {
			r.Sample(textCase{Text: text})
		}
		r.Judge(t, textCase{Text: text}, fails)
	})
}

// ---------------------------------------------------------------------------
// lane 3: valid files with one token deleted / inserted / swapped / duplicated

type span struct{ from, to int } // rune offsets [from,to)

func tokenSpans(text string) (spans []span) {
	defer func() {
		if recover() != nil {
			spans = nil // the lexer's panic is reported by checkParse on the same text
		}
	}()
	l := parser.NewLexer(text)
	toks, ok, _ := l.AllTokens(true)
	if !ok {
		return nil
	}
	// line start offsets in runes
	runes := []rune(text)
	starts := []int{0}
	for i, r := range runes {
		if r == '\n' {
			starts = append(starts, i+1)
		}
	}
	var out []span
	for _, tk := range toks {
		if tk.Start.Line >= len(starts) || tk.End.Line >= len(starts) {
			continue
		}
		a := starts[tk.Start.Line] + tk.Start.Column
		b := starts[tk.End.Line] + tk.End.Column + 1
		if a < 0 || b > len(runes) || a >= b {
			continue
		}
		out = append(out, span{a, b})
	}
	return out
}

func mutate(t *rapid.T, text string) (string, string) {
	sp := tokenSpans(text)
	runes := []rune(text)
	if len(sp) == 0 {
		return text, "none"
	}
	i := rapid.IntRange(0, len(sp)-1).Draw(t, "tok")
	s := sp[i]
	switch rapid.IntRange(0, 4).Draw(t, "mut") {
	case 0:
		return string(runes[:s.from]) + string(runes[s.to:]), "delete"
	case 1:
		ins := rapid.SampledFrom(alphabet).Draw(t, "ins")
		return string(runes[:s.from]) + ins + " " + string(runes[s.from:]), "insert"
	case 2:
		j := rapid.IntRange(0, len(sp)-1).Draw(t, "tok2")
		s2 := sp[j]
		if i == j || s.to > s2.from && s2.to > s.from {
			return string(runes[:s.from]) + string(runes[s.to:]), "delete"
		}
		if s2.from < s.from {
			s, s2 = s2, s
		}
		return string(runes[:s.from]) + string(runes[s2.from:s2.to]) + string(runes[s.to:s2.from]) + string(runes[s.from:s.to]) + string(runes[s2.to:]), "swap"
	case 3:
		return string(runes[:s.to]) + " " + string(runes[s.from:s.to]) + string(runes[s.to:]), "duplicate"
	default:
		k := rapid.IntRange(0, len(runes)).Draw(t, "cut")
		return string(runes[:k]), "truncate"
	}
}

func TestMutate(t *testing.T) {
	r := vf.Start(t, prop, "mutate")
	rapid.Check(t, func(t *rapid.T) {
		base, _ := bclgen.File(t)
		text, kind := mutate(t, base)
		if rapid.IntRange(0, 3).Draw(t, "twice") == 0 {
			text, _ = mutate(t, text)
			kind += "+2"
		}
		fails := checkParse(text)
		nt, cls := classify(text)
		r.Eval(nt, vf.Hash(text), cls, "mut:"+kind)
		if cls == "parse-error" && r.WantSample() {
			r.Sample(textCase{Text: text})
		}
		r.Judge(t, textCase{Text: text}, fails)
	})
}

// ---------------------------------------------------------------------------
// lane 4: repository fixtures and unmutated generator output

func corpusFiles() map[string]string {
	out := map[string]string{}
	repo := os.Getenv("VERIF_REPO")
	if repo == "" {
		repo = "/repo"
	}
	for _, g := range []string{
		"internal/bcl/internal/parser/testdata/*", "internal/bcl/examples/*.bcl", "j5stest/proto/j5st/v1/*.j5s",
		"proto/j5/j5/*/v1/*.j5s", "internal/j5s/*/testdata/*",
	} {
		ms, _ := filepath.Glob(filepath.Join(repo, g))
		for _, m := range ms {
			if b, err := os.ReadFile(m); err == nil && len(b) < 1<<20 {
				out[m] = string(b)
			}
		}
	}
	return out
}

func TestCorpus(t *testing.T) {
	r := vf.Start(t, prop, "corpus")
	for name, text := range corpusFiles() {
		_ = name
		nt, cls := classify(text)
		r.Eval(nt, vf.Hash(text), cls)
		r.JudgeNoFatal(textCase{Text: text}, checkParse(text))
	}
	rapid.Check(t, func(t *rapid.T) {
		text, _ := bclgen.File(t)
		fails := checkParse(text)
		nt, cls := classify(text)
		r.Eval(nt, vf.Hash(text), cls)
		if cls == "accepted" && r.WantSample() {
			r.Sample(textCase{Text: text})
		}
		r.Judge(t, textCase{Text: text}, fails)
	})
}

// FuzzParse is the coverage-guided lane (thorough tier only).
func FuzzParse(f *testing.F) {
	for _, s := range alphabet {
		f.Add(s)
	}
	for _, s := range hostile {
		f.Add(s + s)
	}
	for _, text := range corpusFiles() {
		f.Add(text)
	}
	f.Fuzz(func(t *testing.T, text string) {
		if len(text) > 1<<14 {
			return
		}
		fails := checkParse(text)
		var rest []vf.Failure
		known := map[string]bool{}
		for _, kf := range vf.LoadFindings(vf.RootDir()) {
			if kf.Property == prop && kf.Status == "open" {
				known[kf.Key] = true
			}
		}
		for _, fl := range fails {
			if !known[fl.Key] {
				rest = append(rest, fl)
			}
		}
		if len(rest) > 0 {
			t.Fatalf("C11 fuzz: [%s] %s", rest[0].Key, rest[0].Detail)
		}
	})
}

// TestFuzzInput pushes crashers found by FuzzParse through the normal verdict path.
func TestFuzzInput(t *testing.T) {
	r := vf.Start(t, prop, "fuzz")
	for _, p := range vf.FuzzInputs() {
		vals, err := vf.ReadFuzzInput(p)
		if err != nil || len(vals) != 1 {
			r.Note("unreadable fuzz input %s: %v", p, err)
			continue
		}
		text := vals[0].(string)
		c := textCase{Text: text}
		r.Eval(true, vf.Hash(text), "fuzz-crasher")
		r.Journal(c)
		r.JudgeNoFatal(c, checkParse(text))
	}
}

// lane: deep nesting and very long flat inputs. A parser that recurses per level
// without a bound dies of stack overflow (fatal, attributed through the journal);
// everything else must return within the watchdog.
func TestDeep(t *testing.T) {
	r := vf.Start(t, prop, "deep")
	limit = deepLimit
	type tmpl struct {
		name                     string
		prefix, open, mid, close string
		depths                   []int
	}
	tmpls := []tmpl{
		{"array", "a = ", "[", "1", "]", []int{1, 10, 999, 1000, 1001, 1002, 5000, 200000, 2500000}},
		{"array-open", "a = ", "[", "", "", []int{1, 1000, 1001, 200000, 2500000}},
		{"array-commas", "a = ", "[1,", "2", "]", []int{1000, 1001, 200000}},
		{"block", "", "b {\n", "", "}\n", []int{1000, 100000}},
		{"block-open", "", "b {\n", "", "", []int{1000, 100000}},
		{"qualifiers", "b ", "a:", "a", "", []int{1000, 300000}},
		{"dots", "", "a.", "a = 1", "", []int{1000, 300000}},
		{"tags", "b", " t", "", "", []int{1000, 300000}},
		{"descriptions", "b {\n", "| d\n", "}", "", []int{1000, 300000}},
		{"statements", "", "a = 1\n", "", "", []int{1000, 300000}},
		{"bangs", "b ", "!", "", "", []int{1000, 300000}},
	}
	for _, tp := range tmpls {
		for _, n := range tp.depths {
			nt := &nestText{Prefix: tp.prefix, Open: tp.open, Mid: tp.mid, Close: tp.close, N: n, NoWalk: n > 50000}
			text := nt.text()
			c := textCase{Nest: nt}
			r.Eval(n > 1, vf.Hash(tp.name, n), "shape:"+tp.name, fmt.Sprintf("size>=%d", map[bool]int{true: 100000, false: 0}[n >= 100000]))
			r.Journal(c)
			r.JudgeNoFatal(c, checkParseOpts(text, !nt.NoWalk))
		}
	}
	r.SetExhaustive()
}
