// Package bclgen is G4: grammar-directed generation of BCL / j5s source text, with
// syntactic noise, plus token-level mutators and the token alphabet used by the
// bounded-exhaustive parser lane.
package bclgen

import (
	"strings"
	"unicode"

	"pgregory.net/rapid"
)

var identPool = []string{"a", "b", "foo", "bar", "object", "field", "string", "x1", "snake_case", "CamelCase", "true", "false", "é", "名前", "k_9", "rules", "min", "T"}

func ident(t *rapid.T) string {
	if rapid.IntRange(0, 9).Draw(t, "identkind") == 0 {
		first := rapid.RuneFrom(nil, unicode.Letter).Draw(t, "r0")
		rest := rapid.StringOfN(rapid.RuneFrom([]rune("abcXYZ019_éß名")), 0, 6, -1).Draw(t, "rest")
		return string(first) + rest
	}
	return rapid.SampledFrom(identPool).Draw(t, "ident")
}

func reference(t *rapid.T) string {
	n := rapid.SampledFrom([]int{1, 1, 1, 1, 2, 2, 3}).Draw(t, "reflen")
	parts := make([]string, n)
	for i := range parts {
		parts[i] = ident(t)
	}
	sep := "."
	if rapid.IntRange(0, 14).Draw(t, "dotnoise") == 0 {
		sep = rapid.SampledFrom([]string{" .", ". ", " . "}).Draw(t, "dotsep")
	}
	return strings.Join(parts, sep)
}

var strAlphabet = []rune{'a', 'b', 'Z', '0', ' ', ' ', '/', '*', '|', '{', '}', '[', ']', '=', ':', ',', '.', '!', '?', '+', '\'', '\t', 'é', 'ß', '名', '😀', ' ', ' ', '​', '\x7f', '\x01', '%', '\\', '"', '\n'}

// stringLit renders a STRING token. Backslash, quote and newline are written in
// their escaped form (the only three escapes the lexer defines).
func stringLit(t *rapid.T) string {
	rs := rapid.SliceOfN(rapid.SampledFrom(strAlphabet), 0, 12).Draw(t, "str")
	var sb strings.Builder
	sb.WriteByte('"')
	for _, r := range rs {
		switch r {
		case '\\':
			sb.WriteString(`\\`)
		case '"':
			sb.WriteString(`\"`)
		case '\n':
			sb.WriteString("\\\n")
		default:
			sb.WriteRune(r)
		}
	}
	sb.WriteByte('"')
	return sb.String()
}

var reAlphabet = []rune{'a', 'b', '0', '^', '$', '.', '*', '+', '?', '(', ')', '[', ']', '{', '}', '\\', 'd', 'w', '|', ' ', '"', '-', 'é', '/', '/'}

// regexLit renders a REGEX token; a '/' inside is written "//". The first rune is
// never '/' or '*' (that would lex as a comment).
func regexLit(t *rapid.T) string {
	rs := rapid.SliceOfN(rapid.SampledFrom(reAlphabet), 1, 10).Draw(t, "re")
	if rs[0] == '/' || rs[0] == '*' {
		rs[0] = '^'
	}
	var sb strings.Builder
	sb.WriteByte('/')
	for _, r := range rs {
		if r == '/' {
			sb.WriteString("//")
		} else {
			sb.WriteRune(r)
		}
	}
	sb.WriteByte('/')
	return sb.String()
}

func numberLit(t *rapid.T) string {
	switch rapid.IntRange(0, 5).Draw(t, "numkind") {
	case 0:
		return "0"
	case 1:
		return rapid.StringMatching(`[0-9]{1,4}\.[0-9]{0,4}`).Draw(t, "dec")
	case 2:
		return rapid.StringMatching(`[0-9]{15,25}`).Draw(t, "bigint")
	case 3:
		return rapid.SampledFrom([]string{"٣", "1٣", "007", "1."}).Draw(t, "oddnum")
	default:
		return rapid.StringMatching(`[0-9]{1,6}`).Draw(t, "int")
	}
}

func scalarValue(t *rapid.T) string {
	switch rapid.IntRange(0, 9).Draw(t, "valkind") {
	case 0, 1, 2:
		return stringLit(t)
	case 3:
		return regexLit(t)
	case 4, 5:
		return numberLit(t)
	case 6:
		return rapid.SampledFrom([]string{"true", "false"}).Draw(t, "bool")
	default:
		return reference(t)
	}
}

func value(t *rapid.T, depth int) string {
	if depth < 3 && rapid.IntRange(0, 4).Draw(t, "isarray") == 0 {
		n := rapid.IntRange(0, 4).Draw(t, "arrlen")
		parts := make([]string, n)
		for i := range parts {
			parts[i] = value(t, depth+1)
		}
		sep := rapid.SampledFrom([]string{", ", ",", " , ", ",  "}).Draw(t, "comma")
		pad := rapid.SampledFrom([]string{"", "", " "}).Draw(t, "pad")
		return "[" + pad + strings.Join(parts, sep) + pad + "]"
	}
	return scalarValue(t)
}

func ws(t *rapid.T) string {
	return rapid.SampledFrom([]string{" ", " ", " ", "", "  ", "\t", " \t "}).Draw(t, "ws")
}

func ws1(t *rapid.T) string {
	return rapid.SampledFrom([]string{" ", " ", " ", "  ", "\t"}).Draw(t, "ws1")
}

func commentText(t *rapid.T) string {
	return rapid.SampledFrom([]string{"", " c", " a comment", "x", " with \"quotes\" and // more", " trailing ", " /* not a block */", "\tc", " é名"}).Draw(t, "ctext")
}

func tag(t *rapid.T) string {
	mark := rapid.SampledFrom([]string{"", "", "", "", "!", "?", "! ", "? "}).Draw(t, "mark")
	if rapid.IntRange(0, 4).Draw(t, "tagstr") == 0 {
		return mark + stringLit(t)
	}
	return mark + reference(t)
}

func descText(t *rapid.T) string {
	words := rapid.SliceOfN(rapid.SampledFrom([]string{"word", "a", "the", "description", "of", "x", "supercalifragilisticexpialidocious_long_word_that_exceeds", "é名", "//", "|", "{", "\"q\"", "end."}), 0, 24).Draw(t, "dwords")
	sep := rapid.SampledFrom([]string{" ", " ", "  "}).Draw(t, "dsep")
	if rapid.IntRange(0, 3).Draw(t, "dtail") == 0 {
		// a line that ends like a piece of structure
		words = append(words, rapid.SampledFrom([]string{"{", "}", "[", "]", "=", "|", "//", "/*", "*/", "\\", ",", ":", "\u3000", "\u00a0\u00a0", "\u2028", "x\u3000\u3000"}).Draw(t, "dtailtok"))
	}
	return strings.Join(words, sep)
}

type gen struct {
	t     *rapid.T
	lines []string
	// Classes observed while generating, for the histogram / non-triviality rule.
	Classes map[string]bool
}

func (g *gen) cls(c string) { g.Classes[c] = true }

func (g *gen) indent(depth int) string {
	switch rapid.IntRange(0, 5).Draw(g.t, "indent") {
	case 0:
		return ""
	case 1:
		return strings.Repeat("  ", depth)
	case 2:
		return strings.Repeat("\t", depth) + " "
	default:
		return strings.Repeat("\t", depth)
	}
}

func (g *gen) trailing() string {
	switch rapid.IntRange(0, 7).Draw(g.t, "trail") {
	case 0:
		g.cls("trailing-comment")
		return ws(g.t) + "//" + commentText(g.t)
	case 1:
		g.cls("trailing-space")
		return ws1(g.t)
	}
	return ""
}

func (g *gen) emit(s string) {
	g.lines = append(g.lines, strings.Split(s, "\n")...)
}

func (g *gen) blanks() {
	switch rapid.IntRange(0, 9).Draw(g.t, "blank") {
	case 0:
		g.cls("blank-run")
		n := rapid.IntRange(2, 4).Draw(g.t, "nblank")
		for i := 0; i < n; i++ {
			g.emit("")
		}
	case 1, 2:
		g.emit("")
	case 3:
		g.cls("ws-only-line")
		g.emit(rapid.SampledFrom([]string{" ", "\t", "  \t"}).Draw(g.t, "wsline"))
	}
}

func (g *gen) body(depth int, budget *int) {
	n := rapid.IntRange(0, 6).Draw(g.t, "nstmts")
	for i := 0; i < n && *budget > 0; i++ {
		*budget--
		g.blanks()
		g.statement(depth, budget)
	}
}

func (g *gen) statement(depth int, budget *int) {
	t := g.t
	ind := g.indent(depth)
	switch rapid.IntRange(0, 13).Draw(t, "stmt") {
	case 0, 1, 2, 3: // assignment
		op := rapid.SampledFrom([]string{"=", "=", "=", "+="}).Draw(t, "op")
		if op == "+=" && rapid.IntRange(0, 5).Draw(t, "plusgap") == 0 {
			op = "+ ="
		}
		v := value(t, 0)
		if strings.Contains(v, "\\\n") {
			g.cls("escaped-newline")
		}
		if strings.Contains(v, "//") {
			g.cls("regex-slash-or-comment-in-value")
		}
		if strings.HasPrefix(v, "[") {
			g.cls("array")
		}
		g.emit(ind + reference(t) + ws(t) + op + ws(t) + v + g.trailing())
	case 4, 5, 6, 7: // block header
		hdr := reference(t)
		nt := rapid.SampledFrom([]int{0, 1, 1, 1, 2, 3}).Draw(t, "ntags")
		for i := 0; i < nt; i++ {
			hdr += ws1(t) + tag(t)
		}
		nq := rapid.SampledFrom([]int{0, 0, 0, 1, 1, 2}).Draw(t, "nquals")
		for i := 0; i < nq; i++ {
			hdr += ws(t) + ":" + ws(t) + tag(t)
			g.cls("qualifier")
		}
		switch rapid.IntRange(0, 5).Draw(t, "hdrend") {
		case 0, 1, 2: // open block
			g.emit(ind + hdr + ws(t) + "{" + g.trailing())
			if depth < 4 {
				g.body(depth+1, budget)
			}
			g.blanks()
			closeInd := g.indent(depth)
			switch rapid.IntRange(0, 11).Draw(t, "closekind") {
			case 0:
				g.cls("stmt-after-close")
				g.emit(closeInd + "}" + ws(t) + reference(t) + " = " + scalarValue(t))
			case 1:
				g.cls("close-then-blockcomment")
				g.emit(closeInd + "}" + ws(t) + "/* c */")
			default:
				g.emit(closeInd + "}" + rapid.SampledFrom([]string{"", "", "", " ", "\t"}).Draw(t, "closetrail"))
			}
		case 3: // inline description
			g.cls("inline-description")
			g.emit(ind + hdr + ws(t) + "|" + ws(t) + descText(t))
		case 4: // header + comment, no body
			g.cls("header-trailing-comment")
			g.emit(ind + hdr + ws(t) + "//" + commentText(t))
		default:
			g.emit(ind + hdr + rapid.SampledFrom([]string{"", "", " "}).Draw(t, "hdrtrail"))
		}
	case 8: // description block
		n := rapid.IntRange(1, 5).Draw(t, "ndesc")
		if n > 1 {
			g.cls("multiline-description")
		}
		for i := 0; i < n; i++ {
			txt := descText(t)
			if i > 0 && rapid.IntRange(0, 3).Draw(t, "descblank") == 0 {
				txt = ""
				g.cls("description-paragraph")
			}
			g.emit(g.indent(depth) + "|" + ws(t) + txt)
		}
		if rapid.IntRange(0, 2).Draw(t, "descagain") == 0 {
			// a second description statement, separated by blank lines only
			g.cls("description-after-description")
			for i := rapid.IntRange(1, 2).Draw(t, "descgap"); i > 0; i-- {
				g.emit("")
			}
			for i := rapid.IntRange(1, 2).Draw(t, "ndesc2"); i > 0; i-- {
				g.emit(g.indent(depth) + "|" + ws(t) + descText(t))
			}
		}
	case 9, 10: // line comment
		g.cls("line-comment")
		g.emit(ind + "//" + commentText(t))
	case 11: // block comment
		g.cls("block-comment")
		body := rapid.SampledFrom([]string{"", " c ", "*", " multi\nline\n comment ", "\n", " a * b / c ", "é", " // inside "}).Draw(t, "bctext")
		if strings.Contains(body, "\n") {
			g.cls("multiline-block-comment")
		}
		line := ind + "/*" + body + "*/"
		if rapid.IntRange(0, 3).Draw(t, "bcfollow") == 0 {
			g.cls("stmt-after-blockcomment")
			line += ws(t) + reference(t) + " = " + scalarValue(t)
		}
		g.emit(line)
	case 12: // value that is a comment / description token (grammar quirk: they are literals)
		g.cls("literal-quirk")
		g.emit(ind + reference(t) + " = " + rapid.SampledFrom([]string{"// c", "| d", "/* c */"}).Draw(t, "quirk"))
	default: // bare declaration with bool-looking type
		g.emit(ind + rapid.SampledFrom([]string{"true", "false"}).Draw(t, "boolident") + " " + reference(t))
	}
}

// File draws a source text that is, by construction, almost always accepted by
// the parser. The returned class set describes which shapes it contains.
func File(t *rapid.T) (string, map[string]bool) {
	g := &gen{t: t, Classes: map[string]bool{}}
	budget := rapid.IntRange(1, 40).Draw(t, "budget")
	switch rapid.IntRange(0, 7).Draw(t, "lead") {
	case 0:
		g.cls("leading-blank")
		g.emit("")
	case 1:
		g.cls("leading-blank")
		g.emit("")
		g.emit("")
	}
	g.body(0, &budget)
	text := strings.Join(g.lines, "\n")
	switch rapid.IntRange(0, 5).Draw(t, "eof") {
	case 0: // no trailing newline
		g.cls("no-final-newline")
	case 1:
		g.cls("trailing-blank")
		text += "\n\n\n"
	default:
		text += "\n"
	}
	return text, g.Classes
}

// LiteralStatement draws a single assignment, tag or qualifier carrying one string
// or regex literal over the full escapable alphabet.
func LiteralStatement(t *rapid.T) string {
	lit := ""
	if rapid.Bool().Draw(t, "isregex") {
		lit = regexLit(t)
	} else {
		n := rapid.IntRange(0, 20).Draw(t, "n")
		rs := make([]rune, n)
		for i := range rs {
			if rapid.IntRange(0, 3).Draw(t, "any") == 0 {
				rs[i] = rapid.Rune().Draw(t, "r")
			} else {
				rs[i] = rapid.SampledFrom(strAlphabet).Draw(t, "a")
			}
		}
		var sb strings.Builder
		sb.WriteByte('"')
		for _, r := range rs {
			switch r {
			case '\\':
				sb.WriteString(`\\`)
			case '"':
				sb.WriteString(`\"`)
			case '\n':
				sb.WriteString("\\\n")
			default:
				sb.WriteRune(r)
			}
		}
		sb.WriteByte('"')
		lit = sb.String()
	}
	pos := rapid.IntRange(0, 3).Draw(t, "pos")
	if lit[0] == '/' && pos < 2 {
		pos += 2 // a regex is a value, not a tag
	}
	switch pos {
	case 0:
		return "block " + lit + " {\n}\n"
	case 1:
		return "block a:" + lit + "\n"
	case 2:
		return "k = [" + lit + ", " + lit + "]\n"
	default:
		return "k = " + lit + "\n"
	}
}
