package c15

import (
	"encoding/base64"
	"encoding/json"
	"fmt"
	"sort"
	"strings"
	"testing"
	"time"

	"github.com/bufbuild/protocompile/linker"
	"github.com/pentops/j5/gen/j5/schema/v1/schema_j5pb"
	"github.com/pentops/j5/gen/j5/source/v1/source_j5pb"
	"github.com/pentops/j5/internal/bcl/internal/verif/j5sgen"
	"github.com/pentops/j5/internal/bcl/internal/verif/j5sx"
	"github.com/pentops/j5/internal/bcl/internal/verif/pdiff"
	"github.com/pentops/j5/internal/bcl/internal/verif/pgen"
	"github.com/pentops/j5/internal/bcl/internal/verif/vf"
	"github.com/pentops/j5/internal/structure"
	"github.com/pentops/j5/lib/j5schema"
	"google.golang.org/protobuf/proto"
	"google.golang.org/protobuf/reflect/protodesc"
	"google.golang.org/protobuf/reflect/protoreflect"
	"google.golang.org/protobuf/types/descriptorpb"
	"pgregory.net/rapid"
)

const prop = "C15"

// RawCase is the replay unit of the raw lane: serialised file descriptors and the
// package names to export.
type RawCase struct {
	Files    []string `json:"files"` // base64 FileDescriptorProto, dependency order
	Packages []string `json:"packages"`
	Text     string   `json:"text,omitempty"`
}

func laneJ5S(raw json.RawMessage) ([]vf.Failure, error) {
	var b j5sgen.Bundle
	if err := json.Unmarshal(raw, &b); err != nil {
		return nil, err
	}
	f, _ := checkJ5S(&b)
	return f, nil
}

func laneRaw(raw json.RawMessage) ([]vf.Failure, error) {
	var c RawCase
	if err := json.Unmarshal(raw, &c); err != nil {
		return nil, err
	}
	f, _ := checkRaw(&c)
	return f, nil
}

var lanes = map[string]vf.LaneFunc{"j5s": laneJ5S, "raw": laneRaw}

func TestReplay(t *testing.T) {
	if !vf.RunReplayMode(t, prop, lanes) {
		t.Skip("no VERIF_REPLAY")
	}
}

func TestWitness(t *testing.T) { vf.Witnesses(t, prop, lanes) }

const callLimit = 60 * time.Second

// features counts what the first export carries, for the non-triviality rule and
// the class distribution.
type features map[string]int

func (ft features) scan(m protoreflect.Message) {
	m.Range(func(fd protoreflect.FieldDescriptor, v protoreflect.Value) bool {
		name := string(fd.Name())
		switch name {
		case "rules", "list_rules", "info", "entity", "types", "only_defined", "ext", "flatten", "explicitly_optional", "required", "bcl", "polymorph", "entity_key", "format", "docs", "description":
			ft[string(m.Descriptor().Name())+"."+name]++
		}
		switch {
		case fd.IsList() && fd.Message() != nil:
			for i := 0; i < v.List().Len(); i++ {
				ft.scan(v.List().Get(i).Message())
			}
		case fd.IsMap() && fd.MapValue().Message() != nil:
			v.Map().Range(func(_ protoreflect.MapKey, mv protoreflect.Value) bool { ft.scan(mv.Message()); return true })
		case fd.Message() != nil && !fd.IsList() && !fd.IsMap():
			ft.scan(v.Message())
		}
		return true
	})
}

// refsResolved walks a re-imported schema set and reports refs with no target.
func refsResolved(ss *j5schema.SchemaSet) []string {
	var bad []string
	seen := map[*j5schema.RefSchema]bool{}
	var field func(where string, fs j5schema.FieldSchema)
	var ref func(where string, r *j5schema.RefSchema)
	ref = func(where string, r *j5schema.RefSchema) {
		if r == nil {
			bad = append(bad, where+": nil ref")
			return
		}
		if seen[r] {
			return
		}
		seen[r] = true
		if r.To == nil {
			bad = append(bad, fmt.Sprintf("%s: ref %s.%s has no target", where, r.Package.Name, r.Schema))
			return
		}
		switch t := r.To.(type) {
		case *j5schema.ObjectSchema:
			for _, p := range t.Properties {
				field(r.Schema+"."+p.JSONName, p.Schema)
			}
		case *j5schema.OneofSchema:
			for _, p := range t.Properties {
				field(r.Schema+"."+p.JSONName, p.Schema)
			}
		}
	}
	field = func(where string, fs j5schema.FieldSchema) {
		switch t := fs.(type) {
		case *j5schema.ObjectField:
			ref(where, t.Ref)
		case *j5schema.OneofField:
			ref(where, t.Ref)
		case *j5schema.EnumField:
			ref(where, t.Ref)
		case *j5schema.ArrayField:
			field(where+"[]", t.Schema)
		case *j5schema.MapField:
			field(where+"{}", t.Schema)
		}
	}
	for _, pkg := range ss.Packages {
		for name, r := range pkg.Schemas {
			ref(pkg.Name+"."+name, r)
		}
	}
	sort.Strings(bad)
	return bad
}

func rootKind(r *schema_j5pb.RootSchema) string {
	switch r.GetType().(type) {
	case *schema_j5pb.RootSchema_Object:
		return "object"
	case *schema_j5pb.RootSchema_Oneof:
		return "oneof"
	case *schema_j5pb.RootSchema_Enum:
		return "enum"
	}
	return "unset"
}

// roundTrip is the oracle: export -> import -> export is the identity and every
// reference is resolved.
func roundTrip(api *source_j5pb.API) (fails []vf.Failure, ft features) {
	ft = features{}
	first := map[string]map[string]*schema_j5pb.RootSchema{}
	for _, p := range api.Packages {
		first[p.Name] = p.Schemas
		for _, sp := range p.SubPackages {
			first[p.Name+"."+sp.Name] = sp.Schemas
		}
	}
	nSchemas := 0
	for _, m := range first {
		for _, s := range m {
			nSchemas++
			ft[rootKind(s)]++
			ft.scan(s.ProtoReflect())
		}
	}
	ft["schemas"] = nSchemas
	ft["packages"] = len(first)

	var ss *j5schema.SchemaSet
	var err error
	if f := vf.GuardTimed("PackageSetFromSourceAPI", callLimit, func() { ss, err = j5schema.PackageSetFromSourceAPI(api.Packages) }); f != nil {
		return []vf.Failure{*f}, ft
	}
	if err != nil {
		return []vf.Failure{vf.Failf("import|error|"+vf.ErrClass(err), "PackageSetFromSourceAPI rejects the API that APIFromImage exported: %v", err)}, ft
	}
	seen := map[string]bool{}
	add := func(key, format string, a ...any) {
		if !seen[key] {
			seen[key] = true
			fails = append(fails, vf.Failf(key, format, a...))
		}
	}
	for _, msg := range refsResolved(ss) {
		add("import|unresolved-ref", "%s", msg)
	}
	for pkgName, schemas := range first {
		pkg := ss.Packages[pkgName]
		for name, want := range schemas {
			var r *j5schema.RefSchema
			if pkg != nil {
				r = pkg.Schemas[name]
			}
			if r == nil || r.To == nil {
				add("reexport|missing|"+rootKind(want), "%s.%s (%s) is not in the re-imported schema set", pkgName, name, rootKind(want))
				continue
			}
			var got *schema_j5pb.RootSchema
			if f := vf.GuardTimed("ToJ5Root", callLimit, func() { got = r.To.ToJ5Root() }); f != nil {
				fails = append(fails, *f)
				continue
			}
			if proto.Equal(want, got) {
				continue
			}
			for _, d := range pdiff.Messages(want, got, 8) {
				add("reexport|differs|"+d.Path, "%s.%s at %s: %s (first export vs export after re-import)", pkgName, name, d.Where, d.Detail)
			}
		}
	}
	for pkgName, pkg := range ss.Packages {
		for name, r := range pkg.Schemas {
			if r.To == nil {
				continue
			}
			if _, ok := first[pkgName][name]; !ok {
				add("reexport|extra", "%s.%s exists after re-import but was not exported", pkgName, name)
			}
		}
	}
	return fails, ft
}

func checkJ5S(b *j5sgen.Bundle) ([]vf.Failure, features) {
	src := &j5sx.Bundle{Files: b.Render()}
	texts := map[string]string{}
	for _, p := range b.Packages {
		var files linker.Files
		var err error
		if f := vf.GuardTimed("CompilePackage", callLimit, func() { files, err = j5sx.Compile(src, p.Name) }); f != nil {
			return []vf.Failure{*f}, nil
		}
		if err != nil {
			return []vf.Failure{vf.Failf("compile|error", "package %s does not compile (C07's verdict): %v", p.Name, err)}, nil
		}
		for _, f := range files {
			tx, perr := j5sx.Print(f)
			if perr != nil {
				return []vf.Failure{vf.Failf("print|error", "%s: %v", f.Path(), perr)}, nil
			}
			texts[f.Path()] = tx
		}
	}
	var api *source_j5pb.API
	var err error
	if f := vf.GuardTimed("APIFromImage", callLimit, func() {
		var img *source_j5pb.SourceImage
		img, _, err = j5sx.ReadImage(texts)
		if err != nil {
			return
		}
		for _, p := range b.Packages {
			img.Packages = append(img.Packages, &source_j5pb.PackageInfo{Name: p.Name})
		}
		api, err = structure.APIFromImage(img)
	}); f != nil {
		return []vf.Failure{*f}, nil
	}
	if err != nil {
		return []vf.Failure{vf.Failf("export|error|"+vf.ErrClass(err), "source API cannot be built (C16's verdict): %v", err)}, nil
	}
	return roundTrip(api)
}

func closure(fds []protoreflect.FileDescriptor) []*descriptorpb.FileDescriptorProto {
	var out []*descriptorpb.FileDescriptorProto
	seen := map[string]bool{}
	var visit func(fd protoreflect.FileDescriptor)
	visit = func(fd protoreflect.FileDescriptor) {
		if seen[fd.Path()] {
			return
		}
		seen[fd.Path()] = true
		imps := fd.Imports()
		for i := 0; i < imps.Len(); i++ {
			visit(imps.Get(i).FileDescriptor)
		}
		out = append(out, protodesc.ToFileDescriptorProto(fd))
	}
	for _, fd := range fds {
		visit(fd)
	}
	return out
}

func checkRaw(c *RawCase) ([]vf.Failure, features) {
	var pbs []*descriptorpb.FileDescriptorProto
	for _, f := range c.Files {
		b, err := base64.StdEncoding.DecodeString(f)
		if err != nil {
			return []vf.Failure{vf.Failf("case|decode", "%v", err)}, nil
		}
		pb := &descriptorpb.FileDescriptorProto{}
		if err := proto.Unmarshal(b, pb); err != nil {
			return []vf.Failure{vf.Failf("case|decode", "%v", err)}, nil
		}
		pbs = append(pbs, pb)
	}
	_, fds, err := pgen.Link(pbs...)
	if err != nil {
		return []vf.Failure{vf.Failf("case|link", "generated files do not link: %v", err)}, nil
	}
	img := &source_j5pb.SourceImage{File: closure(fds)}
	for _, p := range c.Packages {
		img.Packages = append(img.Packages, &source_j5pb.PackageInfo{Name: p})
	}
	var api *source_j5pb.API
	if f := vf.GuardTimed("APIFromImage", callLimit, func() { api, err = structure.APIFromImage(img) }); f != nil {
		return []vf.Failure{*f}, nil
	}
	if err != nil {
		// reflection of the supported subset is C18's / C01's subject
		return []vf.Failure{vf.Failf("export|error|"+vf.ErrClass(err), "source API cannot be built from supported-subset descriptors: %v", err)}, nil
	}
	return roundTrip(api)
}

func classesOf(ft features) (cls []string, nontrivial bool) {
	for k, n := range ft {
		if n > 0 && k != "schemas" && k != "packages" {
			cls = append(cls, "has:"+k)
		}
	}
	if ft["packages"] >= 2 {
		cls = append(cls, "multi-package")
	}
	// non-trivial: the export carries at least one of the droppable features
	for k := range ft {
		if strings.HasSuffix(k, ".rules") || strings.HasSuffix(k, ".list_rules") || strings.HasSuffix(k, ".info") || strings.HasSuffix(k, ".entity") || strings.HasSuffix(k, ".types") {
			nontrivial = true
		}
	}
	return cls, nontrivial && ft["schemas"] >= 3
}

func TestJ5S(t *testing.T) {
	r := vf.Start(t, prop, "j5s")
	rapid.Check(t, func(t *rapid.T) {
		o := j5sgen.DefaultOpts()
		o.Entities = true
		b, classes := j5sgen.Draw(t, o)
		fails, ft := checkJ5S(b)
		if ft == nil && len(fails) > 0 && (strings.HasPrefix(fails[0].Key, "compile|") || strings.HasPrefix(fails[0].Key, "export|") || strings.HasPrefix(fails[0].Key, "print|")) {
			// not this property's subject; C07 / C16 decide these
			r.Discard()
			r.Journal(b)
			return
		}
		cls, nt := classesOf(ft)
		for k := range classes {
			cls = append(cls, k)
		}
		r.Eval(nt, vf.Hash(b.Render()), cls...)
		if nt && len(b.Render()) <= 2 && r.WantSample() {
			r.Sample(map[string]any{"files": b.Render(), "schemas": ft["schemas"]})
		}
		r.Journal(b)
		r.Judge(t, b, fails)
	})
}

func TestRaw(t *testing.T) {
	r := vf.Start(t, prop, "raw")
	rapid.Check(t, func(t *rapid.T) {
		pkgA := fmt.Sprintf("vt%d.v1", rapid.IntRange(0, 9).Draw(t, "pkgn"))
		res := pgen.Draw(t, pgen.Annotated, pkgA)
		pbs := []*descriptorpb.FileDescriptorProto{res.File}
		c := &RawCase{Packages: []string{pkgA}}
		cross := rapid.IntRange(0, 2).Draw(t, "cross")
		if cross > 0 {
			pkgB := "wx.v1"
			if cross == 2 {
				pkgB = pkgA + ".service" // a sub-package of the first
			}
			pbs = append(pbs, pgen.CrossFile(t, res.File, pkgB))
			if cross == 1 {
				c.Packages = append(c.Packages, pkgB)
			}
		}
		for _, pb := range pbs {
			b, _ := proto.MarshalOptions{Deterministic: true}.Marshal(pb)
			c.Files = append(c.Files, base64.StdEncoding.EncodeToString(b))
		}
		fails, ft := checkRaw(c)
		if ft == nil && len(fails) > 0 && strings.HasPrefix(fails[0].Key, "export|") {
			// the reflection refused the descriptors: outside this property (C18/C01)
			r.Discard()
			return
		}
		cls, nt := classesOf(ft)
		for k := range res.Classes {
			cls = append(cls, k)
		}
		cls = append(cls, fmt.Sprintf("cross:%d", cross))
		r.Eval(nt, vf.Hash(c.Files), cls...)
		r.Journal(c)
		r.Judge(t, c, fails)
	})
}
