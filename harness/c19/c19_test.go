package c19

import (
	"encoding/json"
	"fmt"
	"os"
	"path/filepath"
	"strings"
	"testing"
	"time"
	"unicode"

	"github.com/pentops/j5/internal/bcl/internal/parser"
	"github.com/pentops/j5/internal/bcl/internal/verif/bclgen"
	"github.com/pentops/j5/internal/bcl/internal/verif/vf"
	"pgregory.net/rapid"
)

const prop = "C19"

type textCase struct {
	Text string `json:"text"`
}

func laneText(raw json.RawMessage) ([]vf.Failure, error) {
	var c textCase
	if err := json.Unmarshal(raw, &c); err != nil {
		return nil, err
	}
	fails, _, _ := checkDiffs(c.Text)
	return fails, nil
}

var lanes = map[string]vf.LaneFunc{"fuzz": laneText, "generated": laneText, "corpus": laneText, "lines": laneText}

func TestReplay(t *testing.T) {
	if !vf.RunReplayMode(t, prop, lanes) {
		t.Skip("no VERIF_REPLAY")
	}
}

func TestWitness(t *testing.T) { vf.Witnesses(t, prop, lanes) }

const callLimit = 30 * time.Second

// apply performs the edits with LSP semantics: every range is relative to the
// original document, position (L,0) is the start of line L and (len(lines),0)
// clamps to the end of the document.
func apply(text string, edits []parser.FmtDiff) string {
	lines := strings.Split(text, "\n")
	starts := make([]int, len(lines)+1)
	off := 0
	for i, l := range lines {
		starts[i] = off
		off += len(l) + 1
	}
	starts[len(lines)] = len(text)
	var sb strings.Builder
	cur := 0
	for _, e := range edits {
		from, to := starts[e.FromLine], starts[e.ToLine]
		if from > len(text) {
			from = len(text)
		}
		if to > len(text) {
			to = len(text)
		}
		sb.WriteString(text[cur:from])
		sb.WriteString(e.NewText)
		cur = to
	}
	sb.WriteString(text[cur:])
	return sb.String()
}

// trimTrailingBlank drops trailing blank lines. A line is blank when it holds
// nothing but characters the lexer skips as white space (unicode.IsSpace: form
// feed, vertical tab, NBSP, ... besides space and tab).
func trimTrailingBlank(s string) string {
	return strings.TrimRightFunc(s, unicode.IsSpace)
}

func checkDiffs(text string) (fails []vf.Failure, accepted bool, nEdits int) {
	var want string
	var err error
	if f := vf.GuardTimed("Fmt", callLimit, func() { want, err = parser.Fmt(text) }); f != nil || err != nil {
		return nil, false, 0 // not in C19's domain (C09/C11 judge it)
	}
	var edits []parser.FmtDiff
	if f := vf.GuardTimed("FmtDiffs", callLimit, func() { edits, err = parser.FmtDiffs(text) }); f != nil {
		return []vf.Failure{*f}, true, 0
	}
	if err != nil {
		return []vf.Failure{vf.Failf("diffs|error", "FmtDiffs fails on a file Fmt accepts: %v", err)}, true, 0
	}
	nLines := len(strings.Split(text, "\n"))
	wellFormed := true
	last := 0
	for i, e := range edits {
		if e.FromLine < 0 || e.FromLine > e.ToLine || e.ToLine > nLines {
			fails = append(fails, vf.Failf("edit|range", "edit %d has range [%d,%d) in a document of %d lines", i, e.FromLine, e.ToLine, nLines))
			wellFormed = false
			continue
		}
		if i > 0 && e.FromLine < last {
			fails = append(fails, vf.Failf("edit|overlap-or-order", "edit %d [%d,%d) starts before the previous edit ends (%d)", i, e.FromLine, e.ToLine, last))
			wellFormed = false
		}
		last = e.ToLine
	}
	if wellFormed {
		got := apply(text, edits)
		if trimTrailingBlank(got) != trimTrailingBlank(want) {
			fails = append(fails, vf.Failf("apply|differs", "applying %d edits does not give Fmt(x)\n--- edits ---\n%s--- applied ---\n%s\n--- Fmt ---\n%s", len(edits), showEdits(edits), got, want))
		}
	}
	return fails, true, len(edits)
}

func showEdits(edits []parser.FmtDiff) string {
	var sb strings.Builder
	for _, e := range edits {
		fmt.Fprintf(&sb, "[%d,%d) %q\n", e.FromLine, e.ToLine, e.NewText)
	}
	return sb.String()
}

func TestGenerated(t *testing.T) {
	r := vf.Start(t, prop, "generated")
	rapid.Check(t, func(t *rapid.T) {
		text, classes := bclgen.File(t)
		fails, ok, n := checkDiffs(text)
		if !ok {
			r.Discard()
			r.Class("rejected-by-formatter")
			return
		}
		cls := []string{"accepted"}
		for c := range classes {
			cls = append(cls, c)
		}
		if n > 0 {
			cls = append(cls, "has-edits")
		}
		r.Eval(n > 0, vf.Hash(text), cls...)
		if n > 1 && len(text) < 300 && r.WantSample() {
			r.Sample(textCase{text})
		}
		r.Judge(t, textCase{text}, fails)
	})
}

// TestLines builds documents line by line from a small pool of line shapes so
// that trailing comments, multi-line tokens, blank runs and several statements on
// one line meet in every order.
var linePool = []string{
	"a = 1", "a=1 // c", "b { // c", "b {", "}", "} c = 2", "", "", "  ", "\t",
	"// comment", "/* block */", "/* multi\nline */", "/* c */ d = 3", "| desc", "| more desc", "|",
	"x y z", "x y // c", "x y | inline", "s = \"a\\\nb\"", "\tt = [1, 2]", "r = /a//b/",
}

func TestLines(t *testing.T) {
	r := vf.Start(t, prop, "lines")
	rapid.Check(t, func(t *rapid.T) {
		ls := rapid.SliceOfN(rapid.SampledFrom(linePool), 0, 12).Draw(t, "lines")
		text := strings.Join(ls, "\n")
		if rapid.Bool().Draw(t, "finalnl") {
			text += "\n"
		}
		fails, ok, n := checkDiffs(text)
		if !ok {
			r.Discard()
			return
		}
		cls := []string{"accepted"}
		if n > 0 {
			cls = append(cls, "has-edits")
		}
		if strings.Contains(text, "// c") {
			cls = append(cls, "trailing-comment")
		}
		if strings.Contains(text, "multi\n") || strings.Contains(text, "\\\n") {
			cls = append(cls, "multiline-token")
		}
		if strings.Contains(text, "} c") || strings.Contains(text, "*/ d") {
			cls = append(cls, "two-statements-one-line")
		}
		r.Eval(n > 0, vf.Hash(text), cls...)
		if n > 1 && r.WantSample() {
			r.Sample(textCase{text})
		}
		r.Judge(t, textCase{text}, fails)
	})
}

func TestCorpus(t *testing.T) {
	r := vf.Start(t, prop, "corpus")
	repo := os.Getenv("VERIF_REPO")
	if repo == "" {
		repo = "/repo"
	}
	for _, g := range []string{"internal/bcl/internal/parser/testdata/*", "internal/bcl/examples/*.bcl", "j5stest/proto/j5st/v1/*.j5s", "proto/j5/j5/*/v1/*.j5s"} {
		ms, _ := filepath.Glob(filepath.Join(repo, g))
		for _, m := range ms {
			b, err := os.ReadFile(m)
			if err != nil {
				continue
			}
			text := string(b)
			fails, ok, n := checkDiffs(text)
			if !ok {
				r.Discard()
				continue
			}
			r.Eval(n > 0, vf.Hash(text), "accepted")
			// also a de-formatted variant: strip indentation, double blank lines
			r.JudgeNoFatal(textCase{text}, fails)
			messy := strings.ReplaceAll(strings.ReplaceAll(text, "\t", ""), "\n\n", "\n\n\n")
			fails, ok, n = checkDiffs(messy)
			if ok {
				r.Eval(n > 0, vf.Hash(messy), "accepted", "messy")
				r.JudgeNoFatal(textCase{messy}, fails)
			}
		}
	}
}

// FuzzDiffs: coverage-guided texts. Inputs the parser rejects are outside the
// quantifier (only accepted sources are formatted) and pass trivially.
func FuzzDiffs(f *testing.F) {
	for _, text := range corpusFiles() {
		f.Add(text)
	}
	f.Add("a = \"x\\\ny\"\n")
	f.Add("block a.b:q // c\n  | desc\n\n\n/* c */ x = [1, [2, \"s\"]] // t\n} y = /a\\/b/\n")
	known := vf.KnownOpen(prop)
	f.Fuzz(func(t *testing.T, text string) {
		if len(text) > 1<<13 {
			return
		}
		fails, _, _ := checkDiffs(text)
		for _, fl := range fails {
			if !known[fl.Key] {
				t.Fatalf("c19 fuzz: [%s] %s", fl.Key, fl.Detail)
			}
		}
	})
}

// TestFuzzInput pushes crashers found by FuzzDiffs through the normal verdict path.
func TestFuzzInput(t *testing.T) {
	r := vf.Start(t, prop, "fuzz")
	for _, p := range vf.FuzzInputs() {
		vals, err := vf.ReadFuzzInput(p)
		if err != nil || len(vals) != 1 {
			r.Note("unreadable fuzz input %s: %v", p, err)
			continue
		}
		text := vals[0].(string)
		c := textCase{text}
		r.Eval(true, vf.Hash(text), "fuzz-crasher")
		r.Journal(c)
		fails, _, _ := checkDiffs(text)
		r.JudgeNoFatal(c, fails)
	}
}

func corpusFiles() map[string]string {
	out := map[string]string{}
	repo := os.Getenv("VERIF_REPO")
	if repo == "" {
		repo = "/repo"
	}
	for _, g := range []string{"internal/bcl/internal/parser/testdata/*", "internal/bcl/examples/*.bcl", "j5stest/proto/j5st/v1/*.j5s", "proto/j5/j5/*/v1/*.j5s"} {
		ms, _ := filepath.Glob(filepath.Join(repo, g))
		for _, m := range ms {
			if b, err := os.ReadFile(m); err == nil && len(b) < 1<<20 {
				out[m] = string(b)
			}
		}
	}
	return out
}
