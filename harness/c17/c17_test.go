package c17

import (
	"encoding/json"
	"fmt"
	"strings"
	"testing"
	"time"

	"buf.build/gen/go/bufbuild/protovalidate/protocolbuffers/go/buf/validate"
	"github.com/bufbuild/protocompile/linker"
	"github.com/pentops/j5/gen/j5/client/v1/client_j5pb"
	"github.com/pentops/j5/gen/j5/ext/v1/ext_j5pb"
	"github.com/pentops/j5/gen/j5/messaging/v1/messaging_j5pb"
	"github.com/pentops/j5/gen/j5/source/v1/source_j5pb"
	"github.com/pentops/j5/internal/bcl/internal/verif/j5sgen"
	"github.com/pentops/j5/internal/bcl/internal/verif/j5sx"
	"github.com/pentops/j5/internal/bcl/internal/verif/vf"
	"github.com/pentops/j5/internal/j5client"
	"github.com/pentops/j5/internal/structure"
	"google.golang.org/genproto/googleapis/api/annotations"
	"google.golang.org/protobuf/proto"
	"google.golang.org/protobuf/reflect/protoreflect"
	"pgregory.net/rapid"
)

const prop = "C17"

func laneCase(raw json.RawMessage) ([]vf.Failure, error) {
	var b j5sgen.Bundle
	if err := json.Unmarshal(raw, &b); err != nil {
		return nil, err
	}
	return check(&b), nil
}

var lanes = map[string]vf.LaneFunc{"entity": laneCase, "casing": laneCasing}

func TestReplay(t *testing.T) {
	if !vf.RunReplayMode(t, prop, lanes) {
		t.Skip("no VERIF_REPLAY")
	}
}

func TestWitness(t *testing.T) { vf.Witnesses(t, prop, lanes) }

const callLimit = 60 * time.Second

func upperFirst(s string) string { return strings.ToUpper(s[:1]) + s[1:] }
func lowerFirst(s string) string { return strings.ToLower(s[:1]) + s[1:] }

func snake(s string) string {
	var sb strings.Builder
	for i, r := range s {
		if r >= 'A' && r <= 'Z' {
			if i > 0 {
				sb.WriteByte('_')
			}
			sb.WriteRune(r - 'A' + 'a')
		} else {
			sb.WriteRune(r)
		}
	}
	return sb.String()
}

type index struct {
	msgs  map[string]protoreflect.MessageDescriptor
	enums map[string]protoreflect.EnumDescriptor
	svcs  map[string]protoreflect.ServiceDescriptor
}

func indexFiles(files linker.Files) *index {
	ix := &index{msgs: map[string]protoreflect.MessageDescriptor{}, enums: map[string]protoreflect.EnumDescriptor{}, svcs: map[string]protoreflect.ServiceDescriptor{}}
	var walk func(mds protoreflect.MessageDescriptors)
	walk = func(mds protoreflect.MessageDescriptors) {
		for i := 0; i < mds.Len(); i++ {
			md := mds.Get(i)
			ix.msgs[string(md.FullName())] = md
			walk(md.Messages())
			for k := 0; k < md.Enums().Len(); k++ {
				ix.enums[string(md.Enums().Get(k).FullName())] = md.Enums().Get(k)
			}
		}
	}
	for _, f := range files {
		walk(f.Messages())
		for i := 0; i < f.Enums().Len(); i++ {
			ix.enums[string(f.Enums().Get(i).FullName())] = f.Enums().Get(i)
		}
		for i := 0; i < f.Services().Len(); i++ {
			ix.svcs[string(f.Services().Get(i).FullName())] = f.Services().Get(i)
		}
	}
	return ix
}

func psmOf(md protoreflect.MessageDescriptor) *ext_j5pb.PSMOptions {
	if md.Options() == nil {
		return nil
	}
	p, _ := proto.GetExtension(md.Options(), ext_j5pb.E_Psm).(*ext_j5pb.PSMOptions)
	return p
}

func required(f protoreflect.FieldDescriptor) bool {
	if f.Options() == nil {
		return false
	}
	fc, _ := proto.GetExtension(f.Options(), validate.E_Field).(*validate.FieldConstraints)
	return fc != nil && fc.GetRequired()
}

func flatten(f protoreflect.FieldDescriptor) bool {
	if f.Options() == nil {
		return false
	}
	fo, _ := proto.GetExtension(f.Options(), ext_j5pb.E_Field).(*ext_j5pb.FieldOptions)
	return fo.GetObject().GetFlatten() || fo.GetMessage().GetFlatten()
}

func httpOf(m protoreflect.MethodDescriptor) (verb, path string) {
	if m.Options() == nil {
		return "", ""
	}
	hr, _ := proto.GetExtension(m.Options(), annotations.E_Http).(*annotations.HttpRule)
	switch pt := hr.GetPattern().(type) {
	case *annotations.HttpRule_Get:
		return "GET", pt.Get
	case *annotations.HttpRule_Post:
		return "POST", pt.Post
	case *annotations.HttpRule_Put:
		return "PUT", pt.Put
	case *annotations.HttpRule_Patch:
		return "PATCH", pt.Patch
	case *annotations.HttpRule_Delete:
		return "DELETE", pt.Delete
	}
	return "", ""
}

func pathParams(p string) []string {
	var out []string
	for _, seg := range strings.Split(p, "/") {
		if strings.HasPrefix(seg, "{") && strings.HasSuffix(seg, "}") {
			out = append(out, seg[1:len(seg)-1])
		}
	}
	return out
}

type failer struct {
	fails []vf.Failure
	seen  map[string]bool
}

func (fl *failer) add(key, format string, a ...any) {
	if fl.seen == nil {
		fl.seen = map[string]bool{}
	}
	if !fl.seen[key] {
		fl.seen[key] = true
		fl.fails = append(fl.fails, vf.Failf(key, format, a...))
	}
}

func checkEntity(fl *failer, ix *index, pkg string, e *j5sgen.Entity, peers []string, odd bool) {
	// C names the schemas, S the query service and its methods. For the generator's
	// own vocabulary both are the entity name; for names in any other casing (the
	// casing lane: one entity per package) they are read off the components that
	// carry the entity annotations, and must still spell the entity name.
	C := upperFirst(e.Name)
	S := C
	if odd {
		C, S = "", ""
		for name, md := range ix.msgs {
			if p := psmOf(md); p != nil && p.GetEntityPart().String() == "ENTITY_PART_KEYS" && strings.HasPrefix(name, pkg+".") && strings.HasSuffix(name, "Keys") {
				C = strings.TrimSuffix(strings.TrimPrefix(name, pkg+"."), "Keys")
			}
		}
		for name, sd := range ix.svcs {
			so, _ := proto.GetExtension(sd.Options(), ext_j5pb.E_Service).(*ext_j5pb.ServiceOptions)
			if so.GetStateQuery() != nil && strings.HasSuffix(name, "QueryService") {
				S = strings.TrimSuffix(strings.TrimPrefix(name, pkg+".service."), "QueryService")
			}
		}
		if C == "" {
			fl.add("component-missing|Keys", "%s: no message annotated as the entity's keys is generated", e.Name)
			return
		}
		if S == "" {
			fl.add("query|service-missing", "%s: no service annotated as the entity's query service is generated", e.Name)
			S = C
		}
		for _, stem := range []string{C, S} {
			if !strings.EqualFold(letters(stem), letters(e.Name)) {
				fl.add("naming|not-from-entity-name", "%s: generated components are named %q", e.Name, stem)
			}
		}
	}
	msg := func(suffix string) protoreflect.MessageDescriptor { return ix.msgs[pkg+"."+C+suffix] }
	entityNames := map[string]bool{}
	// --- components exist
	for _, part := range []string{"Keys", "Data", "State", "EventType", "Event"} {
		if msg(part) == nil {
			fl.add("component-missing|"+part, "%s: message %s%s is not generated", e.Name, C, part)
		}
	}
	statusEnum := ix.enums[pkg+"."+C+"Status"]
	if statusEnum == nil {
		fl.add("component-missing|Status", "%s: enum %sStatus is not generated", e.Name, C)
	}
	// --- psm annotation on Keys/Data/State/Event, identical entity name
	for part, want := range map[string]string{"Keys": "ENTITY_PART_KEYS", "Data": "ENTITY_PART_DATA", "State": "ENTITY_PART_STATE", "Event": "ENTITY_PART_EVENT"} {
		md := msg(part)
		if md == nil {
			continue
		}
		p := psmOf(md)
		if p == nil {
			fl.add("annotation-missing|"+part, "%s%s carries no (j5.ext.v1.psm) annotation", C, part)
			continue
		}
		entityNames[p.EntityName] = true
		if p.GetEntityPart().String() != want {
			fl.add("annotation-part|"+part, "%s%s: entity part %s, want %s", C, part, p.GetEntityPart(), want)
		}
	}
	// --- Keys: declared keys in order, primary keys required
	if md := msg("Keys"); md != nil {
		if md.Fields().Len() != len(e.Keys) {
			fl.add("keys|count", "%sKeys has %d fields, %d keys declared", C, md.Fields().Len(), len(e.Keys))
		} else {
			for i, k := range e.Keys {
				f := md.Fields().Get(i)
				if f.JSONName() != k.Name || int(f.Number()) != i+1 {
					fl.add("keys|order", "%sKeys field %d is %s #%d, declared %s", C, i, f.JSONName(), f.Number(), k.Name)
				}
				if k.Primary && !required(f) {
					fl.add("keys|primary-not-required", "%sKeys.%s is a primary key but not required", C, k.Name)
				}
			}
		}
	}
	// schemas declared inside the entity block are ordinary schemas of the package
	for _, n := range e.Nested {
		switch {
		case n.Object != nil && ix.msgs[pkg+"."+n.Object.Name] == nil:
			fl.add("nested|missing|object", "%s: object %s declared inside the entity is not generated", e.Name, n.Object.Name)
		case n.Oneof != nil && ix.msgs[pkg+"."+n.Oneof.Name] == nil:
			fl.add("nested|missing|oneof", "%s: oneof %s declared inside the entity is not generated", e.Name, n.Oneof.Name)
		case n.Enum != nil && ix.enums[pkg+"."+n.Enum.Name] == nil:
			fl.add("nested|missing|enum", "%s: enum %s declared inside the entity is not generated", e.Name, n.Enum.Name)
		}
	}
	if md := msg("Data"); md != nil {
		// data fields keep their declared types (refs to nested schemas resolve)
		for i, d := range e.Data {
			if i >= md.Fields().Len() || d.Type.Ref == nil {
				continue
			}
			f := md.Fields().Get(i)
			got := ""
			switch {
			case f.Message() != nil:
				got = string(f.Message().FullName())
			case f.Enum() != nil:
				got = string(f.Enum().FullName())
			}
			if want := d.Type.Ref.Package + "." + d.Type.Ref.Name; got != want && d.Type.Ref.Package == pkg {
				fl.add("data|ref-type", "%sData.%s has type %q, declared %s", C, d.Name, got, want)
			}
		}
	}
	if md := msg("Data"); md != nil && md.Fields().Len() != len(e.Data) {
		fl.add("data|count", "%sData has %d fields, %d declared", C, md.Fields().Len(), len(e.Data))
	}
	// --- Status numbering and prefix
	if statusEnum != nil {
		vals := statusEnum.Values()
		if vals.Len() != len(e.Statuses)+1 {
			fl.add("status|count", "%sStatus has %d values, %d statuses declared (+UNSPECIFIED)", C, vals.Len(), len(e.Statuses))
		} else {
			if !strings.HasSuffix(string(vals.Get(0).Name()), "_UNSPECIFIED") || vals.Get(0).Number() != 0 {
				fl.add("status|unspecified", "%sStatus first value is %s=%d", C, vals.Get(0).Name(), vals.Get(0).Number())
			}
			prefix := strings.TrimSuffix(string(vals.Get(0).Name()), "UNSPECIFIED")
			if !odd && prefix != strings.ToUpper(snake(e.Name))+"_STATUS_" {
				fl.add("status|prefix", "%sStatus prefix %q, want %q", C, prefix, strings.ToUpper(snake(e.Name))+"_STATUS_")
			}
			for i, s := range e.Statuses {
				v := vals.Get(i + 1)
				if string(v.Name()) != prefix+s.Name || int(v.Number()) != i+1 {
					fl.add("status|numbering", "%sStatus value %d is %s=%d, want %s%s=%d", C, i+1, v.Name(), v.Number(), prefix, s.Name, i+1)
				}
			}
		}
	}
	// --- State and Event shape
	shape := func(part string, want [][3]string) {
		md := msg(part)
		if md == nil {
			return
		}
		if md.Fields().Len() != len(want) {
			fl.add("shape|"+part+"|field-count", "%s%s has %d fields, want %d", C, part, md.Fields().Len(), len(want))
			return
		}
		for i, w := range want {
			f := md.Fields().Get(i)
			ty := ""
			switch f.Kind() {
			case protoreflect.MessageKind:
				ty = string(f.Message().FullName())
			case protoreflect.EnumKind:
				ty = string(f.Enum().FullName())
			}
			if string(f.Name()) != w[0] || ty != w[1] {
				fl.add("shape|"+part+"|"+w[0], "%s%s field %d is %s %s, want %s %s", C, part, i+1, f.Name(), ty, w[0], w[1])
			}
			if !required(f) {
				fl.add("shape|"+part+"|"+w[0]+"-not-required", "%s%s.%s is not required", C, part, w[0])
			}
			if (w[2] == "flatten") != flatten(f) {
				fl.add("shape|"+part+"|"+w[0]+"-flatten", "%s%s.%s flatten=%v", C, part, w[0], flatten(f))
			}
		}
	}
	shape("State", [][3]string{{"metadata", "j5.state.v1.StateMetadata", ""}, {"keys", pkg + "." + C + "Keys", "flatten"}, {"data", pkg + "." + C + "Data", ""}, {"status", pkg + "." + C + "Status", ""}})
	shape("Event", [][3]string{{"metadata", "j5.state.v1.EventMetadata", ""}, {"keys", pkg + "." + C + "Keys", "flatten"}, {"event", pkg + "." + C + "EventType", ""}})
	// --- event oneof: exactly one option per event -> nested message of that name
	if md := msg("EventType"); md != nil {
		if md.Fields().Len() != len(e.Events) {
			fl.add("events|count", "%sEventType has %d options, %d events declared", C, md.Fields().Len(), len(e.Events))
		} else {
			for i, ev := range e.Events {
				f := md.Fields().Get(i)
				wantType := pkg + "." + C + "EventType." + ev.Name
				if f.Kind() != protoreflect.MessageKind || string(f.Message().FullName()) != wantType {
					fl.add("events|option-type", "%sEventType option %d (%s) has type %v, want %s", C, i+1, f.Name(), f.Message(), wantType)
				} else if f.Message().Fields().Len() != len(ev.Fields) {
					fl.add("events|event-fields", "%s has %d fields, %d declared", wantType, f.Message().Fields().Len(), len(ev.Fields))
				}
				if f.JSONName() != lowerFirst(ev.Name) {
					fl.add("events|option-name", "%sEventType option for event %s is named %s", C, ev.Name, f.JSONName())
				}
				if f.ContainingOneof() == nil || f.ContainingOneof().IsSynthetic() {
					fl.add("events|not-in-oneof", "%sEventType.%s is not a oneof member", C, f.Name())
				}
			}
		}
	}
	// --- query service
	var primary []string
	for _, k := range e.Keys {
		if k.Primary || k.Shard {
			primary = append(primary, snake(k.Name))
		}
	}
	var onlyPrimary []string
	for _, k := range e.Keys {
		if k.Primary {
			onlyPrimary = append(onlyPrimary, snake(k.Name))
		}
	}
	qs := ix.svcs[pkg+".service."+S+"QueryService"]
	if qs == nil {
		fl.add("query|service-missing", "%sQueryService is not generated", S)
	} else {
		if so, _ := proto.GetExtension(qs.Options(), ext_j5pb.E_Service).(*ext_j5pb.ServiceOptions); so.GetStateQuery() == nil {
			fl.add("query|annotation", "%sQueryService carries no state_query annotation", C)
		} else {
			entityNames[so.GetStateQuery().Entity] = true
		}
		for _, mn := range []string{"Get", "List", "Events"} {
			m := qs.Methods().ByName(protoreflect.Name(S + mn))
			if m == nil {
				fl.add("query|method-missing|"+mn, "%sQueryService has no %s%s method", S, S, mn)
				continue
			}
			verb, p := httpOf(m)
			if verb != "GET" {
				fl.add("query|verb|"+mn, "%s%s is %s", C, mn, verb)
			}
			if mn != "List" {
				got := pathParams(p)
				if !odd && strings.Join(got, ",") != strings.Join(primary, ",") {
					fl.add("query|path-parameters|"+mn, "%s%s path %q has parameters %v, primary keys in declaration order are %v", C, mn, p, got, primary)
				}
				// every path parameter is a required-or-present request field
				for _, pp := range got {
					if m.Input().Fields().ByName(protoreflect.Name(pp)) == nil {
						fl.add("query|path-parameter-not-in-request|"+mn, "%s%s path parameter %s is not a request field", C, mn, pp)
					}
				}
				for _, pk := range onlyPrimary {
					if f := m.Input().Fields().ByName(protoreflect.Name(pk)); f != nil && !required(f) && !odd {
						fl.add("query|primary-key-not-required|"+mn, "%s%sRequest.%s is a primary key but not required", C, mn, pk)
					}
				}
			}
			if mn == "Events" && !strings.HasSuffix(p, "/events") {
				fl.add("query|events-path", "%sEvents path %q does not end in /events", C, p)
			}
		}
	}
	// --- command services: attributed by their state_command annotation
	self := ""
	if md := msg("Keys"); md != nil && psmOf(md) != nil {
		self = psmOf(md).EntityName
	}
	nCmd := 0
	for name, sd := range ix.svcs {
		if !strings.HasPrefix(name, pkg+".service.") {
			continue
		}
		so, _ := proto.GetExtension(sd.Options(), ext_j5pb.E_Service).(*ext_j5pb.ServiceOptions)
		if so.GetStateCommand() != nil && so.GetStateCommand().Entity == self {
			nCmd++
		}
	}
	if nCmd != len(e.Commands) {
		fl.add("commands|count", "%s: %d command services annotated for the entity, %d declared", e.Name, nCmd, len(e.Commands))
	}
	for i, c := range e.Commands {
		if odd {
			break // counted above; the spelling of derived service names is not pinned
		}
		name := C + "Command"
		if c.Name != "" {
			name = upperFirst(c.Name) + "Command"
		}
		sd := ix.svcs[pkg+".service."+name+"Service"]
		if sd == nil {
			fl.add("commands|service-missing", "%s: command service %sService (command %d) is not generated", e.Name, name, i)
			continue
		}
		so, _ := proto.GetExtension(sd.Options(), ext_j5pb.E_Service).(*ext_j5pb.ServiceOptions)
		if so.GetStateCommand() == nil {
			fl.add("commands|annotation", "%sService carries no state_command annotation", name)
		} else {
			entityNames[so.GetStateCommand().Entity] = true
		}
		if sd.Methods().Len() != len(c.Methods) {
			fl.add("commands|methods", "%sService has %d methods, %d declared", name, sd.Methods().Len(), len(c.Methods))
		}
	}
	// --- topics: a publish (event) topic and one upsert topic per summary, named
	// from the entity name. That there are no others is checked per package
	// (checkTopicSet), by exact names: prefixes are ambiguous between entities
	// such as Order and OrderOrder.
	if odd {
		// by role instead of by name: one event-role topic carrying the event
		// message, one upsert-role topic per summary
		nEvent, nUpsert := 0, 0
		for name, sd := range ix.svcs {
			if !strings.HasPrefix(name, pkg+".topic.") {
				continue
			}
			sc, _ := proto.GetExtension(sd.Options(), messaging_j5pb.E_Service).(*messaging_j5pb.ServiceConfig)
			switch sc.GetRole().(type) {
			case *messaging_j5pb.ServiceConfig_Event_:
				nEvent++
				if sd.Methods().Len() != 1 || string(sd.Methods().Get(0).Input().Name()) != C+"EventMessage" {
					fl.add("topics|publish-message", "%s does not carry exactly the %sEventMessage", name, C)
				}
			case *messaging_j5pb.ServiceConfig_Upsert_:
				nUpsert++
			}
			if !strings.Contains(strings.ToLower(letters(string(sd.Name()))), strings.ToLower(letters(e.Name))) {
				fl.add("naming|not-from-entity-name", "%s: topic %s", e.Name, sd.Name())
			}
		}
		if nEvent != 1 {
			fl.add("topics|publish-missing", "%s: %d event-role topics generated, want 1", e.Name, nEvent)
		}
		if nUpsert != len(e.Summaries) {
			fl.add("topics|upsert-missing", "%s: %d upsert-role topics generated, %d summaries declared", e.Name, nUpsert, len(e.Summaries))
		}
	} else if pt := ix.svcs[pkg+".topic."+C+"PublishTopic"]; pt == nil {
		fl.add("topics|publish-missing", "%sPublishTopic is not generated", C)
	} else if pt.Methods().Len() != 1 || string(pt.Methods().Get(0).Input().Name()) != C+"EventMessage" {
		fl.add("topics|publish-message", "%sPublishTopic does not carry exactly the %sEventMessage", C, C)
	}
	for i, sm := range e.Summaries {
		if odd {
			break
		}
		name := C + "Summary"
		if sm.Name != "" {
			name = C + upperFirst(sm.Name)
		}
		st := ix.svcs[pkg+".topic."+name+"Topic"]
		if st == nil {
			fl.add("topics|upsert-missing", "%s: upsert topic %sTopic (summary %d) is not generated", e.Name, name, i)
			continue
		}
		sc, _ := proto.GetExtension(st.Options(), messaging_j5pb.E_Service).(*messaging_j5pb.ServiceConfig)
		if _, ok := sc.GetRole().(*messaging_j5pb.ServiceConfig_Upsert_); !ok {
			fl.add("topics|upsert-role", "%sTopic role is %T", name, sc.GetRole())
		}
		if st.Methods().Len() == 1 {
			// upsert message = upsert metadata + the declared fields
			if n := st.Methods().Get(0).Input().Fields().Len(); n != len(sm.Fields)+1 {
				fl.add("topics|upsert-fields", "%sTopic message has %d fields, %d declared (+upsert metadata)", name, n, len(sm.Fields))
			}
		} else {
			fl.add("topics|upsert-methods", "%sTopic has %d methods", name, st.Methods().Len())
		}
	}
	if len(entityNames) > 1 {
		fl.add("annotation|inconsistent-entity-name", "%s: parts disagree on the entity name: %v", e.Name, entityNames)
	}
	if !odd && len(entityNames) == 1 && !entityNames[snake(e.Name)] {
		fl.add("annotation|entity-name", "%s: entity annotation %v, want %q", e.Name, entityNames, snake(e.Name))
	}
}

// checkTopicSet: the event- and upsert-role topic services of a package are exactly
// those the entities (publish + one per summary) and the explicit topic
// declarations call for.
func checkTopicSet(fl *failer, ix *index, p *j5sgen.Package) {
	want := map[string]string{}
	for _, f := range p.Files {
		for _, d := range f.Decls {
			switch {
			case d.Entity != nil:
				C := upperFirst(d.Entity.Name)
				want[C+"PublishTopic"] = "event"
				for _, sm := range d.Entity.Summaries {
					name := C + "Summary"
					if sm.Name != "" {
						name = C + upperFirst(sm.Name)
					}
					want[name+"Topic"] = "upsert"
				}
			case d.Topic != nil && d.Topic.Kind == "upsert":
				want[upperFirst(d.Topic.Name)+"Topic"] = "upsert"
			case d.Topic != nil && d.Topic.Kind == "event":
				want[upperFirst(d.Topic.Name)+"Topic"] = "event"
			}
		}
	}
	for name, sd := range ix.svcs {
		if !strings.HasPrefix(name, p.Name+".topic.") {
			continue
		}
		sc, _ := proto.GetExtension(sd.Options(), messaging_j5pb.E_Service).(*messaging_j5pb.ServiceConfig)
		role := ""
		switch sc.GetRole().(type) {
		case *messaging_j5pb.ServiceConfig_Event_:
			role = "event"
		case *messaging_j5pb.ServiceConfig_Upsert_:
			role = "upsert"
		default:
			continue
		}
		if want[string(sd.Name())] != role {
			fl.add("topics|unexpected|"+role, "%s: %s-role topic %s is generated but no entity (publish topic, summaries) or topic declaration calls for it", p.Name, role, sd.Name())
		}
	}
}

// letters keeps the letters and digits of a name.
func letters(s string) string {
	var sb strings.Builder
	for _, r := range s {
		if (r >= 'a' && r <= 'z') || (r >= 'A' && r <= 'Z') || (r >= '0' && r <= '9') {
			sb.WriteRune(r)
		}
	}
	return sb.String()
}

func check(b *j5sgen.Bundle) []vf.Failure { return checkOpts(b, false) }

func checkOpts(b *j5sgen.Bundle, odd bool) []vf.Failure {
	fl := &failer{}
	src := &j5sx.Bundle{Files: b.Render()}
	texts := map[string]string{}
	for _, p := range b.Packages {
		var files linker.Files
		var err error
		if f := vf.GuardTimed("CompilePackage", callLimit, func() { files, err = j5sx.Compile(src, p.Name) }); f != nil {
			return []vf.Failure{*f}
		}
		if err != nil {
			return []vf.Failure{vf.Failf("compile|error", "package %s does not compile (C07's verdict): %v", p.Name, err)}
		}
		ix := indexFiles(files)
		for _, f := range files {
			if tx, perr := j5sx.Print(f); perr == nil {
				texts[f.Path()] = tx
			}
		}
		var peers []string
		for _, f := range p.Files {
			for _, d := range f.Decls {
				if d.Entity != nil {
					peers = append(peers, d.Entity.Name)
				}
				if d.Topic != nil {
					peers = append(peers, "topic:"+d.Topic.Name)
				}
			}
		}
		for _, f := range p.Files {
			for _, d := range f.Decls {
				if d.Entity != nil {
					checkEntity(fl, ix, p.Name, d.Entity, peers, odd)
				}
			}
		}
		if !odd {
			checkTopicSet(fl, ix, p)
		}
	}
	// client cross-check: each entity is grouped into a StateEntity
	var capi *client_j5pb.API
	var err error
	if f := vf.GuardTimed("client-api", callLimit, func() {
		var img *source_j5pb.SourceImage
		img, _, err = j5sx.ReadImage(texts)
		if err != nil {
			return
		}
		for _, p := range b.Packages {
			img.Packages = append(img.Packages, &source_j5pb.PackageInfo{Name: p.Name})
		}
		var api *source_j5pb.API
		api, err = structure.APIFromImage(img)
		if err != nil {
			return
		}
		capi, err = j5client.APIFromSource(api)
	}); f != nil {
		fl.fails = append(fl.fails, *f)
		return fl.fails
	}
	if err != nil {
		fl.add("client|error|"+vf.ErrClass(err), "client API cannot be derived (C16's verdict): %v", err)
		return fl.fails
	}
	for _, p := range b.Packages {
		var cp *client_j5pb.Package
		for _, x := range capi.Packages {
			if x.Name == p.Name {
				cp = x
			}
		}
		for _, f := range p.Files {
			for _, d := range f.Decls {
				e := d.Entity
				if e == nil {
					continue
				}
				var se *client_j5pb.StateEntity
				if cp != nil {
					for _, x := range cp.StateEntities {
						if strings.EqualFold(letters(x.Name), letters(e.Name)) {
							se = x
						}
					}
				}
				if se == nil {
					fl.add("client|state-entity-missing", "%s: entity %s is not a StateEntity of the client API", p.Name, e.Name)
					continue
				}
				var wantPK []string
				for _, k := range e.Keys {
					if k.Primary {
						wantPK = append(wantPK, k.Name)
					}
				}
				if strings.Join(se.PrimaryKey, ",") != strings.Join(wantPK, ",") {
					fl.add("client|primary-key", "%s: client primary key %v, declared %v", e.Name, se.PrimaryKey, wantPK)
				}
				if se.QueryService == nil || len(se.QueryService.Methods) != 3 {
					fl.add("client|query-service", "%s: client query service has %d methods", e.Name, len(se.GetQueryService().GetMethods()))
				}
				if len(se.CommandServices) != len(e.Commands) {
					fl.add("client|command-services", "%s: %d command services in client API, %d declared", e.Name, len(se.CommandServices), len(e.Commands))
				}
				if len(se.Events) != len(e.Events) {
					fl.add("client|events", "%s: %d events in client API, %d declared", e.Name, len(se.Events), len(e.Events))
				}
			}
		}
	}
	return fl.fails
}

// oddEntityNames: "any entity name casing".
var oddEntityNames = []string{"PlanB", "FOO", "HTTPServer", "Plan2", "planItem", "plan_item", "Plan_Item", "x", "ID", "userID", "aB", "Ab", "fooBAR", "Foo2Bar", "A1", "item"}

type casingCase struct {
	Bundle *j5sgen.Bundle `json:"bundle"`
}

func laneCasing(raw json.RawMessage) ([]vf.Failure, error) {
	var c casingCase
	if err := json.Unmarshal(raw, &c); err != nil {
		return nil, err
	}
	return checkOpts(c.Bundle, true), nil
}

// TestCasing: one entity per package, named in a casing outside the vocabulary the
// expected names of TestEntity are exact for. Components are found by their entity
// annotations and roles; their names must still spell the entity name.
func TestCasing(t *testing.T) {
	r := vf.Start(t, prop, "casing")
	rapid.Check(t, func(t *rapid.T) {
		o := j5sgen.DefaultOpts()
		o.Entities, o.EntityOnly = true, true
		o.Services, o.Topics = false, false // roles are attributed to the one entity
		o.MaxPackages, o.MaxFiles = 1, 1
		b, _ := j5sgen.Draw(t, o)
		name := rapid.SampledFrom(oddEntityNames).Draw(t, "entityname")
		if rapid.IntRange(0, 3).Draw(t, "recase") == 0 {
			// any casing of a generated word
			w := []rune(rapid.SampledFrom([]string{"order", "planitem", "ledgerentry"}).Draw(t, "word"))
			for i := range w {
				if rapid.Bool().Draw(t, "upper") {
					w[i] = w[i] - 'a' + 'A'
				}
			}
			name = string(w)
		}
		var ent *j5sgen.Entity
		for _, d := range b.Packages[0].Files[0].Decls {
			if d.Entity != nil {
				ent = d.Entity
			}
		}
		if ent == nil {
			r.Discard()
			return
		}
		ent.Name = name
		shape := "other"
		switch {
		case strings.ToUpper(name) == name && len(name) > 1:
			shape = "all-caps"
		case strings.ToLower(name) == name:
			shape = "all-lower"
		case strings.Contains(name, "_"):
			shape = "underscore"
		case name[len(name)-1] >= 'A' && name[len(name)-1] <= 'Z':
			shape = "ends-in-capital"
		case name[0] >= 'a' && name[0] <= 'z':
			shape = "lower-camel"
		}
		r.Eval(true, vf.Hash(b.Render()), "casing:"+shape, fmt.Sprintf("summaries:%d", len(ent.Summaries)), fmt.Sprintf("commands:%d", len(ent.Commands)))
		if r.WantSample() {
			r.Sample(map[string]any{"entity": name})
		}
		c := casingCase{Bundle: b}
		r.Journal(c)
		r.Judge(t, c, checkOpts(b, true))
	})
}

func TestEntity(t *testing.T) {
	r := vf.Start(t, prop, "entity")
	rapid.Check(t, func(t *rapid.T) {
		o := j5sgen.DefaultOpts()
		o.Entities = true
		o.EntityOnly = true
		o.MaxPackages, o.MaxFiles = 1, 2
		b, classes := j5sgen.Draw(t, o)
		nEnt, nt := 0, false
		cls := []string{}
		for _, p := range b.Packages {
			for _, f := range p.Files {
				for _, d := range f.Decls {
					if e := d.Entity; e != nil {
						nEnt++
						flags := map[string]bool{}
						for _, k := range e.Keys {
							flags[fmt.Sprintf("%v%v%v%v", k.Primary, k.Foreign != "", k.Tenant != "", k.Shard)] = true
						}
						if (len(e.Keys) >= 2 && len(flags) >= 2) || (len(e.Events) >= 1 && len(e.Summaries) >= 1) {
							nt = true
						}
						cls = append(cls, fmt.Sprintf("keys:%d", len(e.Keys)), fmt.Sprintf("events:%d", min(len(e.Events), 3)), fmt.Sprintf("summaries:%d", len(e.Summaries)), fmt.Sprintf("commands:%d", len(e.Commands)))
						for _, k := range e.Keys {
							if k.Shard {
								cls = append(cls, "shard-key")
							}
							if k.Foreign != "" {
								cls = append(cls, "foreign-key")
							}
							if k.Tenant != "" {
								cls = append(cls, "tenant-key")
							}
						}
					}
				}
			}
		}
		if nEnt == 0 {
			r.Discard()
			return
		}
		for k := range classes {
			cls = append(cls, k)
		}
		r.Eval(nt, vf.Hash(b.Render()), cls...)
		if nt && len(b.Render()) == 1 && r.WantSample() {
			r.Sample(map[string]any{"files": b.Render()})
		}
		r.Journal(b)
		r.Judge(t, b, check(b))
	})
}
