package c16

import (
	"encoding/json"
	"fmt"
	"strings"
	"testing"

	"github.com/pentops/j5/gen/j5/client/v1/client_j5pb"
	"github.com/pentops/j5/internal/bcl/internal/verif/j5sx"
	"github.com/pentops/j5/internal/bcl/internal/verif/vf"
	"pgregory.net/rapid"
)

// lane: hand-declared list methods ("list methods with filterable / sortable /
// searchable fields"). G1 only reaches list methods through entities; here the
// method itself declares the j5.list.v1 page and query members, over an item type
// whose fields carry every list rule the field kinds admit, nested one level.

type listCase struct {
	Text string `json:"text"`
	// what the client API must show
	Methods    int      `json:"methods"`
	ListMethod []string `json:"list_methods"` // methods that must carry a list request
	Raw        []string `json:"raw_query_methods"`
}

func init() { lanes["listmethods"] = laneList }

func laneList(raw json.RawMessage) ([]vf.Failure, error) {
	var c listCase
	if err := json.Unmarshal(raw, &c); err != nil {
		return nil, err
	}
	return checkList(c), nil
}

func checkList(c listCase) []vf.Failure {
	const file = "lm/items/v1/main.j5s"
	fails, capi := runStages(&j5sx.Bundle{Files: map[string]string{file: c.Text}}, []string{"lm.items.v1"})
	if len(c.Raw) > 0 {
		// a query member on a method without a response object has nothing to list:
		// an error from the client stage is a sound answer, a crash is not
		var kept []vf.Failure
		for _, f := range fails {
			if !strings.HasPrefix(f.Key, "stage:APIFromSource|error|") {
				kept = append(kept, f)
			}
		}
		return dedupe(kept)
	}
	if capi == nil {
		return dedupe(fails)
	}
	found := map[string]*client_j5pb.Method{}
	n := 0
	for _, p := range capi.Packages {
		for _, s := range p.Services {
			for _, m := range s.Methods {
				n++
				found[m.Name] = m
			}
		}
	}
	if n != c.Methods {
		fails = append(fails, vf.Failf("content|method-count", "%d methods declared, %d in the client API", c.Methods, n))
	}
	for _, name := range c.ListMethod {
		m := found[name]
		if m == nil {
			fails = append(fails, vf.Failf("content|method-missing", "list method %s is not in the client API", name))
			continue
		}
		if m.Request == nil || m.Request.List == nil {
			fails = append(fails, vf.Failf("content|list-request-missing", "method %s declares page and query members but the client API has no list request for it", name))
		}
	}
	return dedupe(fails)
}

var listRuleLines = map[string][]string{
	"string":        {"listRules.searching.searchable = true"},
	"integer:INT32": {"listRules.filtering.filterable = true", "listRules.sorting.sortable = true", "listRules.sorting.defaultSort = true"},
	"integer:INT64": {"listRules.filtering.filterable = true", "listRules.sorting.sortable = true"},
	"bool":          {"listRules.filtering.filterable = true"},
	"date":          {"listRules.filtering.filterable = true"},
	"timestamp":     {"listRules.filtering.filterable = true", "listRules.sorting.sortable = true"},
	"decimal":       {"listRules.filtering.filterable = true", "listRules.sorting.sortable = true"},
	"key:id62":      {"listRules.filtering.filterable = true"},
	"float:FLOAT64": {"listRules.filtering.filterable = true", "listRules.sorting.sortable = true"},
}

func TestListMethods(t *testing.T) {
	r := vf.Start(t, prop, "listmethods")
	kinds := []string{"string", "integer:INT32", "integer:INT64", "bool", "date", "timestamp", "decimal", "key:id62", "float:FLOAT64"}
	rapid.Check(t, func(t *rapid.T) {
		var sb strings.Builder
		cls := map[string]bool{}
		sb.WriteString("package lm.items.v1\n\nimport j5.list.v1:list\n\n")
		fields := func(prefix string, n int) {
			for i := 0; i < n; i++ {
				k := rapid.SampledFrom(kinds).Draw(t, "kind")
				fmt.Fprintf(&sb, "\tfield %s%d %s", prefix, i, k)
				var rules []string
				for _, l := range listRuleLines[k] {
					if rapid.IntRange(0, 2).Draw(t, "rule") == 0 {
						rules = append(rules, l)
						cls["rule:"+l[strings.Index(l, ".")+1:strings.LastIndex(l, ".")]] = true
					}
				}
				if len(rules) > 0 {
					sb.WriteString(" {\n")
					for _, l := range rules {
						sb.WriteString("\t\t" + l + "\n")
					}
					sb.WriteString("\t}")
				}
				sb.WriteString("\n")
			}
		}
		sb.WriteString("object Inner {\n")
		fields("in", rapid.IntRange(0, 3).Draw(t, "ninner"))
		sb.WriteString("}\n\nenum Kind {\n\toption ALPHA\n\toption BETA\n}\n\nobject Item {\n")
		fields("f", rapid.IntRange(1, 5).Draw(t, "nfields"))
		if rapid.Bool().Draw(t, "nested") {
			sb.WriteString("\tfield inner object:Inner\n")
			cls["nested-object"] = true
		}
		if rapid.Bool().Draw(t, "enumfield") {
			sb.WriteString("\tfield kind enum:Kind {\n\t\tlistRules.filtering.filterable = true\n\t}\n")
			cls["enum-filter"] = true
		}
		sb.WriteString("}\n\nservice Items {\n\tbasePath = \"/lm/v1\"\n")
		c := listCase{}
		nm := rapid.IntRange(1, 3).Draw(t, "nmethods")
		for i := 0; i < nm; i++ {
			name := fmt.Sprintf("List%c", 'A'+i)
			verb := rapid.SampledFrom([]string{"GET", "POST"}).Draw(t, "verb")
			cls["list-verb:"+verb] = true
			fmt.Fprintf(&sb, "\tmethod %s {\n\t\thttpMethod = %q\n\t\thttpPath = \"/items%d\"\n\t\trequest {\n", name, verb, i)
			if rapid.Bool().Draw(t, "extrareq") {
				sb.WriteString("\t\t\tfield tenant string\n")
			}
			sb.WriteString("\t\t\tfield page object:list.PageRequest\n\t\t\tfield query object:list.QueryRequest\n\t\t}\n\t\tresponse {\n\t\t\tfield items array:object:Item\n\t\t\tfield page object:list.PageResponse\n")
			if rapid.Bool().Draw(t, "extraresp") {
				sb.WriteString("\t\t\tfield total integer:INT64\n")
			}
			sb.WriteString("\t\t}\n\t}\n")
			c.Methods++
			c.ListMethod = append(c.ListMethod, name)
		}
		if rapid.IntRange(0, 3).Draw(t, "rawquery") == 0 {
			// a query member and no response object
			sb.WriteString("\tmethod Export {\n\t\thttpMethod = \"GET\"\n\t\thttpPath = \"/export\"\n\t\trequest {\n\t\t\tfield query object:list.QueryRequest\n\t\t}\n\t}\n")
			c.Methods++
			c.Raw = append(c.Raw, "Export")
			cls["query-without-response-object"] = true
		}
		sb.WriteString("}\n")
		c.Text = sb.String()
		var cl []string
		for k := range cls {
			cl = append(cl, k)
		}
		r.Eval(len(cls) >= 3, vf.Hash(c.Text), cl...)
		if r.WantSample() {
			r.Sample(map[string]string{"source": c.Text})
		}
		r.Journal(c)
		r.Judge(t, c, checkList(c))
	})
}
