package c16

import (
	"encoding/json"
	"fmt"
	"path"
	"sort"
	"strings"
	"testing"
	"time"

	"github.com/pentops/j5/gen/j5/client/v1/client_j5pb"
	"github.com/pentops/j5/gen/j5/source/v1/source_j5pb"
	"github.com/pentops/j5/internal/bcl/internal/verif/attrx"
	"github.com/pentops/j5/internal/bcl/internal/verif/j5sgen"
	"github.com/pentops/j5/internal/bcl/internal/verif/j5sx"
	"github.com/pentops/j5/internal/bcl/internal/verif/jx"
	"github.com/pentops/j5/internal/bcl/internal/verif/vf"
	"github.com/pentops/j5/internal/codec"
	"github.com/pentops/j5/internal/export"
	"github.com/pentops/j5/internal/j5client"
	"github.com/pentops/j5/internal/structure"
	"pgregory.net/rapid"
)

const prop = "C16"

func laneCase(raw json.RawMessage) ([]vf.Failure, error) {
	var b j5sgen.Bundle
	if err := json.Unmarshal(raw, &b); err != nil {
		return nil, err
	}
	return check(&b), nil
}

var lanes = map[string]vf.LaneFunc{"pipeline": laneCase, "recursive": laneCase, "kinds": laneCase, "attributes": laneAttr}

// attrCase: one source file accepted by the compiler (attrx), no model.
type attrCase struct {
	File string `json:"file"`
	Text string `json:"text"`
}

func laneAttr(raw json.RawMessage) ([]vf.Failure, error) {
	var c attrCase
	if err := json.Unmarshal(raw, &c); err != nil {
		return nil, err
	}
	fails, _ := runStages(&j5sx.Bundle{Files: map[string]string{c.File: c.Text}}, []string{j5sx.PackageOf(c.File)})
	return crashesOnly(fails), nil
}

// crashesOnly keeps panics and hangs. The attribute lane leaves C02's documented
// language (which C16 quantifies over): what the compiler accepts there may be
// semantically incomplete - an entity annotation without a part, an enum without a
// name - and a stage that answers with an error is within its rights. None may
// crash.
func crashesOnly(fails []vf.Failure) []vf.Failure {
	var out []vf.Failure
	for _, f := range dedupe(fails) {
		if strings.Contains(f.Key, "|panic|") || strings.Contains(f.Key, "|hang|") || strings.HasPrefix(f.Key, "panic|") || strings.HasPrefix(f.Key, "hang|") {
			out = append(out, f)
		}
	}
	return out
}

// TestAttributes: a generated package with one attribute of the language definition
// that the valid-program generator never writes (attrx), kept only if the compiler
// accepts it. Oracle: no stage crashes or hangs (see crashesOnly).
func TestAttributes(t *testing.T) {
	r := vf.Start(t, prop, "attributes")
	rapid.Check(t, func(t *rapid.T) {
		a, ok := attrx.Draw(t)
		if !ok || !a.Accepted {
			r.Discard()
			return
		}
		c := attrCase{File: a.File, Text: a.Text}
		r.Eval(a.Depth > 0, vf.Hash(a.Text), a.Classes...)
		if a.Depth >= 2 && r.WantSample() {
			r.Sample(map[string]string{"block": a.BlockHead, "statement": a.Statement})
		}
		r.Journal(c)
		fails, _ := runStages(&j5sx.Bundle{Files: map[string]string{c.File: c.Text}}, []string{a.Package})
		r.Judge(t, c, crashesOnly(fails))
	})
}

func TestReplay(t *testing.T) {
	if !vf.RunReplayMode(t, prop, lanes) {
		t.Skip("no VERIF_REPLAY")
	}
}

func TestWitness(t *testing.T) { vf.Witnesses(t, prop, lanes) }

const callLimit = 60 * time.Second

func pathParams(p string) []string {
	var out []string
	for _, seg := range strings.Split(p, "/") {
		if strings.HasPrefix(seg, ":") {
			out = append(out, seg[1:])
		}
	}
	return out
}

// reach collects the schema keys (client package, key in its schemas map)
// reachable from a list of fields.
type reach struct {
	keys map[string]bool // "pkg|key"
	b    *j5sgen.Bundle
	seen map[string]bool
}

func (r *reach) decl(pkg, name string) {
	k := pkg + "|" + name
	if r.seen[k] {
		return
	}
	r.seen[k] = true
	r.keys[k] = true
	for _, p := range r.b.Packages {
		if p.Name != pkg {
			continue
		}
		for _, f := range p.Files {
			for _, d := range f.Decls {
				switch {
				case d.Object != nil && d.Object.Name == name:
					r.fields(pkg, "", name, d.Object.Fields)
				case d.Oneof != nil && d.Oneof.Name == name:
					r.fields(pkg, "", name, d.Oneof.Options)
				}
			}
		}
	}
}

// fields: owner is the client package, prefix the sub-package prefix of schema keys
// ("" or "service."), parent the schema name inline types nest under.
func (r *reach) fields(owner, prefix, parent string, fs []*j5sgen.Field) {
	for _, f := range fs {
		t := f.Type
		if t.Items != nil {
			t = t.Items
		}
		switch {
		case t.Ref != nil:
			pkg := t.Ref.Package
			if pkg == "" {
				pkg = owner
			}
			r.decl(pkg, t.Ref.Name)
		case t.InlineObject != nil:
			name := inlineName(f, t, t.InlineObject.Name)
			if !t.Flatten {
				// a flattened object is inlined into its parent in client schemas
				r.keys[owner+"|"+prefix+parent+"_"+name] = true
			}
			r.fields(owner, prefix, parent+"_"+name, t.InlineObject.Fields)
		case t.InlineOneof != nil:
			name := inlineName(f, t, t.InlineOneof.Name)
			r.keys[owner+"|"+prefix+parent+"_"+name] = true
			r.fields(owner, prefix, parent+"_"+name, t.InlineOneof.Options)
		case t.InlineEnum != nil:
			name := inlineName(f, t, t.InlineEnum.Name)
			r.keys[owner+"|"+prefix+parent+"_"+name] = true
		}
	}
}

func inlineName(f *j5sgen.Field, t *j5sgen.Type, override string) string {
	if t.NameOverride {
		return override
	}
	return strings.ToUpper(f.Name[:1]) + f.Name[1:]
}

func propNames(ps interface{ GetProperties() []string }) []string { return nil }

func names(fs []*j5sgen.Field, skip map[string]bool) []string {
	var out []string
	for _, f := range fs {
		if !skip[f.Name] {
			out = append(out, f.Name)
		}
	}
	return out
}

// runStages takes sources through every stage of the pipeline: compile, print,
// source image, source API, client API, its J5 JSON rendering, OpenAPI.
func runStages(src *j5sx.Bundle, pkgs []string) (fails []vf.Failure, capi *client_j5pb.API) {
	texts := map[string]string{}
	for _, p := range pkgs {
		files, err := j5sx.Compile(src, p)
		if err != nil {
			return []vf.Failure{vf.Failf("compile|error", "package %s does not compile (C07's verdict): %v", p, err)}, nil
		}
		for _, f := range files {
			tx, err := j5sx.Print(f)
			if err != nil {
				return []vf.Failure{vf.Failf("print|error", "PrintFile %s: %v (C05's verdict)", f.Path(), err)}, nil
			}
			texts[f.Path()] = tx
		}
	}
	stage := func(name string, fn func() error) bool {
		var err error
		if f := vf.GuardTimed(name, callLimit, func() { err = fn() }); f != nil {
			f.Key = "stage:" + name + "|" + f.Key
			fails = append(fails, *f)
			return false
		}
		if err != nil {
			fails = append(fails, vf.Failf("stage:"+name+"|error|"+vf.ErrClass(err), "%s failed: %v", name, err))
			return false
		}
		return true
	}
	var img *source_j5pb.SourceImage
	if !stage("ReadFSImage", func() (err error) { img, _, err = j5sx.ReadImage(texts); return }) {
		return fails, nil
	}
	for _, p := range pkgs {
		img.Packages = append(img.Packages, &source_j5pb.PackageInfo{Name: p})
	}
	var api *source_j5pb.API
	if !stage("APIFromImage", func() (err error) { api, err = structure.APIFromImage(img); return }) {
		return fails, nil
	}
	if !stage("APIFromSource", func() (err error) { capi, err = j5client.APIFromSource(api); return }) {
		return fails, nil
	}
	stage("ProtoToJSON(client API)", func() error {
		out, err := codec.NewCodec().ProtoToJSON(capi.ProtoReflect())
		if err != nil {
			return err
		}
		if _, perr := jx.Parse(out); perr != nil {
			return fmt.Errorf("client API JSON is malformed: %v", perr)
		}
		return nil
	})
	stage("BuildSwagger", func() error {
		doc, err := export.BuildSwagger(capi)
		if err != nil {
			return err
		}
		out, err := json.Marshal(doc)
		if err != nil {
			return fmt.Errorf("json.Marshal(swagger): %w", err)
		}
		if _, perr := jx.Parse(out); perr != nil {
			return fmt.Errorf("swagger JSON is malformed: %v", perr)
		}
		return nil
	})
	return fails, capi
}

func check(b *j5sgen.Bundle) (fails []vf.Failure) {
	var pkgs []string
	for _, p := range b.Packages {
		pkgs = append(pkgs, p.Name)
	}
	fails, capi := runStages(&j5sx.Bundle{Files: b.Render()}, pkgs)
	if capi == nil {
		return fails
	}

	// content oracle
	cpkgs := map[string]*client_j5pb.Package{}
	for _, p := range capi.Packages {
		cpkgs[p.Name] = p
	}
	for _, p := range b.Packages {
		cp := cpkgs[p.Name]
		if cp == nil {
			fails = append(fails, vf.Failf("content|package-missing", "package %s is not in the client API", p.Name))
			continue
		}
		want := map[string]*j5sgen.Service{}
		for _, f := range p.Files {
			for _, d := range f.Decls {
				if d.Service != nil {
					want[d.Service.Name+"Service"] = d.Service
				}
			}
		}
		got := map[string]*client_j5pb.Service{}
		for _, s := range cp.Services {
			got[s.Name] = s
		}
		for name := range got {
			if want[name] == nil {
				fails = append(fails, vf.Failf("content|service-extra", "%s: service %s was not declared", p.Name, name))
			}
		}
		rc := &reach{keys: map[string]bool{}, b: b, seen: map[string]bool{}}
		for name, ws := range want {
			gs := got[name]
			if gs == nil {
				fails = append(fails, vf.Failf("content|service-missing", "%s: declared service %s is not in the client API", p.Name, name))
				continue
			}
			gm := map[string]*client_j5pb.Method{}
			for _, m := range gs.Methods {
				gm[m.FullGrpcName] = m
			}
			if len(gm) != len(ws.Methods) {
				fails = append(fails, vf.Failf("content|method-count", "%s.%s: %d methods declared, %d in client API", p.Name, name, len(ws.Methods), len(gm)))
			}
			for _, wm := range ws.Methods {
				full := fmt.Sprintf("/%s.%s/%s", p.Name, name, wm.Name)
				m := gm[full]
				if m == nil {
					fails = append(fails, vf.Failf("content|method-missing", "%s: method %s missing (have %v)", p.Name, full, keysOf(gm)))
					continue
				}
				if verb := strings.TrimPrefix(m.HttpMethod.String(), "HTTP_METHOD_"); verb != wm.HTTPMethod {
					fails = append(fails, vf.Failf("content|verb", "%s: verb %s, declared %s", full, verb, wm.HTTPMethod))
				}
				wantPath := wm.HTTPPath
				if ws.BasePath != "" {
					wantPath = path.Join(ws.BasePath, wm.HTTPPath)
				}
				if m.HttpPath != wantPath {
					fails = append(fails, vf.Failf("content|path", "%s: path %q, declared %q", full, m.HttpPath, wantPath))
				}
				inPath := map[string]bool{}
				for _, pp := range pathParams(wantPath) {
					inPath[pp] = true
				}
				var gotPath []string
				for _, pp := range m.GetRequest().GetPathParameters() {
					gotPath = append(gotPath, pp.Name)
				}
				wantPathNames := names(wm.Request, invert(wm.Request, inPath))
				if !sameSet(gotPath, wantPathNames) {
					fails = append(fails, vf.Failf("content|path-parameters", "%s: path parameters %v, expected %v", full, gotPath, wantPathNames))
				}
				rest := names(wm.Request, inPath)
				var gotQuery, gotBody []string
				for _, q := range m.GetRequest().GetQueryParameters() {
					gotQuery = append(gotQuery, q.Name)
				}
				for _, q := range m.GetRequest().GetBody().GetProperties() {
					gotBody = append(gotBody, q.Name)
				}
				if wm.HTTPMethod == "GET" {
					if strings.Join(gotQuery, ",") != strings.Join(rest, ",") || len(gotBody) > 0 {
						fails = append(fails, vf.Failf("content|request-split:GET", "%s: query %v body %v, expected query %v and no body", full, gotQuery, gotBody, rest))
					}
				} else {
					if strings.Join(gotBody, ",") != strings.Join(rest, ",") || len(gotQuery) > 0 {
						fails = append(fails, vf.Failf("content|request-split:body", "%s (%s): body %v query %v, expected body %v and no query", full, wm.HTTPMethod, gotBody, gotQuery, rest))
					}
				}
				if !wm.NoResponse {
					var gotResp []string
					for _, q := range m.GetResponseBody().GetProperties() {
						gotResp = append(gotResp, q.Name)
					}
					if strings.Join(gotResp, ",") != strings.Join(names(wm.Response, nil), ",") {
						fails = append(fails, vf.Failf("content|response", "%s: response properties %v, declared %v", full, gotResp, names(wm.Response, nil)))
					}
				}
				rc.fields(p.Name, "service.", wm.Name+"Request", wm.Request)
				if !wm.NoResponse {
					rc.fields(p.Name, "service.", wm.Name+"Response", wm.Response)
				}
			}
		}
		var missing []string
		for k := range rc.keys {
			parts := strings.SplitN(k, "|", 2)
			owner := cpkgs[parts[0]]
			if owner == nil || owner.Schemas[parts[1]] == nil {
				missing = append(missing, k)
			}
		}
		if len(missing) > 0 {
			sort.Strings(missing)
			fails = append(fails, vf.Failf("content|reachable-schema-missing", "%s: schemas reachable from methods but absent from the client API: %v", p.Name, missing))
		}
	}
	return dedupe(fails)
}

func keysOf(m map[string]*client_j5pb.Method) []string {
	var out []string
	for k := range m {
		out = append(out, k)
	}
	sort.Strings(out)
	return out
}

func invert(fs []*j5sgen.Field, keep map[string]bool) map[string]bool {
	out := map[string]bool{}
	for _, f := range fs {
		if !keep[f.Name] {
			out[f.Name] = true
		}
	}
	return out
}

func sameSet(a, b []string) bool {
	x := append([]string{}, a...)
	y := append([]string{}, b...)
	sort.Strings(x)
	sort.Strings(y)
	return strings.Join(x, ",") == strings.Join(y, ",")
}

func dedupe(fails []vf.Failure) []vf.Failure {
	seen := map[string]bool{}
	var out []vf.Failure
	for _, f := range fails {
		if !seen[f.Key] {
			seen[f.Key] = true
			out = append(out, f)
		}
	}
	return out
}

func TestPipeline(t *testing.T) {
	r := vf.Start(t, prop, "pipeline")
	rapid.Check(t, func(t *rapid.T) {
		o := j5sgen.DefaultOpts()
		o.Entities = true
		// names that do not survive a camel -> snake -> camel round trip (userID,
		// HTTPServer, snake_name, aB): the stages hand names to each other in both forms
		o.OddPathParams = true
		b, classes := j5sgen.Draw(t, o)
		nt := classes["path-parameter"] || classes["entity"]
		cls := []string{}
		for k := range classes {
			cls = append(cls, k)
		}
		r.Eval(nt, vf.Hash(b.Render()), cls...)
		if nt && len(b.Render()) == 1 && r.WantSample() {
			r.Sample(map[string]any{"files": b.Render()})
		}
		r.Journal(b)
		r.Judge(t, b, check(b))
	})
}

// TestRecursive: self- and mutually-recursive objects and oneofs reachable from
// a method, in request, response and (GET) query positions.
func TestRecursive(t *testing.T) {
	r := vf.Start(t, prop, "recursive")
	ref := func(n string) *j5sgen.Type { return &j5sgen.Type{Kind: "object", Ref: &j5sgen.Ref{Name: n}} }
	shapes := map[string][]*j5sgen.Decl{
		"self":       {{Object: &j5sgen.Object{Name: "Node", Fields: []*j5sgen.Field{{Name: "label", Type: &j5sgen.Type{Kind: "string"}}, {Name: "next", Type: ref("Node")}}}}},
		"self-array": {{Object: &j5sgen.Object{Name: "Node", Fields: []*j5sgen.Field{{Name: "kids", Type: &j5sgen.Type{Kind: "array", Items: ref("Node")}}}}}},
		"self-map":   {{Object: &j5sgen.Object{Name: "Node", Fields: []*j5sgen.Field{{Name: "byName", Type: &j5sgen.Type{Kind: "map", Items: ref("Node")}}}}}},
		"mutual":     {{Object: &j5sgen.Object{Name: "Node", Fields: []*j5sgen.Field{{Name: "other", Type: ref("Other")}}}}, {Object: &j5sgen.Object{Name: "Other", Fields: []*j5sgen.Field{{Name: "back", Type: ref("Node")}}}}},
		"via-oneof":  {{Object: &j5sgen.Object{Name: "Node", Fields: []*j5sgen.Field{{Name: "pick", Type: &j5sgen.Type{Kind: "oneof", Ref: &j5sgen.Ref{Name: "Pick"}}}}}}, {Oneof: &j5sgen.Oneof{Name: "Pick", Options: []*j5sgen.Field{{Name: "node", Type: ref("Node")}}}}},
	}
	var keys []string
	for k := range shapes {
		keys = append(keys, k)
	}
	sort.Strings(keys)
	for _, k := range keys {
		for _, verb := range []string{"GET", "POST"} {
			for _, pos := range []string{"request", "response"} {
				m := &j5sgen.Method{Name: "UseNode", HTTPMethod: verb, HTTPPath: "/node"}
				f := &j5sgen.Field{Name: "node", Type: ref("Node")}
				if pos == "request" {
					m.Request = []*j5sgen.Field{f}
				} else {
					m.Response = []*j5sgen.Field{f}
				}
				decls := append([]*j5sgen.Decl{}, shapes[k]...)
				decls = append(decls, &j5sgen.Decl{Service: &j5sgen.Service{Name: "Nodes", BasePath: "/nodes/v1", Methods: []*j5sgen.Method{m}}})
				b := &j5sgen.Bundle{Packages: []*j5sgen.Package{{Name: "rec.shape.v1", Files: []*j5sgen.File{{Path: "rec/shape/v1/main.j5s", Decls: decls}}}}}
				r.Eval(true, vf.Hash(k, verb, pos), "shape:"+k, "verb:"+verb, "in:"+pos)
				if k == "mutual" && r.WantSample() {
					r.Sample(map[string]any{"files": b.Render()})
				}
				r.Journal(b)
				r.JudgeNoFatal(b, check(b))
			}
		}
	}
	r.SetExhaustive()
}

// TestKinds: every field type in request body, query, path and response position.
func TestKinds(t *testing.T) {
	r := vf.Start(t, prop, "kinds")
	types := map[string]*j5sgen.Type{
		"string": {Kind: "string"}, "bool": {Kind: "bool"}, "int32": {Kind: "integer", Format: "INT32"}, "uint64": {Kind: "integer", Format: "UINT64"},
		"float": {Kind: "float", Format: "FLOAT64"}, "bytes": {Kind: "bytes"}, "date": {Kind: "date"}, "decimal": {Kind: "decimal"}, "timestamp": {Kind: "timestamp"},
		"key": {Kind: "key", Format: "id62"}, "key-uuid": {Kind: "key", Format: "uuid"}, "any": {Kind: "any"},
		"enum":      {Kind: "enum", InlineEnum: &j5sgen.Enum{Options: []*j5sgen.EnumOption{{Name: "A"}, {Name: "B"}}}},
		"object":    {Kind: "object", InlineObject: &j5sgen.Object{Fields: []*j5sgen.Field{{Name: "x", Type: &j5sgen.Type{Kind: "string"}}}}},
		"oneof":     {Kind: "oneof", InlineOneof: &j5sgen.Oneof{Options: []*j5sgen.Field{{Name: "a", Type: &j5sgen.Type{Kind: "object", InlineObject: &j5sgen.Object{}}}}}},
		"array":     {Kind: "array", Items: &j5sgen.Type{Kind: "string"}},
		"array-obj": {Kind: "array", Items: &j5sgen.Type{Kind: "object", InlineObject: &j5sgen.Object{Fields: []*j5sgen.Field{{Name: "y", Type: &j5sgen.Type{Kind: "date"}}}}}},
		"map":       {Kind: "map", Items: &j5sgen.Type{Kind: "integer", Format: "INT64"}},
	}
	var keys []string
	for k := range types {
		keys = append(keys, k)
	}
	sort.Strings(keys)
	for _, k := range keys {
		for _, pos := range []string{"query", "body", "response", "path"} {
			raw, _ := json.Marshal(types[k])
			var ty j5sgen.Type
			_ = json.Unmarshal(raw, &ty)
			m := &j5sgen.Method{Name: "UseKind", HTTPMethod: "POST", HTTPPath: "/kind"}
			f := &j5sgen.Field{Name: "value", Type: &ty}
			switch pos {
			case "query":
				m.HTTPMethod = "GET"
				m.Request = []*j5sgen.Field{f}
			case "body":
				m.Request = []*j5sgen.Field{f}
			case "response":
				m.Response = []*j5sgen.Field{f}
			case "path":
				// every scalar kind and enums can be a path parameter; containers,
				// objects, oneofs and any cannot
				switch ty.Kind {
				case "string", "key", "integer", "date", "bool", "enum", "float", "decimal", "timestamp", "bytes":
				default:
					continue
				}
				m.HTTPMethod = "GET"
				m.HTTPPath = "/kind/:value"
				m.Request = []*j5sgen.Field{f}
			}
			b := &j5sgen.Bundle{Packages: []*j5sgen.Package{{Name: "kind.pos.v1", Files: []*j5sgen.File{{Path: "kind/pos/v1/main.j5s", Decls: []*j5sgen.Decl{{Service: &j5sgen.Service{Name: "Kinds", Methods: []*j5sgen.Method{m}}}}}}}}}
			r.Eval(true, vf.Hash(k, pos), "kind:"+k, "in:"+pos)
			r.Journal(b)
			r.JudgeNoFatal(b, check(b))
		}
	}
	r.SetExhaustive()
}
