// Package j5ref is the harness's own reading of how a proto3 descriptor maps to a
// J5 document (README "Scalar Types", annotations.proto comments): which messages
// are oneof wrappers, which oneofs are exposed, flattening, JSON names, and the
// wire representation of every scalar. It never calls j5schema / j5reflect.
package j5ref

import (
	"encoding/base64"
	"fmt"
	"math"
	"regexp"
	"sort"
	"strconv"
	"strings"
	"time"

	"github.com/pentops/j5/gen/j5/ext/v1/ext_j5pb"
	"github.com/pentops/j5/internal/bcl/internal/verif/jx"
	"github.com/shopspring/decimal"
	"google.golang.org/protobuf/proto"
	"google.golang.org/protobuf/reflect/protoreflect"
	"google.golang.org/protobuf/types/dynamicpb"
)

const (
	TimestampName = "google.protobuf.Timestamp"
	DateName      = "j5.types.date.v1.Date"
	DecimalName   = "j5.types.decimal.v1.Decimal"
	J5AnyName     = "j5.types.any.v1.Any"
	PbAnyName     = "google.protobuf.Any"
	AnyURLPrefix  = "type.googleapis.com/"
)

// IsWrapper: a message is a J5 oneof when flagged, or when it consists of one
// real oneof called "type" (without oneof options) holding only message fields.
func IsWrapper(md protoreflect.MessageDescriptor) bool {
	if md.Options() != nil {
		if mo, _ := proto.GetExtension(md.Options(), ext_j5pb.E_Message).(*ext_j5pb.MessageOptions); mo != nil {
			if mo.IsOneofWrapper {
				return true
			}
			switch mo.Type.(type) {
			case *ext_j5pb.MessageOptions_Oneof:
				return true
			case *ext_j5pb.MessageOptions_Object:
				return false
			}
		}
	}
	if md.Oneofs().Len() != 1 {
		return false
	}
	oo := md.Oneofs().Get(0)
	if oo.IsSynthetic() || oo.Name() != "type" {
		return false
	}
	if oo.Options() != nil {
		if e, _ := proto.GetExtension(oo.Options(), ext_j5pb.E_Oneof).(*ext_j5pb.OneofOptions); e != nil {
			return false
		}
	}
	for i := 0; i < md.Fields().Len(); i++ {
		f := md.Fields().Get(i)
		if f.ContainingOneof() != oo || f.Kind() != protoreflect.MessageKind {
			return false
		}
	}
	return true
}

func IsExposed(oo protoreflect.OneofDescriptor) bool {
	if oo.IsSynthetic() || oo.Options() == nil {
		return false
	}
	e, _ := proto.GetExtension(oo.Options(), ext_j5pb.E_Oneof).(*ext_j5pb.OneofOptions)
	return e != nil && e.Expose
}

func IsFlatten(f protoreflect.FieldDescriptor) bool {
	if f.Kind() != protoreflect.MessageKind || f.IsList() || f.IsMap() || f.Options() == nil {
		return false
	}
	e, _ := proto.GetExtension(f.Options(), ext_j5pb.E_Field).(*ext_j5pb.FieldOptions)
	if e == nil {
		return false
	}
	if !(e.GetMessage().GetFlatten() || e.GetObject().GetFlatten()) {
		return false
	}
	// flatten only means something for plain objects
	if IsScalarMessage(f.Message()) || IsAny(f.Message()) || IsWrapper(f.Message()) {
		return false
	}
	return true
}

func IsScalarMessage(md protoreflect.MessageDescriptor) bool {
	switch md.FullName() {
	case TimestampName, DateName, DecimalName:
		return true
	}
	return false
}

func IsAny(md protoreflect.MessageDescriptor) bool {
	return md.FullName() == J5AnyName || md.FullName() == PbAnyName
}

// lowerCamel is the JSON name of an exposed oneof.
func lowerCamel(s string) string {
	var sb strings.Builder
	up := false
	for i, r := range s {
		if r == '_' {
			up = true
			continue
		}
		if up && r >= 'a' && r <= 'z' {
			r = r - 'a' + 'A'
		}
		if i == 0 && r >= 'A' && r <= 'Z' {
			r = r - 'A' + 'a'
		}
		up = false
		sb.WriteRune(r)
	}
	return sb.String()
}

// Prop is one member of an object's (or oneof's) client surface.
type Prop struct {
	Name    string
	Path    []protoreflect.FieldDescriptor // parents (flattened objects) then the field; empty for exposed oneofs at top level
	Exposed protoreflect.OneofDescriptor   // set for an exposed oneof
	Members []Prop                         // members of the exposed oneof
}

func (p Prop) Field() protoreflect.FieldDescriptor { return p.Path[len(p.Path)-1] }

// Props lists the client properties of a message in document order.
func Props(md protoreflect.MessageDescriptor) []Prop {
	return props(md, nil, 0)
}

func props(md protoreflect.MessageDescriptor, prefix []protoreflect.FieldDescriptor, depth int) []Prop {
	var out []Prop
	if depth > 16 {
		return out
	}
	wrapper := IsWrapper(md)
	seen := map[protoreflect.Name]int{}
	for i := 0; i < md.Fields().Len(); i++ {
		f := md.Fields().Get(i)
		path := append(append([]protoreflect.FieldDescriptor(nil), prefix...), f)
		if !wrapper {
			if oo := f.ContainingOneof(); oo != nil && IsExposed(oo) {
				idx, ok := seen[oo.Name()]
				if !ok {
					out = append(out, Prop{Name: lowerCamel(string(oo.Name())), Path: append([]protoreflect.FieldDescriptor(nil), prefix...), Exposed: oo})
					idx = len(out) - 1
					seen[oo.Name()] = idx
				}
				out[idx].Members = append(out[idx].Members, Prop{Name: f.JSONName(), Path: path})
				continue
			}
			if IsFlatten(f) {
				out = append(out, props(f.Message(), path, depth+1)...)
				continue
			}
		}
		out = append(out, Prop{Name: f.JSONName(), Path: path})
	}
	return out
}

func EnumPrefix(ed protoreflect.EnumDescriptor) string {
	if ed.Values().Len() == 0 {
		return ""
	}
	first := string(ed.Values().Get(0).Name())
	return strings.TrimSuffix(first, "UNSPECIFIED")
}

func EnumShort(ed protoreflect.EnumDescriptor, n protoreflect.EnumNumber) (string, bool) {
	v := ed.Values().ByNumber(n)
	if v == nil {
		return "", false
	}
	return strings.TrimPrefix(string(v.Name()), EnumPrefix(ed)), true
}

// Resolver finds message types for Any payloads.
type Resolver interface {
	FindMessageByName(protoreflect.FullName) (protoreflect.MessageType, error)
}

// Encoder builds the expected J5 document of a message.
type Encoder struct {
	Types Resolver
}

func get(msg protoreflect.Message, path []protoreflect.FieldDescriptor) (protoreflect.Message, protoreflect.FieldDescriptor, bool) {
	cur := msg
	for i, f := range path {
		if i == len(path)-1 {
			return cur, f, cur.Has(f)
		}
		if !cur.Has(f) {
			return nil, nil, false
		}
		cur = cur.Get(f).Message()
	}
	return cur, nil, true
}

// Encode returns the expected document for msg (object or oneof wrapper).
func (e *Encoder) Encode(msg protoreflect.Message) (*jx.Value, error) {
	md := msg.Descriptor()
	if IsWrapper(md) {
		return e.encodeOneof(msg, Props(md))
	}
	out := sem(jx.O(), "object:"+string(md.FullName()))
	for _, p := range Props(md) {
		if p.Exposed != nil {
			holder := msg
			ok := true
			for _, f := range p.Path { // flattened parents
				if !holder.Has(f) {
					ok = false
					break
				}
				holder = holder.Get(f).Message()
			}
			if !ok {
				continue
			}
			set := holder.WhichOneof(p.Exposed)
			if set == nil {
				continue
			}
			val, err := e.value(set, holder.Get(set))
			if err != nil {
				return nil, err
			}
			out.Members = append(out.Members, jx.Member{Key: p.Name, Val: sem(jx.O(jx.Member{Key: "!type", Val: jx.S(set.JSONName())}, jx.Member{Key: set.JSONName(), Val: val}), "exposed:"+string(p.Exposed.FullName()))})
			continue
		}
		holder, f, has := get(msg, p.Path)
		if !has {
			continue
		}
		val, err := e.fieldValue(f, holder.Get(f))
		if err != nil {
			return nil, err
		}
		out.Members = append(out.Members, jx.Member{Key: p.Name, Val: val})
	}
	return out, nil
}

func (e *Encoder) encodeOneof(msg protoreflect.Message, ps []Prop) (*jx.Value, error) {
	for _, p := range ps {
		f := p.Field()
		if msg.Has(f) {
			val, err := e.fieldValue(f, msg.Get(f))
			if err != nil {
				return nil, err
			}
			return sem(jx.O(jx.Member{Key: "!type", Val: jx.S(p.Name)}, jx.Member{Key: p.Name, Val: val}), "oneof:"+string(msg.Descriptor().FullName())), nil
		}
	}
	return sem(jx.O(), "oneof:"+string(msg.Descriptor().FullName())), nil
}

func (e *Encoder) fieldValue(f protoreflect.FieldDescriptor, v protoreflect.Value) (*jx.Value, error) {
	switch {
	case f.IsList():
		l := v.List()
		out := sem(jx.A(), "array")
		for i := 0; i < l.Len(); i++ {
			it, err := e.value(f, l.Get(i))
			if err != nil {
				return nil, err
			}
			out.Items = append(out.Items, it)
		}
		return out, nil
	case f.IsMap():
		out := sem(jx.O(), "map")
		var keys []string
		vals := map[string]protoreflect.Value{}
		v.Map().Range(func(k protoreflect.MapKey, val protoreflect.Value) bool {
			keys = append(keys, k.String())
			vals[k.String()] = val
			return true
		})
		sort.Strings(keys)
		for _, k := range keys {
			it, err := e.value(f.MapValue(), vals[k])
			if err != nil {
				return nil, err
			}
			out.Members = append(out.Members, jx.Member{Key: k, Val: it})
		}
		return out, nil
	}
	return e.value(f, v)
}

func sem(v *jx.Value, s string) *jx.Value { v.Sem = s; return v }

// value renders a singular value of field f's type.
func (e *Encoder) value(f protoreflect.FieldDescriptor, v protoreflect.Value) (*jx.Value, error) {
	switch f.Kind() {
	case protoreflect.StringKind:
		return sem(jx.S(v.String()), "string"), nil
	case protoreflect.BoolKind:
		return sem(jx.B(v.Bool()), "bool"), nil
	case protoreflect.Int32Kind, protoreflect.Sint32Kind, protoreflect.Sfixed32Kind:
		return sem(jx.N(strconv.FormatInt(v.Int(), 10)), "int32"), nil
	case protoreflect.Uint32Kind, protoreflect.Fixed32Kind:
		return sem(jx.N(strconv.FormatUint(v.Uint(), 10)), "uint32"), nil
	case protoreflect.Int64Kind, protoreflect.Sint64Kind:
		return sem(jx.S(strconv.FormatInt(v.Int(), 10)), "int64"), nil
	case protoreflect.Uint64Kind:
		return sem(jx.S(strconv.FormatUint(v.Uint(), 10)), "uint64"), nil
	case protoreflect.FloatKind:
		return sem(jx.N(strconv.FormatFloat(v.Float(), 'g', -1, 32)), "f32"), nil
	case protoreflect.DoubleKind:
		return sem(jx.N(strconv.FormatFloat(v.Float(), 'g', -1, 64)), "f64"), nil
	case protoreflect.BytesKind:
		return sem(jx.S(base64.StdEncoding.EncodeToString(v.Bytes())), "bytes"), nil
	case protoreflect.EnumKind:
		name, ok := EnumShort(f.Enum(), v.Enum())
		if !ok {
			return nil, fmt.Errorf("undefined enum number %d", v.Enum())
		}
		return sem(jx.S(name), "enum:"+string(f.Enum().FullName())), nil
	case protoreflect.MessageKind:
		m := v.Message()
		md := f.Message()
		switch md.FullName() {
		case TimestampName:
			secs := m.Get(md.Fields().ByName("seconds")).Int()
			nanos := m.Get(md.Fields().ByName("nanos")).Int()
			return sem(jx.S(time.Unix(secs, nanos).UTC().Format(time.RFC3339Nano)), "timestamp"), nil
		case DateName:
			y := m.Get(md.Fields().ByName("year")).Int()
			mo := m.Get(md.Fields().ByName("month")).Int()
			d := m.Get(md.Fields().ByName("day")).Int()
			return sem(jx.S(fmt.Sprintf("%04d-%02d-%02d", y, mo, d)), "date"), nil
		case DecimalName:
			return sem(jx.S(m.Get(md.Fields().ByName("value")).String()), "decimal"), nil
		case J5AnyName, PbAnyName:
			return e.any(m)
		}
		return e.Encode(m)
	}
	return nil, fmt.Errorf("kind %s has no J5 representation", f.Kind())
}

// AnyParts extracts (type name, proto bytes, j5 json) from either Any flavour.
func AnyParts(m protoreflect.Message) (typeName string, protoBytes, j5json []byte) {
	md := m.Descriptor()
	if md.FullName() == PbAnyName {
		return strings.TrimPrefix(m.Get(md.Fields().ByName("type_url")).String(), AnyURLPrefix), m.Get(md.Fields().ByName("value")).Bytes(), nil
	}
	typeName = m.Get(md.Fields().ByName("type_name")).String()
	if f := md.Fields().ByName("proto"); m.Has(f) {
		protoBytes = m.Get(f).Bytes()
	}
	if f := md.Fields().ByName("j5_json"); m.Has(f) {
		j5json = m.Get(f).Bytes()
	}
	return
}

func (e *Encoder) any(m protoreflect.Message) (*jx.Value, error) {
	typeName, pb, js := AnyParts(m)
	var inner *jx.Value
	if js != nil {
		v, err := jx.Parse(js)
		if err != nil {
			return nil, fmt.Errorf("any j5_json: %w", err)
		}
		inner = v
	} else {
		if e.Types == nil {
			return nil, fmt.Errorf("no resolver for any")
		}
		mt, err := e.Types.FindMessageByName(protoreflect.FullName(typeName))
		if err != nil {
			return nil, err
		}
		im := mt.New()
		if err := proto.Unmarshal(pb, im.Interface()); err != nil {
			return nil, err
		}
		v, err := e.Encode(im)
		if err != nil {
			return nil, err
		}
		inner = v
	}
	return sem(jx.O(jx.Member{Key: "!type", Val: jx.S(typeName)}, jx.Member{Key: "value", Val: inner}), "any"), nil
}

var tsRe = regexp.MustCompile(`^\d{4}-\d{2}-\d{2}T\d{2}:\d{2}:\d{2}(\.\d+)?Z$`)
var dateRe = regexp.MustCompile(`^\d{4}-\d{2}-\d{2}$`)

// DiffSem compares an expected tree (with semantic tags) against an actual one.
// Returns a class (for the finding key) and a description; "" when equal.
func DiffSem(want, got *jx.Value, path string) (class, detail string) {
	if got == nil {
		return "missing", path + ": missing"
	}
	if want.Kind != got.Kind {
		return "representation", fmt.Sprintf("%s: want %s got %s (%s vs %s)", path, kindName(want.Kind), kindName(got.Kind), clip(want.String()), clip(got.String()))
	}
	switch want.Kind {
	case jx.Bool:
		if want.B != got.B {
			return "value", fmt.Sprintf("%s: %v vs %v", path, want.B, got.B)
		}
	case jx.Num:
		switch want.Sem {
		case "f32":
			a, e1 := strconv.ParseFloat(want.S, 64)
			b, e2 := strconv.ParseFloat(got.S, 64)
			if e1 != nil || e2 != nil || float32(a) != float32(b) {
				return "value", fmt.Sprintf("%s: float32 %s vs %s", path, want.S, got.S)
			}
		case "f64":
			a, e1 := strconv.ParseFloat(want.S, 64)
			b, e2 := strconv.ParseFloat(got.S, 64)
			if e1 != nil || e2 != nil || a != b {
				return "value", fmt.Sprintf("%s: float64 %s vs %s", path, want.S, got.S)
			}
		default:
			if d := jx.Diff(want, got, path); d != "" {
				return "value", d
			}
		}
	case jx.Str:
		switch want.Sem {
		case "timestamp":
			if !tsRe.MatchString(got.S) {
				return "representation", fmt.Sprintf("%s: timestamp %q is not RFC3339 in UTC", path, got.S)
			}
			a, e1 := time.Parse(time.RFC3339Nano, want.S)
			b, e2 := time.Parse(time.RFC3339Nano, got.S)
			if e1 != nil || e2 != nil || !a.Equal(b) {
				return "value", fmt.Sprintf("%s: timestamp %q vs %q", path, want.S, got.S)
			}
		case "decimal":
			a, e1 := decimal.NewFromString(want.S)
			b, e2 := decimal.NewFromString(got.S)
			if e1 != nil || e2 != nil || !a.Equal(b) {
				return "value", fmt.Sprintf("%s: decimal %q vs %q", path, want.S, got.S)
			}
		default:
			if want.S != got.S {
				return "value", fmt.Sprintf("%s: %q vs %q", path, clip(want.S), clip(got.S))
			}
		}
	case jx.Arr:
		if len(want.Items) != len(got.Items) {
			return "value", fmt.Sprintf("%s: array length %d vs %d", path, len(want.Items), len(got.Items))
		}
		for i := range want.Items {
			if c, d := DiffSem(want.Items[i], got.Items[i], fmt.Sprintf("%s[%d]", path, i)); c != "" {
				return c, d
			}
		}
	case jx.Obj:
		wk, gk := want.Keys(), got.Keys()
		sort.Strings(wk)
		sort.Strings(gk)
		for i := 1; i < len(gk); i++ {
			if gk[i] == gk[i-1] {
				return "duplicate-key", fmt.Sprintf("%s: duplicate key %q", path, gk[i])
			}
		}
		if strings.Join(wk, "\x00") != strings.Join(gk, "\x00") {
			return "members", fmt.Sprintf("%s: members want %q got %q", path, wk, gk)
		}
		for _, m := range want.Members {
			if c, d := DiffSem(m.Val, got.Get(m.Key), path+"."+m.Key); c != "" {
				return c, d
			}
		}
	}
	return "", ""
}

func kindName(k jx.Kind) string {
	return [...]string{"null", "bool", "number", "string", "array", "object"}[k]
}

func clip(s string) string {
	if len(s) > 100 {
		return s[:100] + "…"
	}
	return s
}

// ---------------------------------------------------------------------------
// message equivalence (C01): proto equality except decimals numerically, an empty
// flattened sub-object as absent, and Any by (type name, payload).

type Equiv struct {
	Types Resolver
	// Strict compares presence literally: an empty flattened sub-object is not
	// the same as an absent one. Used where two decodes of the same value are
	// compared with each other (C03), not a decode with the original (C01).
	Strict bool
	// DecodeJSON, when set, turns the JSON form of an Any payload into a message
	// so that two payloads spelled differently are compared by value.
	DecodeJSON func(typeName string, data []byte) (protoreflect.Message, error)
}

func emptyFlat(m protoreflect.Message) bool {
	empty := true
	m.Range(func(f protoreflect.FieldDescriptor, v protoreflect.Value) bool {
		if IsFlatten(f) && emptyFlat(v.Message()) {
			return true
		}
		empty = false
		return false
	})
	return empty
}

func (q *Equiv) has(m protoreflect.Message, f protoreflect.FieldDescriptor) bool {
	if !m.Has(f) {
		return false
	}
	if !q.Strict && IsFlatten(f) && emptyFlat(m.Get(f).Message()) {
		return false
	}
	return true
}

// Diff returns "" when a and b are equivalent, else the path of the first
// difference and a class.
func (q *Equiv) Diff(a, b protoreflect.Message, path string) (class, detail string) {
	if a.Descriptor().FullName() != b.Descriptor().FullName() {
		return "type", fmt.Sprintf("%s: %s vs %s", path, a.Descriptor().FullName(), b.Descriptor().FullName())
	}
	md := a.Descriptor()
	bfields := b.Descriptor().Fields()
	for i := 0; i < md.Fields().Len(); i++ {
		fa := md.Fields().Get(i)
		fb := bfields.ByNumber(fa.Number())
		p := path + "." + string(fa.Name())
		ha, hb := q.has(a, fa), q.has(b, fb)
		if ha != hb {
			return "presence:" + kindClass(fa), fmt.Sprintf("%s: set=%v before, set=%v after", p, ha, hb)
		}
		if !ha {
			continue
		}
		va, vb := a.Get(fa), b.Get(fb)
		switch {
		case fa.IsList():
			la, lb := va.List(), vb.List()
			if la.Len() != lb.Len() {
				return "list-length:" + kindClass(fa), fmt.Sprintf("%s: %d vs %d elements", p, la.Len(), lb.Len())
			}
			for k := 0; k < la.Len(); k++ {
				if c, d := q.single(fa, la.Get(k), lb.Get(k), fmt.Sprintf("%s[%d]", p, k)); c != "" {
					return c, d
				}
			}
		case fa.IsMap():
			ma, mb := va.Map(), vb.Map()
			if ma.Len() != mb.Len() {
				return "map-size:" + kindClass(fa.MapValue()), fmt.Sprintf("%s: %d vs %d entries", p, ma.Len(), mb.Len())
			}
			var c, d string
			ma.Range(func(k protoreflect.MapKey, v protoreflect.Value) bool {
				if !mb.Has(k) {
					c, d = "map-key", fmt.Sprintf("%s: key %q lost", p, k.String())
					return false
				}
				c, d = q.single(fa.MapValue(), v, mb.Get(k), fmt.Sprintf("%s[%q]", p, k.String()))
				return c == ""
			})
			if c != "" {
				return c, d
			}
		default:
			if c, d := q.single(fa, va, vb, p); c != "" {
				return c, d
			}
		}
	}
	return "", ""
}

func kindClass(f protoreflect.FieldDescriptor) string {
	if f.Kind() == protoreflect.MessageKind {
		switch f.Message().FullName() {
		case TimestampName:
			return "timestamp"
		case DateName:
			return "date"
		case DecimalName:
			return "decimal"
		case J5AnyName:
			return "j5any"
		case PbAnyName:
			return "pbany"
		}
		if IsWrapper(f.Message()) {
			return "oneof"
		}
		return "object"
	}
	return f.Kind().String()
}

func (q *Equiv) single(f protoreflect.FieldDescriptor, a, b protoreflect.Value, p string) (string, string) {
	cls := "value:" + kindClass(f)
	switch f.Kind() {
	case protoreflect.MessageKind:
		ma, mb := a.Message(), b.Message()
		switch f.Message().FullName() {
		case DecimalName:
			vf := f.Message().Fields().ByName("value")
			da, e1 := decimal.NewFromString(ma.Get(vf).String())
			db, e2 := decimal.NewFromString(mb.Get(mb.Descriptor().Fields().ByName("value")).String())
			if e1 != nil || e2 != nil || !da.Equal(db) {
				return cls, fmt.Sprintf("%s: decimal %q vs %q", p, ma.Get(vf).String(), mb.Get(mb.Descriptor().Fields().ByName("value")).String())
			}
			return "", ""
		case J5AnyName, PbAnyName:
			return q.anyDiff(ma, mb, p)
		}
		return q.Diff(ma, mb, p)
	case protoreflect.FloatKind, protoreflect.DoubleKind:
		if a.Float() != b.Float() || math.Signbit(a.Float()) != math.Signbit(b.Float()) {
			return cls, fmt.Sprintf("%s: %v vs %v", p, a.Float(), b.Float())
		}
	case protoreflect.BytesKind:
		if string(a.Bytes()) != string(b.Bytes()) {
			return cls, fmt.Sprintf("%s: %x vs %x", p, a.Bytes(), b.Bytes())
		}
	default:
		if !a.Equal(b) {
			return cls, fmt.Sprintf("%s: %v vs %v", p, a.Interface(), b.Interface())
		}
	}
	return "", ""
}

func (q *Equiv) anyDiff(a, b protoreflect.Message, p string) (string, string) {
	ta, pa, ja := AnyParts(a)
	tb, pb, jb := AnyParts(b)
	if ta != tb {
		return "value:any-type", fmt.Sprintf("%s: any type %q vs %q", p, ta, tb)
	}
	if ja != nil && jb != nil && q.DecodeJSON != nil {
		ia, e1 := q.DecodeJSON(ta, ja)
		ib, e2 := q.DecodeJSON(tb, jb)
		if e1 != nil || e2 != nil {
			return "value:any-json", fmt.Sprintf("%s: any j5_json does not decode: %v / %v", p, e1, e2)
		}
		return q.Diff(ia, ib, p+".<any>")
	}
	if ja != nil && jb != nil {
		va, e1 := jx.Parse(ja)
		vb, e2 := jx.Parse(jb)
		if e1 != nil || e2 != nil {
			return "value:any-json", fmt.Sprintf("%s: any j5_json unparsable: %v / %v", p, e1, e2)
		}
		if d := jx.Diff(va, vb, p+".j5_json"); d != "" {
			return "value:any-json", d
		}
		return "", ""
	}
	// the proto encoding of a message without populated fields is empty, which
	// proto3 cannot tell from "unset": an absent payload is an empty payload
	if ja == nil && q.Types != nil {
		mt, err := q.Types.FindMessageByName(protoreflect.FullName(ta))
		if err != nil {
			return "value:any-unresolved", fmt.Sprintf("%s: %v", p, err)
		}
		ia, ib := mt.New(), mt.New()
		if err := proto.Unmarshal(pa, ia.Interface()); err != nil {
			return "value:any-proto", fmt.Sprintf("%s: original payload: %v", p, err)
		}
		if err := proto.Unmarshal(pb, ib.Interface()); err != nil {
			return "value:any-proto", fmt.Sprintf("%s: decoded payload: %v", p, err)
		}
		return q.Diff(ia, ib, p+".<any>")
	}
	return "value:any-payload", fmt.Sprintf("%s: payload forms differ: proto %v/%v json %v/%v", p, pa != nil, pb != nil, ja != nil, jb != nil)
}

// NewDynamic is a helper: fresh dynamic message of md.
func NewDynamic(md protoreflect.MessageDescriptor) *dynamicpb.Message {
	return dynamicpb.NewMessage(md)
}
