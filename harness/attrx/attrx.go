// Package attrx draws a valid generated j5s file with one more attribute written
// into one of its blocks. The attribute is found the way a user finds it: an
// unknown name is written into the block, the parser's error lists what the block
// accepts, one of those names is taken (or probed one level deeper, up to three
// levels), and up to four values are tried until the compiler accepts one. This
// reaches every attribute of the language definition (the sourcedef / schema
// messages the parser maps blocks onto), most of which the README never mentions,
// without a hand-written dictionary.
package attrx

import (
	"fmt"
	"regexp"
	"strings"

	"github.com/pentops/j5/internal/bcl/internal/verif/j5sgen"
	"github.com/pentops/j5/internal/bcl/internal/verif/j5sx"
	"github.com/pentops/j5/internal/bcl/internal/verif/vf"
	"pgregory.net/rapid"
)

var availRe = regexp.MustCompile(`(?:available: |expecting )\[([^\]]*)\]`)

// offered returns the attribute names the compiler's error offers for a probe.
func offered(text, file string) []string {
	b := &j5sx.Bundle{Files: map[string]string{file: text}}
	var err error
	if f := vf.Guard("probe", func() { _, err = j5sx.Compile(b, j5sx.PackageOf(file)) }); f != nil || err == nil {
		return nil
	}
	m := availRe.FindAllStringSubmatch(err.Error(), -1)
	seen := map[string]bool{}
	var out []string
	for _, g := range m {
		for _, n := range strings.Fields(g[1]) {
			n = strings.Trim(n, `"`)
			if n != "" && !seen[n] {
				seen[n] = true
				out = append(out, n)
			}
		}
	}
	return out
}

var values = []string{`"x"`, `""`, `5`, `0`, `-1`, `1.5`, `true`, `false`, `["a"]`, `["a", "b"]`, `[1, 2]`, `[]`, `name`, `alpha.beta.v1.Thing`, `"alpha.beta.v1.Thing"`, `GET`, `"😀"`, `99999999999999999999`}

func insertAfter(lines []string, at int, line string) string {
	out := append(append(append([]string(nil), lines[:at+1]...), line), lines[at+1:]...)
	return strings.Join(out, "\n")
}

// Result of a draw.
type Result struct {
	File, Text string // the one source file of the package
	Package    string
	BlockKind  string // first word of the block's header line
	BlockHead  string
	Path       string // the attribute path written
	Statement  string
	Depth      int  // levels found through the parser's offers (0: fallback name)
	Accepted   bool // the package compiles with the statement
	Classes    []string
}

// Draw returns ok=false when the generated file has no block.
func Draw(t *rapid.T) (res Result, ok bool) {
	o := j5sgen.DefaultOpts()
	o.MaxPackages, o.MaxFiles = 1, 1
	o.Entities = true
	b, _ := j5sgen.Draw(t, o)
	var file, text string
	for k, v := range b.Render() {
		file, text = k, v
	}
	lines := strings.Split(text, "\n")
	var opens []int
	for i, l := range lines {
		if strings.HasSuffix(strings.TrimSpace(l), "{") {
			opens = append(opens, i)
		}
	}
	if len(opens) == 0 {
		return res, false
	}
	// by kind first: fields and objects outnumber everything else
	byKind := map[string][]int{}
	var kinds []string
	for _, i := range opens {
		k := strings.Fields(lines[i])[0]
		if byKind[k] == nil {
			kinds = append(kinds, k)
		}
		byKind[k] = append(byKind[k], i)
	}
	blockKind := rapid.SampledFrom(kinds).Draw(t, "blockkind")
	at := rapid.SampledFrom(byKind[blockKind]).Draw(t, "block")
	indent := lines[at][:len(lines[at])-len(strings.TrimLeft(lines[at], "\t "))] + "\t"
	path := ""
	depth := 0
	for depth < 3 {
		probe := "zzzProbe"
		if path != "" {
			probe = path + ".zzzProbe"
		}
		names := offered(insertAfter(lines, at, indent+probe+" = 1"), file)
		if len(names) == 0 {
			break
		}
		n := rapid.SampledFrom(names).Draw(t, "attr")
		if path == "" {
			path = n
		} else {
			path += "." + n
		}
		depth++
		if rapid.IntRange(0, 2).Draw(t, "deeper") == 0 {
			break // otherwise one level deeper, while the parser offers names
		}
	}
	if path == "" {
		// the block offers nothing (or the probe was accepted): any name
		path = rapid.SampledFrom([]string{"description", "name", "options", "rules", "ext", "zzz"}).Draw(t, "anyattr")
	}
	compiles := func(stmt string) bool {
		bb := &j5sx.Bundle{Files: map[string]string{file: insertAfter(lines, at, stmt)}}
		var err error
		f := vf.Guard("probe", func() { _, err = j5sx.Compile(bb, j5sx.PackageOf(file)) })
		return f == nil && err == nil
	}
	var stmt string
	accepted := false
	switch rapid.IntRange(0, 5).Draw(t, "form") {
	case 0: // as a block
		stmt = indent + path + " {\n" + indent + "}"
		accepted = compiles(stmt)
	case 1: // as a bare flag / tag
		stmt = indent + path
		accepted = compiles(stmt)
	default:
		// up to four values in a drawn order; the first the compiler accepts is
		// kept (an assignment of the right type goes further into the converter
		// than one the parser turns away), otherwise the last tried
		for _, v := range rapid.Permutation(values).Draw(t, "values")[:4] {
			stmt = indent + path + " = " + v
			if compiles(stmt) {
				accepted = true
				break
			}
		}
	}
	first := path
	if i := strings.Index(path, "."); i >= 0 {
		first = path[:i]
	}
	verdict := "assignment:rejected"
	if accepted {
		verdict = "assignment:accepted"
	}
	return Result{
		File: file, Text: insertAfter(lines, at, stmt), Package: j5sx.PackageOf(file),
		BlockKind: blockKind, BlockHead: strings.TrimSpace(lines[at]), Path: path, Statement: strings.TrimSpace(stmt),
		Depth: depth, Accepted: accepted,
		Classes: []string{"block:" + blockKind, fmt.Sprintf("depth:%d", depth), "attr:" + first, verdict},
	}, true
}
