package main

import (
	"fmt"
	"sort"

	"github.com/bufbuild/protocompile/linker"
	"github.com/pentops/j5/internal/bcl/internal/verif/j5sgen"
	"github.com/pentops/j5/lib/j5schema"
	"google.golang.org/protobuf/reflect/protoreflect"
	"google.golang.org/protobuf/reflect/protoregistry"
)

func dumpSchemas(files linker.Files) {
	reg := &protoregistry.Files{}
	mine := map[string]bool{}
	for _, f := range files {
		_ = reg.RegisterFile(f)
		mine[f.Path()] = true
	}
	set, err := j5schema.SchemaSetFromFiles(reg, func(fd protoreflect.FileDescriptor) bool { return mine[fd.Path()] })
	if err != nil {
		fmt.Println("SCHEMA ERROR:", err)
		return
	}
	var pkgs []string
	for p := range set.Packages {
		pkgs = append(pkgs, p)
	}
	sort.Strings(pkgs)
	for _, p := range pkgs {
		var names []string
		for n := range set.Packages[p].Schemas {
			names = append(names, n)
		}
		sort.Strings(names)
		for _, n := range names {
			ref := set.Packages[p].Schemas[n]
			if ref.To == nil {
				fmt.Println("UNLINKED", p, n)
				continue
			}
			for _, l := range j5sgen.SchemaLines(p, ref.To.ToJ5Root()) {
				fmt.Println(l)
			}
		}
	}
}
