// j5sc compiles a directory tree of .j5s/.proto files (a bundle root) and prints
// the generated proto for one package: a playground for reading the compiler.
//
//	go run ./cmd/j5sc <dir> <package>
package main

import (
	"fmt"
	"os"
	"path/filepath"
	"strings"

	"github.com/pentops/j5/internal/bcl/errpos"
	"github.com/pentops/j5/internal/bcl/internal/verif/j5sx"
)

func main() {
	root := os.Args[1]
	b := &j5sx.Bundle{Files: map[string]string{}}
	_ = filepath.Walk(root, func(p string, info os.FileInfo, err error) error {
		if err != nil || info.IsDir() {
			return nil
		}
		if strings.HasSuffix(p, ".j5s") || strings.HasSuffix(p, ".proto") {
			rel, _ := filepath.Rel(root, p)
			data, _ := os.ReadFile(p)
			b.Files[rel] = string(data)
		}
		return nil
	})
	files, err := j5sx.Compile(b, os.Args[2])
	if err != nil {
		fmt.Println("ERROR:", err)
		if ews, ok := errpos.AsErrorsWithSource(err); ok {
			fmt.Println(ews.HumanString(2))
		}
		os.Exit(1)
	}
	if len(os.Args) > 3 && os.Args[3] == "schema" {
		dumpSchemas(files)
		return
	}
	for _, f := range files {
		out, err := j5sx.Print(f)
		fmt.Printf("==== %s (err=%v)\n%s\n", f.Path(), err, out)
	}
}
