// pbdump prints a FileDescriptorProto (binary file argument, or the files of a
// replay JSON given with -replay) as text; a debugging aid.
package main

import (
	"encoding/base64"
	"encoding/json"
	"fmt"
	"os"

	_ "buf.build/gen/go/bufbuild/protovalidate/protocolbuffers/go/buf/validate"
	_ "github.com/pentops/j5/gen/j5/ext/v1/ext_j5pb"
	_ "github.com/pentops/j5/gen/j5/list/v1/list_j5pb"
	"google.golang.org/protobuf/encoding/prototext"
	"google.golang.org/protobuf/proto"
	"google.golang.org/protobuf/types/descriptorpb"
)

func main() {
	b, err := os.ReadFile(os.Args[1])
	if err != nil {
		panic(err)
	}
	var rf struct {
		Case struct {
			Files []string `json:"files_b64"`
		} `json:"case"`
	}
	if json.Unmarshal(b, &rf) == nil && len(rf.Case.Files) > 0 {
		for _, f := range rf.Case.Files {
			raw, _ := base64.StdEncoding.DecodeString(f)
			fd := &descriptorpb.FileDescriptorProto{}
			if err := proto.Unmarshal(raw, fd); err != nil {
				panic(err)
			}
			fd.Dependency = nil
			fmt.Println(prototext.MarshalOptions{Multiline: true, Indent: " "}.Format(fd))
		}
		return
	}
	fd := &descriptorpb.FileDescriptorProto{}
	if err := proto.Unmarshal(b, fd); err != nil {
		panic(err)
	}
	fmt.Println(prototext.MarshalOptions{Multiline: true, Indent: " "}.Format(fd))
}
