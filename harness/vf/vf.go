// Package vf is the shared runtime of the /verif property checks: it counts what a
// run explored, journals cases, filters known findings, saves replay files and
// writes the per-process result the driver merges into evidence.
package vf

import (
	"bytes"
	"context"
	"crypto/sha256"
	"encoding/binary"
	"encoding/hex"
	"encoding/json"
	"fmt"
	"hash/fnv"
	"os"
	"os/exec"
	"path/filepath"
	"regexp"
	"runtime/debug"
	"sort"
	"strconv"
	"strings"
	"sync"
	"testing"
	"time"
)

// Failure is one violated obligation of one case. Key is structural (never free
// text): "<class>|<site-or-path>"; the property id is prefixed by the Run.
type Failure struct {
	Key    string `json:"key"`
	Detail string `json:"detail"`
}

func Failf(key, format string, args ...any) Failure {
	d := fmt.Sprintf(format, args...)
	if len(d) > 2000 {
		d = d[:2000] + "…"
	}
	return Failure{Key: key, Detail: d}
}

type Finding struct {
	Property    string `json:"property"`
	Status      string `json:"status"` // open | fixed
	Key         string `json:"key"`
	Lane        string `json:"lane,omitempty"`
	Witness     string `json:"witness,omitempty"`
	Commit      string `json:"commit,omitempty"`
	Description string `json:"description"`
}

type findingsFile struct {
	Findings []Finding `json:"findings"`
}

// ReplayFile is the on-disk form of one case.
type ReplayFile struct {
	Property string          `json:"property"`
	Lane     string          `json:"lane"`
	Keys     []string        `json:"keys,omitempty"`
	Detail   string          `json:"detail,omitempty"`
	Case     json.RawMessage `json:"case"`
}

type Violation struct {
	Lane   string   `json:"lane"`
	Keys   []string `json:"keys"`
	Detail string   `json:"detail"`
	Replay string   `json:"replay"`
}

type Result struct {
	Property    string         `json:"property"`
	Lane        string         `json:"lane"`
	Tier        string         `json:"tier"`
	Seed        int64          `json:"seed"`
	Shard       int            `json:"shard"`
	Evaluations int            `json:"evaluations"`
	NonTrivial  int            `json:"nontrivial"`
	Distinct    int            `json:"distinct_nontrivial"`
	Classes     map[string]int `json:"classes"`
	Excluded    map[string]int `json:"excluded_by_finding"`
	Discarded   int            `json:"discarded"`
	Samples     []any          `json:"samples"`
	Violations  []Violation    `json:"violations"`
	Known       []string       `json:"known_findings_reproduced"`
	Exhaustive  bool           `json:"exhaustive"`
	Notes       []string       `json:"notes,omitempty"`
	WallS       float64        `json:"wall_s"`
	Completed   bool           `json:"completed"`
}

// Run collects everything about one lane in one process.
type Run struct {
	Prop, Lane, Tier string
	Seed             int64
	Shard, Shards    int
	Root             string // /verif

	mu        sync.Mutex
	start     time.Time
	evals     int
	nontriv   int
	distinct  map[uint64]struct{}
	classes   map[string]int
	excluded  map[string]int
	discarded int
	samples   []any
	sampleCap int
	viol      []Violation
	known     map[string]Finding
	knownHit  map[string]bool
	notes     []string
	exh       bool
	journal   string
	outPath   string
	lastFail  *ReplayFile

	// confirmFresh: a failing case counts only if it also fails in a fresh process
	// (see ConfirmFresh); unconfirmed holds the first one that did not.
	confirmFresh bool
	unconfirmed  *ReplayFile
	nconfirm     int
}

// ConfirmFresh (the default since round 5; the call remains where a lane's
// reason for it is worth stating) makes Judge re-run every failing case in a fresh child process
// (the same test binary in replay mode) before it counts. For lanes whose
// property is a statement about one case: code under test that keeps state across
// calls in one process can make a case fail only because of the cases before it.
// Such a failure cannot be replayed from its case alone, and reported first it
// would hide a failure of the same cause that can (the search stops at the first).
// It is not dropped: if the lane ends without a confirmed failure, the first
// unconfirmed one is committed, and the driver's own replay then reports the run
// as inconclusive, exactly as without this option.
func (r *Run) ConfirmFresh() { r.confirmFresh = true }

func (r *Run) failsFresh(c any, rest []Failure) bool {
	if os.Getenv("VERIF_REPLAY") != "" || os.Getenv("VERIF_NO_CONFIRM") == "1" {
		return true
	}
	b, _ := json.Marshal(c)
	rf := &ReplayFile{Property: r.Prop, Lane: r.Lane, Keys: []string{rest[0].Key}, Detail: rest[0].Detail, Case: b}
	out, _ := json.Marshal(rf)
	r.mu.Lock()
	r.nconfirm++
	n := r.nconfirm
	r.mu.Unlock()
	tmp := fmt.Sprintf("%s.confirm-%d-%d.json", strings.TrimSuffix(r.outPath, ".json"), os.Getpid(), n)
	if err := os.WriteFile(tmp, out, 0o644); err != nil {
		return true
	}
	defer os.Remove(tmp)
	ctx, cancel := context.WithTimeout(context.Background(), 10*time.Minute)
	defer cancel()
	cmd := exec.CommandContext(ctx, os.Args[0], "-test.run", "^TestReplay$", "-test.count=1")
	cmd.Env = append(os.Environ(), "VERIF_REPLAY="+tmp)
	res, err := cmd.CombinedOutput()
	if err == nil && bytes.Contains(res, []byte("REPLAY-OK ")) {
		r.mu.Lock()
		r.classes["failed-only-after-earlier-cases"]++
		if r.unconfirmed == nil {
			r.unconfirmed = &ReplayFile{Property: r.Prop, Lane: r.Lane, Keys: []string{rest[0].Key}, Detail: rest[0].Detail, Case: b}
			r.notes = append(r.notes, "a case failed in this process but not in a fresh one (state kept across cases): ["+rest[0].Key+"] "+oneLine(rest[0].Detail))
		}
		r.mu.Unlock()
		return false
	}
	// anything else - it fails there too, it crashes, it cannot be run - counts
	return true
}

func envInt(k string, d int) int {
	if v := os.Getenv(k); v != "" {
		if n, err := strconv.Atoi(v); err == nil {
			return n
		}
	}
	return d
}

func RootDir() string {
	if r := os.Getenv("VERIF_ROOT"); r != "" {
		return r
	}
	return "/verif"
}

func Tier() string {
	if t := os.Getenv("VERIF_TIER"); t == "thorough" {
		return "thorough"
	}
	return "quick"
}

// N returns the per-process case budget: VERIF_N if set, else by tier.
func N(quick, thorough int) int {
	if n := envInt("VERIF_N", 0); n > 0 {
		return n
	}
	if Tier() == "thorough" {
		return thorough
	}
	return quick
}

// Start opens a run for property/lane and registers the result writer.
func Start(t testing.TB, prop, lane string) *Run {
	r := &Run{
		Prop: prop, Lane: lane, Tier: Tier(),
		Seed:      int64(envInt("VERIF_SEED", 1)),
		Shard:     envInt("VERIF_SHARD", 0),
		Shards:    envInt("VERIF_SHARDS", 1),
		Root:      RootDir(),
		start:     time.Now(),
		distinct:  map[uint64]struct{}{},
		classes:   map[string]int{},
		excluded:  map[string]int{},
		known:     map[string]Finding{},
		knownHit:  map[string]bool{},
		sampleCap: 4,
		// on for every lane (see ConfirmFresh): it costs nothing until a case fails
		confirmFresh: os.Getenv("VERIF_NO_CONFIRM") != "1",
	}
	outDir := os.Getenv("VERIF_OUT")
	if outDir == "" {
		outDir = filepath.Join(r.Root, ".build", "out")
	}
	_ = os.MkdirAll(outDir, 0o755)
	base := fmt.Sprintf("%s.%s.%d", prop, lane, r.Shard)
	r.outPath = filepath.Join(outDir, base+".json")
	r.journal = filepath.Join(outDir, base+".journal.json")
	_ = os.Remove(r.outPath)
	_ = os.Remove(r.journal)
	for _, f := range LoadFindings(r.Root) {
		if f.Property == prop && f.Status == "open" {
			r.known[f.Key] = f
		}
	}
	t.Cleanup(func() {
		r.Commit()
		r.mu.Lock()
		nv := len(r.viol)
		r.mu.Unlock()
		r.write(!t.Failed() || nv > 0)
	})
	return r
}

func LoadFindings(root string) []Finding {
	b, err := os.ReadFile(filepath.Join(root, "known_findings.json"))
	if err != nil {
		return nil
	}
	var ff findingsFile
	if err := json.Unmarshal(b, &ff); err != nil {
		panic("known_findings.json: " + err.Error())
	}
	return ff.Findings
}

// IsKnown reports whether key is an open finding of this property.
func (r *Run) IsKnown(key string) bool {
	_, ok := r.known[key]
	return ok
}

func (r *Run) Note(format string, args ...any) {
	r.mu.Lock()
	defer r.mu.Unlock()
	r.notes = append(r.notes, fmt.Sprintf(format, args...))
}

func (r *Run) SetExhaustive() { r.exh = true }

// Journal writes the case about to run, so that a fatal error that kills the
// process can be attributed by the driver.
func (r *Run) Journal(c any) {
	b, err := json.Marshal(c)
	if err != nil {
		return
	}
	rf := ReplayFile{Property: r.Prop, Lane: r.Lane, Case: b}
	out, _ := json.Marshal(rf)
	_ = os.WriteFile(r.journal, out, 0o644)
}

// Eval records one evaluated case. hashParts identify the case for the distinct
// count; nontrivial is the property's stated rule; classes feed the histogram.
func (r *Run) Eval(nontrivial bool, hash uint64, classes ...string) {
	r.mu.Lock()
	defer r.mu.Unlock()
	r.evals++
	if nontrivial {
		r.nontriv++
		r.distinct[hash] = struct{}{}
	}
	for _, c := range classes {
		r.classes[c]++
	}
}

func (r *Run) Class(c string) {
	r.mu.Lock()
	r.classes[c]++
	r.mu.Unlock()
}

func (r *Run) ClassN(c string, n int) {
	r.mu.Lock()
	r.classes[c] += n
	r.mu.Unlock()
}

func (r *Run) Discard() {
	r.mu.Lock()
	r.discarded++
	r.mu.Unlock()
}

// Sample keeps up to a few cases verbatim; later non-trivial ones replace
// nothing (first N kept) so the output is stable for a given seed.
func (r *Run) Sample(v any) {
	r.mu.Lock()
	defer r.mu.Unlock()
	if len(r.samples) < r.sampleCap {
		r.samples = append(r.samples, v)
	}
}

func (r *Run) WantSample() bool {
	r.mu.Lock()
	defer r.mu.Unlock()
	return len(r.samples) < r.sampleCap
}

func Hash(parts ...any) uint64 {
	h := fnv.New64a()
	for _, p := range parts {
		switch v := p.(type) {
		case string:
			h.Write([]byte(v))
		case []byte:
			h.Write(v)
		default:
			b, _ := json.Marshal(v)
			h.Write(b)
		}
		h.Write([]byte{0})
	}
	return h.Sum64()
}

// TB is the subset of *rapid.T / *testing.T Judge needs.
type TB interface {
	Fatalf(format string, args ...any)
	Logf(format string, args ...any)
}

// Filter removes failures that are open known findings (counting them) and
// returns the rest.
func (r *Run) Filter(fails []Failure) []Failure {
	if len(fails) == 0 {
		return nil
	}
	var rest []Failure
	r.mu.Lock()
	defer r.mu.Unlock()
	for _, f := range fails {
		if _, ok := r.known[f.Key]; ok {
			r.excluded[f.Key]++
			continue
		}
		rest = append(rest, f)
	}
	return rest
}

// Judge is called once per case with all failures found. Unlisted failures are
// recorded as the pending violation (the last one recorded before rapid gives up
// shrinking is the minimal one) and fail the rapid case.
func (r *Run) Judge(t TB, c any, fails []Failure) {
	rest := r.Filter(fails)
	if len(rest) == 0 {
		return
	}
	if os.Getenv("VERIF_COLLECT") == "1" {
		// survey mode (development only): record one violation per distinct key and keep going
		for _, f := range rest {
			r.mu.Lock()
			seen := r.excluded["collect:"+f.Key] > 0
			r.excluded["collect:"+f.Key]++
			r.mu.Unlock()
			if !seen {
				r.recordFail(c, []Failure{f})
				r.Commit()
			}
		}
		return
	}
	if r.confirmFresh && !strings.HasPrefix(rest[0].Key, "hang|") && !r.failsFresh(c, rest) {
		return
	}
	r.recordFail(c, rest)
	r.exitIfHung(rest)
	t.Fatalf("%s/%s: %d failure(s); first: [%s] %s", r.Prop, r.Lane, len(rest), rest[0].Key, rest[0].Detail)
}

// exitIfHung ends the process once a call has been abandoned by the watchdog:
// the abandoned goroutine keeps running (and may keep allocating), so neither
// shrinking nor further cases are meaningful in this process. The violation is
// committed and the result file written first; the driver confirms it by replay
// in a fresh process.
func (r *Run) exitIfHung(rest []Failure) {
	for _, f := range rest {
		if strings.HasPrefix(f.Key, "hang|") {
			r.Commit()
			r.write(true)
			fmt.Fprintf(os.Stderr, "%s/%s: call abandoned by the watchdog, ending the process: [%s] %s\n", r.Prop, r.Lane, f.Key, oneLine(f.Detail))
			os.Exit(1)
		}
	}
}

// JudgeNoFatal records a violation without aborting (for enumerations that should
// continue past a failure). Each distinct key set is saved once.
func (r *Run) JudgeNoFatal(c any, fails []Failure) bool {
	rest := r.Filter(fails)
	if len(rest) == 0 {
		return true
	}
	r.recordFail(c, rest)
	r.Commit()
	r.exitIfHung(rest)
	return false
}

func (r *Run) recordFail(c any, rest []Failure) {
	b, _ := json.Marshal(c)
	keys := make([]string, 0, len(rest))
	seen := map[string]bool{}
	for _, f := range rest {
		if !seen[f.Key] {
			seen[f.Key] = true
			keys = append(keys, f.Key)
		}
	}
	sort.Strings(keys)
	r.mu.Lock()
	r.lastFail = &ReplayFile{Property: r.Prop, Lane: r.Lane, Keys: keys, Detail: rest[0].Detail, Case: b}
	r.mu.Unlock()
}

// Commit turns the pending (last, i.e. shrunk) failing case into a violation with
// a replay file. Called after rapid.Check returns, or by JudgeNoFatal.
func (r *Run) Commit() {
	r.mu.Lock()
	defer r.mu.Unlock()
	if r.lastFail == nil && len(r.viol) == 0 && r.unconfirmed != nil {
		r.lastFail, r.unconfirmed = r.unconfirmed, nil
	}
	if r.lastFail == nil {
		return
	}
	rf := r.lastFail
	r.lastFail = nil
	// one violation per key set
	ks := strings.Join(rf.Keys, ",")
	for _, v := range r.viol {
		if strings.Join(v.Keys, ",") == ks {
			return
		}
	}
	out, _ := json.MarshalIndent(rf, "", " ")
	sum := sha256.Sum256(out)
	dir := os.Getenv("VERIF_REPLAY_DIR")
	if dir == "" {
		dir = filepath.Join(r.Root, "replays", r.Prop)
	}
	_ = os.MkdirAll(dir, 0o755)
	p := filepath.Join(dir, r.Lane+"-"+hex.EncodeToString(sum[:6])+".json")
	_ = os.WriteFile(p, out, 0o644)
	r.viol = append(r.viol, Violation{Lane: r.Lane, Keys: rf.Keys, Detail: rf.Detail, Replay: p})
}

func (r *Run) KnownReproduced(key string) {
	r.mu.Lock()
	r.knownHit[key] = true
	r.mu.Unlock()
}

func (r *Run) write(completed bool) {
	r.mu.Lock()
	defer r.mu.Unlock()
	res := Result{
		Property: r.Prop, Lane: r.Lane, Tier: r.Tier, Seed: r.Seed, Shard: r.Shard,
		Evaluations: r.evals, NonTrivial: r.nontriv, Distinct: len(r.distinct),
		Classes: r.classes, Excluded: r.excluded, Discarded: r.discarded,
		Samples: r.samples, Violations: r.viol, Exhaustive: r.exh, Notes: r.notes,
		WallS: time.Since(r.start).Seconds(), Completed: completed,
	}
	for k := range r.knownHit {
		res.Known = append(res.Known, k)
	}
	sort.Strings(res.Known)
	b, _ := json.MarshalIndent(res, "", " ")
	_ = os.WriteFile(r.outPath, b, 0o644)
	// distinct hashes for cross-shard union
	hb := make([]byte, 0, 8*len(r.distinct))
	for h := range r.distinct {
		hb = binary.LittleEndian.AppendUint64(hb, h)
	}
	_ = os.WriteFile(strings.TrimSuffix(r.outPath, ".json")+".hashes", hb, 0o644)
	_ = os.Remove(r.journal)
}

// ---------------------------------------------------------------------------
// panics and hangs

var frameRe = regexp.MustCompile(`(?m)^(github\.com/pentops/j5/[^\s(]+(?:\([^)]*\))?[^\s(]*)\(`)

// PanicSite extracts the first stack frame inside pentops/j5 that is not the
// harness itself. Function name only, so unrelated edits do not move it.
func PanicSite(stack []byte) string {
	for _, m := range frameRe.FindAllSubmatch(stack, -1) {
		fn := string(m[1])
		if strings.Contains(fn, "/internal/bcl/internal/verif") {
			continue
		}
		fn = strings.TrimPrefix(fn, "github.com/pentops/j5/")
		// strip closure suffixes .func1.2
		fn = regexp.MustCompile(`(\.func\d+)+(\.\d+)*$`).ReplaceAllString(fn, "")
		return fn
	}
	return "unknown"
}

// frames lists the first n pentops/j5 frames (function:line) of a stack.
func frames(stack []byte, n int) []string {
	lines := strings.Split(string(stack), "\n")
	var out []string
	for i := 0; i+1 < len(lines) && len(out) < n; i++ {
		l := lines[i]
		if !strings.HasPrefix(l, "github.com/pentops/j5/") || strings.Contains(l, "/internal/bcl/internal/verif") {
			continue
		}
		fn := l
		if k := strings.LastIndex(fn, "("); k > 0 {
			fn = fn[:k]
		}
		fn = strings.TrimPrefix(fn, "github.com/pentops/j5/")
		loc := strings.TrimSpace(lines[i+1])
		if k := strings.Index(loc, " "); k > 0 {
			loc = loc[:k]
		}
		if k := strings.LastIndex(loc, "/"); k >= 0 {
			loc = loc[k+1:]
		}
		out = append(out, fn+"@"+loc)
	}
	return out
}

// Guard runs f, converting a panic into a Failure.
func Guard(what string, f func()) (fail *Failure) {
	defer func() {
		if rec := recover(); rec != nil {
			st := debug.Stack()
			site := PanicSite(st)
			fl := Failf("panic|"+site+"|"+ErrClass(fmt.Errorf("%v", rec)), "%s: panic: %v\nframes: %s", what, rec, strings.Join(frames(st, 6), " <- "))
			fail = &fl
		}
	}()
	f()
	return nil
}

// GuardTimed is Guard with a watchdog: if f has not returned after limit the
// goroutine is abandoned and a hang failure is returned.
func GuardTimed(what string, limit time.Duration, f func()) *Failure {
	done := make(chan *Failure, 1)
	go func() {
		done <- Guard(what, f)
	}()
	select {
	case fl := <-done:
		return fl
	case <-time.After(limit):
		fl := Failf("hang|"+what, "%s: no return after %s", what, limit)
		return &fl
	}
}

// ---------------------------------------------------------------------------
// replay support

type LaneFunc func(raw json.RawMessage) ([]Failure, error)

// Replay executes a replay file through the lane table, bypassing generators.
func Replay(path string, lanes map[string]LaneFunc) (*ReplayFile, []Failure, error) {
	b, err := os.ReadFile(path)
	if err != nil {
		return nil, nil, err
	}
	var rf ReplayFile
	if err := json.Unmarshal(b, &rf); err != nil {
		return nil, nil, err
	}
	fn, ok := lanes[rf.Lane]
	if !ok {
		return &rf, nil, fmt.Errorf("unknown lane %q", rf.Lane)
	}
	fails, err := fn(rf.Case)
	return &rf, fails, err
}

// RunReplayMode handles VERIF_REPLAY (single file; prints failures, fails test if
// any unlisted) — used by `run <ID> --replay`.
func RunReplayMode(t *testing.T, prop string, lanes map[string]LaneFunc) bool {
	path := os.Getenv("VERIF_REPLAY")
	if path == "" {
		return false
	}
	rf, fails, err := Replay(path, lanes)
	if err != nil {
		t.Fatalf("replay %s: %v", path, err)
	}
	known := map[string]bool{}
	for _, f := range LoadFindings(RootDir()) {
		if f.Property == prop && f.Status == "open" {
			known[f.Key] = true
		}
	}
	bad := 0
	for _, f := range fails {
		tag := "FAIL"
		if known[f.Key] {
			tag = "KNOWN"
		} else {
			bad++
		}
		fmt.Printf("REPLAY-%s property=%s lane=%s key=%s detail=%s\n", tag, prop, rf.Lane, f.Key, oneLine(f.Detail))
	}
	if bad > 0 {
		fmt.Printf("VIOLATION property=%s replay=%s\n", prop, path)
		t.Fail()
	} else {
		fmt.Printf("REPLAY-OK property=%s lane=%s failures=%d (all listed)\n", prop, rf.Lane, len(fails))
	}
	return true
}

func oneLine(s string) string {
	s = strings.ReplaceAll(s, "\n", "\\n")
	if len(s) > 600 {
		s = s[:600] + "…"
	}
	return s
}

// Witnesses re-executes, for this property, every open finding's witness and
// every saved regression replay under replays/<prop>/ whose lane is in lanes.
// Open findings that still reproduce are reported through the result; saved
// replays that fail with unlisted keys become violations.
func Witnesses(t *testing.T, prop string, lanes map[string]LaneFunc) {
	r := Start(t, prop, "witness")
	root := r.Root
	for _, f := range LoadFindings(root) {
		if f.Property != prop || f.Status != "open" || f.Witness == "" {
			continue
		}
		p := f.Witness
		if !filepath.IsAbs(p) {
			p = filepath.Join(root, p)
		}
		_, fails, err := Replay(p, lanes)
		if err != nil {
			r.Note("witness %s: %v", f.Witness, err)
			continue
		}
		r.Eval(false, 0, "witness")
		for _, fl := range fails {
			if fl.Key == f.Key {
				r.KnownReproduced(f.Key)
			}
		}
		// anything else the witness shows must itself be listed
		r.JudgeNoFatal(json.RawMessage(mustRead(p)), fails)
	}
	dir := filepath.Join(root, "regress", prop)
	ents, _ := os.ReadDir(dir)
	for _, e := range ents {
		if !strings.HasSuffix(e.Name(), ".json") {
			continue
		}
		p := filepath.Join(dir, e.Name())
		rf, fails, err := Replay(p, lanes)
		if err != nil {
			r.Note("regress %s: %v", e.Name(), err)
			continue
		}
		r.Eval(false, 0, "regress")
		rest := r.Filter(fails)
		if len(rest) > 0 {
			r.mu.Lock()
			keys := []string{}
			for _, f := range rest {
				keys = append(keys, f.Key)
			}
			r.viol = append(r.viol, Violation{Lane: rf.Lane, Keys: keys, Detail: rest[0].Detail, Replay: p})
			r.mu.Unlock()
		}
	}
	if len(r.viol) > 0 {
		t.Fail()
	}
}

func mustRead(p string) []byte {
	b, _ := os.ReadFile(p)
	var rf ReplayFile
	if json.Unmarshal(b, &rf) == nil {
		return rf.Case
	}
	return b
}

var (
	reQuoted = regexp.MustCompile("\"[^\"]*\"|'[^']*'|`[^`]*`")
	reNum    = regexp.MustCompile(`-?\b\d+(\.\d+)?\b`)
	reIdent  = regexp.MustCompile(`\b[a-zA-Z_][\w]*(\.[\w]+)+\b`)
	reSpace  = regexp.MustCompile(`\s+`)
	reFile   = regexp.MustCompile(`[\w./-]+\.(proto|j5s)(:\d+(:\d+)?)?`)
	reGoType = regexp.MustCompile(`\*[a-z][a-z0-9_]*\.[A-Z][A-Za-z0-9_]*`)
)

// ErrClass collapses an error message into a coarse class for finding keys:
// quoted text, numbers and dotted identifiers are replaced by placeholders.
func ErrClass(err error) string {
	if err == nil {
		return "nil"
	}
	s := err.Error()
	// protobuf-go randomises "proto: " vs "proto:\u00a0" per binary on purpose
	s = strings.ReplaceAll(s, "\u00a0", " ")
	s = reQuoted.ReplaceAllString(s, "Q")
	s = reFile.ReplaceAllString(s, "FILE")
	// Go type names (*pkg.Type) are structural: keep them
	types := reGoType.FindAllString(s, -1)
	s = reGoType.ReplaceAllString(s, "\x00")
	s = reIdent.ReplaceAllString(s, "ID")
	for _, ty := range types {
		s = strings.Replace(s, "\x00", ty, 1)
	}
	s = reNum.ReplaceAllString(s, "N")
	s = reSpace.ReplaceAllString(s, " ")
	if len(s) > 90 {
		// the root cause is at the end of a wrapped error chain
		s = "…" + s[len(s)-90:]
	}
	return s
}

// ReadFuzzInput parses a Go native-fuzz corpus file ("go test fuzz v1") into its
// argument values (string, int, []byte), so that a crasher found by `-fuzz` can be
// pushed through the same Judge / replay path as every other lane.
func ReadFuzzInput(path string) ([]any, error) {
	data, err := os.ReadFile(path)
	if err != nil {
		return nil, err
	}
	lines := strings.Split(strings.TrimRight(string(data), "\n"), "\n")
	if len(lines) == 0 || !strings.HasPrefix(lines[0], "go test fuzz v1") {
		return nil, fmt.Errorf("%s: not a go fuzz corpus file", path)
	}
	var out []any
	for _, ln := range lines[1:] {
		ln = strings.TrimSpace(ln)
		switch {
		case strings.HasPrefix(ln, "string(") && strings.HasSuffix(ln, ")"):
			s, err := strconv.Unquote(ln[len("string(") : len(ln)-1])
			if err != nil {
				return nil, fmt.Errorf("%s: %q: %w", path, ln, err)
			}
			out = append(out, s)
		case strings.HasPrefix(ln, "[]byte(") && strings.HasSuffix(ln, ")"):
			s, err := strconv.Unquote(ln[len("[]byte(") : len(ln)-1])
			if err != nil {
				return nil, fmt.Errorf("%s: %q: %w", path, ln, err)
			}
			out = append(out, []byte(s))
		case strings.HasPrefix(ln, "int(") && strings.HasSuffix(ln, ")"):
			n, err := strconv.Atoi(ln[len("int(") : len(ln)-1])
			if err != nil {
				return nil, fmt.Errorf("%s: %q: %w", path, ln, err)
			}
			out = append(out, n)
		case ln == "":
		default:
			return nil, fmt.Errorf("%s: unsupported corpus line %q", path, ln)
		}
	}
	return out, nil
}

// FuzzInputs returns the corpus files named by VERIF_FUZZ_INPUT (colon separated).
func FuzzInputs() []string {
	v := os.Getenv("VERIF_FUZZ_INPUT")
	if v == "" {
		return nil
	}
	return strings.Split(v, ":")
}

// KnownOpen returns the keys of the open findings of a property (fuzz targets skip
// them so that the campaign continues behind a recorded finding).
func KnownOpen(prop string) map[string]bool {
	known := map[string]bool{}
	for _, kf := range LoadFindings(RootDir()) {
		if kf.Property == prop && kf.Status == "open" {
			known[kf.Key] = true
		}
	}
	return known
}
