package c05

import (
	"encoding/json"
	"fmt"
	"os"
	"path/filepath"
	"sort"
	"strings"
	"testing"
	"time"

	"github.com/bufbuild/protocompile/linker"
	"github.com/pentops/j5/internal/bcl/internal/verif/j5sgen"
	"github.com/pentops/j5/internal/bcl/internal/verif/j5sx"
	"github.com/pentops/j5/internal/bcl/internal/verif/vf"
	"google.golang.org/protobuf/proto"
	"google.golang.org/protobuf/reflect/protodesc"
	"google.golang.org/protobuf/reflect/protoreflect"
	"google.golang.org/protobuf/reflect/protoregistry"
	"google.golang.org/protobuf/types/descriptorpb"
	"pgregory.net/rapid"
)

const prop = "C05"

// printCase: j5s sources (compiled first) or raw proto sources (compiled by
// protocompile first); every resulting file is printed, re-parsed and compared.
type printCase struct {
	J5S   map[string]string `json:"j5s,omitempty"`
	Proto map[string]string `json:"proto,omitempty"`
	Only  []string          `json:"only,omitempty"` // proto lane: files to check
}

func laneCase(raw json.RawMessage) ([]vf.Failure, error) {
	var c printCase
	if err := json.Unmarshal(raw, &c); err != nil {
		return nil, err
	}
	fails, _ := check(c)
	return fails, nil
}

var lanes = map[string]vf.LaneFunc{"generated": laneCase, "repo": laneCase}

func TestReplay(t *testing.T) {
	if !vf.RunReplayMode(t, prop, lanes) {
		t.Skip("no VERIF_REPLAY")
	}
}

func TestWitness(t *testing.T) { vf.Witnesses(t, prop, lanes) }

const callLimit = 120 * time.Second

// normalise re-reads a file descriptor through one resolver so that options and
// extensions compare by value, clears source info, and sorts the parts whose
// order is not part of the statement.
func normalise(fd protoreflect.FileDescriptor) (*descriptorpb.FileDescriptorProto, error) {
	fdp := protodesc.ToFileDescriptorProto(fd)
	raw, err := proto.MarshalOptions{Deterministic: true}.Marshal(fdp)
	if err != nil {
		return nil, err
	}
	out := &descriptorpb.FileDescriptorProto{}
	if err := (proto.UnmarshalOptions{Resolver: protoregistry.GlobalTypes}).Unmarshal(raw, out); err != nil {
		return nil, err
	}
	out.SourceCodeInfo = nil
	sort.Strings(out.Dependency)
	out.PublicDependency, out.WeakDependency = nil, nil
	var normMsg func(m *descriptorpb.DescriptorProto)
	normMsg = func(m *descriptorpb.DescriptorProto) {
		// the statement compares real-oneof membership: drop synthetic oneofs
		// (proto3 optional) and their indices first
		synthetic := map[int32]bool{}
		for _, f := range m.Field {
			if f.GetProto3Optional() && f.OneofIndex != nil {
				synthetic[f.GetOneofIndex()] = true
				f.OneofIndex = nil
			}
		}
		if len(synthetic) > 0 {
			shift := map[int32]int32{}
			var kept []*descriptorpb.OneofDescriptorProto
			for i, o := range m.OneofDecl {
				if !synthetic[int32(i)] {
					shift[int32(i)] = int32(len(kept))
					kept = append(kept, o)
				}
			}
			m.OneofDecl = kept
			for _, f := range m.Field {
				if f.OneofIndex != nil {
					f.OneofIndex = proto.Int32(shift[f.GetOneofIndex()])
				}
			}
		}
		// oneof membership by name: rewrite indices after sorting declarations by name
		names := make([]string, len(m.OneofDecl))
		for i, o := range m.OneofDecl {
			names[i] = o.GetName()
		}
		order := make([]int, len(names))
		for i := range order {
			order[i] = i
		}
		sort.SliceStable(order, func(a, b int) bool { return names[order[a]] < names[order[b]] })
		remap := map[int32]int32{}
		newDecl := make([]*descriptorpb.OneofDescriptorProto, len(order))
		for newIdx, oldIdx := range order {
			remap[int32(oldIdx)] = int32(newIdx)
			newDecl[newIdx] = m.OneofDecl[oldIdx]
		}
		m.OneofDecl = newDecl
		for _, f := range m.Field {
			if f.OneofIndex != nil {
				f.OneofIndex = proto.Int32(remap[f.GetOneofIndex()])
			}
			if f.JsonName == nil {
				f.JsonName = proto.String(defaultJSONName(f.GetName()))
			}
		}
		sort.SliceStable(m.Field, func(a, b int) bool { return m.Field[a].GetNumber() < m.Field[b].GetNumber() })
		sort.SliceStable(m.NestedType, func(a, b int) bool { return m.NestedType[a].GetName() < m.NestedType[b].GetName() })
		sort.SliceStable(m.EnumType, func(a, b int) bool { return m.EnumType[a].GetName() < m.EnumType[b].GetName() })
		for _, n := range m.NestedType {
			normMsg(n)
		}
	}
	for _, m := range out.MessageType {
		normMsg(m)
	}
	sort.SliceStable(out.MessageType, func(a, b int) bool { return out.MessageType[a].GetName() < out.MessageType[b].GetName() })
	sort.SliceStable(out.EnumType, func(a, b int) bool { return out.EnumType[a].GetName() < out.EnumType[b].GetName() })
	sort.SliceStable(out.Service, func(a, b int) bool { return out.Service[a].GetName() < out.Service[b].GetName() })
	sortExt := func(ext []*descriptorpb.FieldDescriptorProto) {
		sort.SliceStable(ext, func(a, b int) bool {
			if ext[a].GetExtendee() != ext[b].GetExtendee() {
				return ext[a].GetExtendee() < ext[b].GetExtendee()
			}
			return ext[a].GetNumber() < ext[b].GetNumber()
		})
		for _, e := range ext {
			if e.JsonName == nil {
				e.JsonName = proto.String(defaultJSONName(e.GetName()))
			}
		}
	}
	sortExt(out.Extension)
	var extMsg func(m *descriptorpb.DescriptorProto)
	extMsg = func(m *descriptorpb.DescriptorProto) {
		sortExt(m.Extension)
		for _, n := range m.NestedType {
			extMsg(n)
		}
	}
	for _, m := range out.MessageType {
		extMsg(m)
	}
	clearEmptyOptions(out)
	return out, nil
}

// optsEqual: an options message without any field is the same as no options.
func optsEqual(a, b proto.Message) bool {
	emptyA := a == nil || !a.ProtoReflect().IsValid() || proto.Size(a) == 0
	emptyB := b == nil || !b.ProtoReflect().IsValid() || proto.Size(b) == 0
	if emptyA || emptyB {
		return emptyA && emptyB
	}
	return proto.Equal(a, b)
}

func clearEmptyOptions(m proto.Message) {
	// walk the descriptor proto and nil out empty options messages so that the
	// final whole-file proto.Equal agrees with optsEqual
	var walk func(m protoreflect.Message)
	walk = func(m protoreflect.Message) {
		m.Range(func(fd protoreflect.FieldDescriptor, v protoreflect.Value) bool {
			if fd.Kind() != protoreflect.MessageKind {
				return true
			}
			switch {
			case fd.IsList():
				for i := 0; i < v.List().Len(); i++ {
					walk(v.List().Get(i).Message())
				}
			case fd.IsMap():
			default:
				if fd.Name() == "options" && proto.Size(v.Message().Interface()) == 0 {
					m.Clear(fd)
				} else if fd.Name() != "options" {
					walk(v.Message())
				}
			}
			return true
		})
	}
	walk(m.ProtoReflect())
}

func defaultJSONName(s string) string {
	var sb strings.Builder
	up := false
	for _, r := range s {
		if r == '_' {
			up = true
			continue
		}
		if up && r >= 'a' && r <= 'z' {
			r = r - 'a' + 'A'
		}
		up = false
		sb.WriteRune(r)
	}
	return sb.String()
}

// diffDesc finds the first structural difference and returns a class + detail.
func diffDesc(a, b *descriptorpb.FileDescriptorProto) (string, string) {
	if a.GetPackage() != b.GetPackage() {
		return "package", fmt.Sprintf("%q vs %q", a.GetPackage(), b.GetPackage())
	}
	if strings.Join(a.Dependency, ",") != strings.Join(b.Dependency, ",") {
		return "imports", fmt.Sprintf("%v vs %v", a.Dependency, b.Dependency)
	}
	if !optsEqual(a.Options, b.Options) {
		return "file-options", fmt.Sprintf("%v vs %v", a.Options, b.Options)
	}
	if c, d := diffMsgs(a.MessageType, b.MessageType, a.GetPackage()); c != "" {
		return c, d
	}
	if c, d := diffEnums(a.EnumType, b.EnumType, a.GetPackage()); c != "" {
		return c, d
	}
	if len(a.Service) != len(b.Service) {
		return "service-set", fmt.Sprintf("%d vs %d services", len(a.Service), len(b.Service))
	}
	for i := range a.Service {
		sa, sb := a.Service[i], b.Service[i]
		if sa.GetName() != sb.GetName() {
			return "service-set", fmt.Sprintf("%s vs %s", sa.GetName(), sb.GetName())
		}
		if !optsEqual(sa.Options, sb.Options) {
			return "service-options", fmt.Sprintf("%s: %v vs %v", sa.GetName(), sa.Options, sb.Options)
		}
		if len(sa.Method) != len(sb.Method) {
			return "method-set", fmt.Sprintf("%s: %d vs %d methods", sa.GetName(), len(sa.Method), len(sb.Method))
		}
		for k := range sa.Method {
			ma, mb := sa.Method[k], sb.Method[k]
			if !optsEqual(ma.Options, mb.Options) {
				return "method-options", fmt.Sprintf("%s.%s: %v vs %v", sa.GetName(), ma.GetName(), ma.Options, mb.Options)
			}
			if !proto.Equal(ma, mb) {
				return "method", fmt.Sprintf("%s.%s: %v vs %v", sa.GetName(), ma.GetName(), ma, mb)
			}
		}
	}
	if !proto.Equal(a, b) {
		return "other", "descriptors differ outside the compared parts"
	}
	return "", ""
}

func diffEnums(a, b []*descriptorpb.EnumDescriptorProto, scope string) (string, string) {
	if len(a) != len(b) {
		return "enum-set", fmt.Sprintf("%s: %d vs %d enums", scope, len(a), len(b))
	}
	for i := range a {
		if a[i].GetName() != b[i].GetName() {
			return "enum-set", fmt.Sprintf("%s: %s vs %s", scope, a[i].GetName(), b[i].GetName())
		}
		if !optsEqual(a[i].Options, b[i].Options) {
			return "enum-options", fmt.Sprintf("%s.%s: %v vs %v", scope, a[i].GetName(), a[i].Options, b[i].Options)
		}
		if len(a[i].Value) != len(b[i].Value) {
			return "enum-values", fmt.Sprintf("%s.%s: %d vs %d values", scope, a[i].GetName(), len(a[i].Value), len(b[i].Value))
		}
		for k := range a[i].Value {
			va, vb := a[i].Value[k], b[i].Value[k]
			if va.GetName() != vb.GetName() || va.GetNumber() != vb.GetNumber() {
				return "enum-values", fmt.Sprintf("%s.%s: %v vs %v", scope, a[i].GetName(), va, vb)
			}
			if !optsEqual(va.Options, vb.Options) {
				return "enum-value-options", fmt.Sprintf("%s.%s.%s: %v vs %v", scope, a[i].GetName(), va.GetName(), va.Options, vb.Options)
			}
		}
	}
	return "", ""
}

func diffMsgs(a, b []*descriptorpb.DescriptorProto, scope string) (string, string) {
	if len(a) != len(b) {
		return "message-set", fmt.Sprintf("%s: %d vs %d messages", scope, len(a), len(b))
	}
	for i := range a {
		ma, mb := a[i], b[i]
		name := scope + "." + ma.GetName()
		if ma.GetName() != mb.GetName() {
			return "message-set", fmt.Sprintf("%s vs %s", name, mb.GetName())
		}
		if !optsEqual(ma.Options, mb.Options) {
			return "message-options", fmt.Sprintf("%s: %v vs %v", name, ma.Options, mb.Options)
		}
		if len(ma.Field) != len(mb.Field) {
			return "field-set", fmt.Sprintf("%s: %d vs %d fields", name, len(ma.Field), len(mb.Field))
		}
		for k := range ma.Field {
			fa, fb := ma.Field[k], mb.Field[k]
			fname := name + "." + fa.GetName()
			switch {
			case fa.GetName() != fb.GetName() || fa.GetNumber() != fb.GetNumber():
				return "field-identity", fmt.Sprintf("%s #%d vs %s #%d", fname, fa.GetNumber(), fb.GetName(), fb.GetNumber())
			case fa.GetType() != fb.GetType() || fa.GetTypeName() != fb.GetTypeName():
				return "field-type", fmt.Sprintf("%s: %s %s vs %s %s", fname, fa.GetType(), fa.GetTypeName(), fb.GetType(), fb.GetTypeName())
			case fa.GetLabel() != fb.GetLabel():
				return "field-label", fmt.Sprintf("%s: %s vs %s", fname, fa.GetLabel(), fb.GetLabel())
			case fa.GetProto3Optional() != fb.GetProto3Optional():
				return "field-proto3-optional", fmt.Sprintf("%s: %v vs %v", fname, fa.GetProto3Optional(), fb.GetProto3Optional())
			case fa.GetJsonName() != fb.GetJsonName():
				return "field-json-name", fmt.Sprintf("%s: %q vs %q", fname, fa.GetJsonName(), fb.GetJsonName())
			case (fa.OneofIndex == nil) != (fb.OneofIndex == nil) || fa.GetOneofIndex() != fb.GetOneofIndex():
				return "field-oneof", fmt.Sprintf("%s: oneof %v vs %v", fname, fa.OneofIndex, fb.OneofIndex)
			case !optsEqual(fa.Options, fb.Options):
				if ma.GetOptions().GetMapEntry() {
					return "map-entry-value-options", fmt.Sprintf("%s: %v vs %v", fname, fa.Options, fb.Options)
				}
				return "field-options", fmt.Sprintf("%s: %v vs %v", fname, fa.Options, fb.Options)
			}
		}
		if len(ma.OneofDecl) != len(mb.OneofDecl) {
			return "oneof-set", fmt.Sprintf("%s: %d vs %d oneofs", name, len(ma.OneofDecl), len(mb.OneofDecl))
		}
		for k := range ma.OneofDecl {
			if ma.OneofDecl[k].GetName() != mb.OneofDecl[k].GetName() {
				return "oneof-set", fmt.Sprintf("%s: oneof %s vs %s", name, ma.OneofDecl[k].GetName(), mb.OneofDecl[k].GetName())
			}
			if !optsEqual(ma.OneofDecl[k].Options, mb.OneofDecl[k].Options) {
				return "oneof-options", fmt.Sprintf("%s.%s", name, ma.OneofDecl[k].GetName())
			}
		}
		if c, d := diffMsgs(ma.NestedType, mb.NestedType, name); c != "" {
			return c, d
		}
		if c, d := diffEnums(ma.EnumType, mb.EnumType, name); c != "" {
			return c, d
		}
	}
	return "", ""
}

// neutralise reports (a) options on the value field of a synthetic map entry,
// which proto source cannot express, and (b) JSON names that differ, then makes
// both sides equal in those respects.
func neutralise(path string, a, b *descriptorpb.FileDescriptorProto) (fails []vf.Failure) {
	var walk func(ma, mb []*descriptorpb.DescriptorProto, scope string)
	seenMap, seenJSON := false, false
	walk = func(ma, mb []*descriptorpb.DescriptorProto, scope string) {
		if len(ma) != len(mb) {
			return
		}
		for i := range ma {
			x, y := ma[i], mb[i]
			if x.GetName() != y.GetName() || len(x.Field) != len(y.Field) {
				continue
			}
			name := scope + "." + x.GetName()
			for k := range x.Field {
				fa, fb := x.Field[k], y.Field[k]
				if fa.GetNumber() != fb.GetNumber() {
					continue
				}
				if x.GetOptions().GetMapEntry() && !optsEqual(fa.Options, fb.Options) {
					if !seenMap {
						seenMap = true
						fails = append(fails, vf.Failf("descriptor|map-entry-value-options", "%s: %s.%s: %v vs %v", path, name, fa.GetName(), fa.Options, fb.Options))
					}
					fa.Options, fb.Options = nil, nil
				}
				if fa.GetJsonName() != fb.GetJsonName() {
					if !seenJSON {
						seenJSON = true
						fails = append(fails, vf.Failf("descriptor|field-json-name", "%s: %s.%s: %q vs %q", path, name, fa.GetName(), fa.GetJsonName(), fb.GetJsonName()))
					}
					fb.JsonName = proto.String(fa.GetJsonName())
				}
			}
			walk(x.NestedType, y.NestedType, name)
		}
	}
	walk(a.MessageType, b.MessageType, a.GetPackage())
	return fails
}

// normComment: leading comments are compared verbatim. The printer writes "//"
// followed by the stored line, so the text - leading space, trailing blanks and
// the " " the compiler stores for a blank paragraph line included - survives.
func normComment(s string) string { return s }

// comments collects leading comments of every named descriptor.
func comments(fd protoreflect.FileDescriptor) map[string]string {
	out := map[string]string{}
	locs := fd.SourceLocations()
	add := func(d protoreflect.Descriptor) {
		if c := normComment(locs.ByDescriptor(d).LeadingComments); c != "" {
			out[string(d.FullName())] = c
		}
	}
	var walkMsg func(md protoreflect.MessageDescriptor)
	walkEnum := func(ed protoreflect.EnumDescriptor) {
		add(ed)
		for i := 0; i < ed.Values().Len(); i++ {
			add(ed.Values().Get(i))
		}
	}
	walkMsg = func(md protoreflect.MessageDescriptor) {
		if md.IsMapEntry() {
			return
		}
		add(md)
		for i := 0; i < md.Fields().Len(); i++ {
			add(md.Fields().Get(i))
		}
		for i := 0; i < md.Messages().Len(); i++ {
			walkMsg(md.Messages().Get(i))
		}
		for i := 0; i < md.Enums().Len(); i++ {
			walkEnum(md.Enums().Get(i))
		}
	}
	for i := 0; i < fd.Messages().Len(); i++ {
		walkMsg(fd.Messages().Get(i))
	}
	for i := 0; i < fd.Enums().Len(); i++ {
		walkEnum(fd.Enums().Get(i))
	}
	for i := 0; i < fd.Services().Len(); i++ {
		sd := fd.Services().Get(i)
		add(sd)
		for k := 0; k < sd.Methods().Len(); k++ {
			add(sd.Methods().Get(k))
		}
	}
	return out
}

func check(c printCase) (fails []vf.Failure, nFiles int) {
	var originals []linker.File
	var err error
	if c.J5S != nil {
		src := &j5sx.Bundle{Files: c.J5S}
		for _, pkg := range src.Packages() {
			var files linker.Files
			if f := vf.GuardTimed("CompilePackage", callLimit, func() { files, err = j5sx.Compile(src, pkg) }); f != nil {
				return []vf.Failure{*f}, 0
			}
			if err != nil {
				return []vf.Failure{vf.Failf("compile|error", "package %s does not compile (C07's verdict): %v", pkg, err)}, 0
			}
			originals = append(originals, files...)
		}
	} else {
		var files linker.Files
		if f := vf.GuardTimed("protocompile", callLimit, func() { files, err = j5sx.Reparse(c.Proto, c.Only...) }); f != nil {
			return []vf.Failure{*f}, 0
		}
		if err != nil {
			return []vf.Failure{vf.Failf("harness|source", "source protos do not compile: %v", err)}, 0
		}
		originals = files
	}
	// print everything first: printed files import each other
	texts := map[string]string{}
	for k, v := range c.Proto {
		texts[k] = v
	}
	printed := map[string]string{}
	for _, f := range originals {
		var text string
		if fl := vf.GuardTimed("PrintFile", callLimit, func() { text, err = j5sx.Print(f) }); fl != nil {
			fails = append(fails, *fl)
			continue
		}
		if err != nil {
			fails = append(fails, vf.Failf("print|error|"+vf.ErrClass(err), "PrintFile(%s): %v", f.Path(), err))
			continue
		}
		printed[f.Path()] = text
		texts[f.Path()] = text
	}
	for _, f := range originals {
		text, ok := printed[f.Path()]
		if !ok {
			continue
		}
		nFiles++
		var re linker.Files
		if fl := vf.GuardTimed("reparse", callLimit, func() { re, err = j5sx.Reparse(texts, f.Path()) }); fl != nil {
			fails = append(fails, *fl)
			continue
		}
		if err != nil {
			fails = append(fails, vf.Failf("reparse|error|"+vf.ErrClass(lastErrLine(err)), "printed %s does not parse/link: %v\n%s", f.Path(), err, clip(text)))
			continue
		}
		a, e1 := normalise(f)
		b, e2 := normalise(re[0])
		if e1 != nil || e2 != nil {
			fails = append(fails, vf.Failf("harness|normalise", "%v / %v", e1, e2))
			continue
		}
		// asymmetries that occur in most files are reported once and then
		// neutralised, so that they cannot hide further differences
		fails = append(fails, neutralise(f.Path(), a, b)...)
		if cls, d := diffDesc(a, b); cls != "" {
			fails = append(fails, vf.Failf("descriptor|"+cls, "%s: %s\n%s", f.Path(), d, clip(text)))
		}
		ca, cb := comments(f), comments(re[0])
		for name, want := range ca {
			if got := cb[name]; got != want {
				fails = append(fails, vf.Failf("comments|lost-or-changed", "%s: leading comment of %s: %q vs %q", f.Path(), name, want, got))
				break
			}
		}
		for name := range cb {
			if _, ok := ca[name]; !ok {
				fails = append(fails, vf.Failf("comments|invented", "%s: %s gained a comment %q", f.Path(), name, cb[name]))
				break
			}
		}
		var text2 string
		if fl := vf.GuardTimed("PrintFile(second)", callLimit, func() { text2, err = j5sx.Print(re[0]) }); fl != nil {
			fails = append(fails, *fl)
		} else if err != nil {
			fails = append(fails, vf.Failf("reprint|error", "second print of %s: %v", f.Path(), err))
		} else if text2 != text {
			kind := "code"
			if d := firstDiff(text, text2); strings.Contains(d, "//") || strings.Contains(d, "/*") {
				kind = "comment" // the first differing line carries a comment
			}
			fails = append(fails, vf.Failf("reprint|differs|"+kind, "second print of %s differs:\n%s", f.Path(), firstDiff(text, text2)))
		}
	}
	return dedupe(fails), nFiles
}

func lastErrLine(err error) error {
	s := err.Error()
	if i := strings.Index(s, "\n"); i > 0 {
		s = s[:i]
	}
	// drop the file:line:col prefix protocompile adds
	if i := strings.Index(s, ".proto:"); i > 0 {
		rest := s[i+7:]
		if k := strings.Index(rest, " "); k > 0 {
			s = rest[k+1:]
		}
	}
	return fmt.Errorf("%s", s)
}

func firstDiff(a, b string) string {
	la, lb := strings.Split(a, "\n"), strings.Split(b, "\n")
	for i := 0; i < len(la) && i < len(lb); i++ {
		if la[i] != lb[i] {
			return fmt.Sprintf("line %d:\n- %s\n+ %s", i+1, la[i], lb[i])
		}
	}
	return fmt.Sprintf("lengths %d vs %d lines", len(la), len(lb))
}

func clip(s string) string {
	if len(s) > 2500 {
		return s[:2500] + "…"
	}
	return s
}

func dedupe(fails []vf.Failure) []vf.Failure {
	seen := map[string]bool{}
	var out []vf.Failure
	for _, f := range fails {
		if !seen[f.Key] {
			seen[f.Key] = true
			out = append(out, f)
		}
	}
	return out
}

func TestGenerated(t *testing.T) {
	r := vf.Start(t, prop, "generated")
	rapid.Check(t, func(t *rapid.T) {
		o := j5sgen.DefaultOpts()
		o.OddNames = true
		// rules the compiler has no target for leave an option that is present and
		// empty, (buf.validate.field) = {}: a value like any other to the printer
		o.UndocumentedRules = true
		b, classes := j5sgen.Draw(t, o)
		c := printCase{J5S: b.Render()}
		fails, n := check(c)
		nt := classes["description"] || classes["enum-option-info"] || classes["inline-object"] || classes["rules:string"]
		cls := []string{}
		for k := range classes {
			cls = append(cls, k)
		}
		r.ClassN("files-checked", n)
		r.Eval(nt, vf.Hash(c.J5S), cls...)
		if nt && len(c.J5S) == 1 && r.WantSample() {
			r.Sample(c)
		}
		r.Judge(t, c, fails)
	})
}

// TestRepo: every hand-written proto3 file of the repository's proto/ tree.
func TestRepo(t *testing.T) {
	r := vf.Start(t, prop, "repo")
	repo := os.Getenv("VERIF_REPO")
	if repo == "" {
		repo = "/repo"
	}
	roots, _ := filepath.Glob(filepath.Join(repo, "proto", "*"))
	sort.Strings(roots)
	for _, root := range roots {
		texts := map[string]string{}
		_ = filepath.Walk(root, func(p string, info os.FileInfo, err error) error {
			if err == nil && !info.IsDir() && strings.HasSuffix(p, ".proto") {
				rel, _ := filepath.Rel(root, p)
				b, _ := os.ReadFile(p)
				texts[rel] = string(b)
			}
			return nil
		})
		var names []string
		for n := range texts {
			names = append(names, n)
		}
		sort.Strings(names)
		for _, n := range names {
			c := printCase{Proto: texts, Only: []string{n}}
			fails, _ := check(c)
			r.Eval(true, vf.Hash(filepath.Base(root), n), "root:"+filepath.Base(root))
			if strings.HasSuffix(n, "annotations.proto") && r.WantSample() {
				r.Sample(map[string]string{"root": filepath.Base(root), "file": n})
			}
			r.JudgeNoFatal(printCase{Proto: map[string]string{n: texts[n]}, Only: []string{n}}, fails)
		}
	}
	r.SetExhaustive()
}
