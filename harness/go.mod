module github.com/pentops/j5/internal/bcl/internal/verif

go 1.24.0

toolchain go1.24.1

require (
	buf.build/gen/go/bufbuild/protovalidate/protocolbuffers/go v1.36.6-20250307204501-0409229c3780.1
	github.com/pentops/j5 v0.0.0
	github.com/shopspring/decimal v1.4.0
	google.golang.org/protobuf v1.36.6
	pgregory.net/rapid v1.3.0
)

require (
	github.com/google/uuid v1.6.0 // indirect
	github.com/iancoleman/strcase v0.3.0 // indirect
	golang.org/x/sys v0.31.0 // indirect
	google.golang.org/genproto/googleapis/rpc v0.0.0-20250324211829-b45e905df463 // indirect
	google.golang.org/grpc v1.71.0 // indirect
)

replace github.com/pentops/j5 => /repo
