module github.com/pentops/j5/internal/bcl/internal/verif

go 1.24.0

toolchain go1.24.1

require (
	buf.build/gen/go/bufbuild/protovalidate/protocolbuffers/go v1.36.6-20250307204501-0409229c3780.1
	github.com/bufbuild/protocompile v0.14.1
	github.com/bufbuild/protovalidate-go v0.9.2
	github.com/pentops/j5 v0.0.0
	github.com/pentops/log.go v0.0.0-20250304233315-e0210b7a6dc3
	github.com/shopspring/decimal v1.4.0
	google.golang.org/genproto/googleapis/api v0.0.0-20250324211829-b45e905df463
	google.golang.org/protobuf v1.36.6
	pgregory.net/rapid v1.3.0
)

require (
	buf.build/go/protoyaml v0.3.1 // indirect
	cel.dev/expr v0.22.0 // indirect
	github.com/antlr4-go/antlr/v4 v4.13.1 // indirect
	github.com/fatih/color v1.18.0 // indirect
	github.com/google/cel-go v0.24.1 // indirect
	github.com/google/uuid v1.6.0 // indirect
	github.com/iancoleman/strcase v0.3.0 // indirect
	github.com/mattn/go-colorable v0.1.14 // indirect
	github.com/mattn/go-isatty v0.0.20 // indirect
	github.com/pentops/golib v0.0.0-20250107012216-1b5307b3bfe0 // indirect
	github.com/stoewer/go-strcase v1.3.0 // indirect
	golang.org/x/exp v0.0.0-20250305212735-054e65f0b394 // indirect
	golang.org/x/sync v0.12.0 // indirect
	golang.org/x/sys v0.31.0 // indirect
	golang.org/x/text v0.23.0 // indirect
	google.golang.org/genproto/googleapis/rpc v0.0.0-20250324211829-b45e905df463 // indirect
	google.golang.org/grpc v1.71.0 // indirect
	gopkg.in/yaml.v3 v3.0.1 // indirect
)

replace github.com/pentops/j5 => /repo
