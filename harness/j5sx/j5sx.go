// Package j5sx compiles in-memory j5s / proto bundles through the real
// protobuild.PackageSet and prints the results with protoprint.
package j5sx

import (
	"context"
	"fmt"
	"io"
	stdlog "log"
	"sort"
	"strings"
	"testing/fstest"

	"github.com/bufbuild/protocompile"
	"github.com/bufbuild/protocompile/linker"
	"github.com/pentops/j5/gen/j5/source/v1/source_j5pb"
	"github.com/pentops/j5/internal/j5s/protobuild"
	"github.com/pentops/j5/internal/j5s/protoprint"
	"github.com/pentops/j5/internal/protosrc"
	"github.com/pentops/log.go/log"
	"google.golang.org/protobuf/reflect/protodesc"
	"google.golang.org/protobuf/reflect/protoregistry"
	"google.golang.org/protobuf/types/descriptorpb"

	_ "github.com/pentops/j5/gen/j5/messaging/v1/messaging_j5pb"
	_ "github.com/pentops/j5/gen/j5/state/v1/psm_j5pb"
	_ "google.golang.org/genproto/googleapis/api/annotations"
	_ "google.golang.org/genproto/googleapis/api/httpbody"
)

func init() {
	// the compiler logs through the std logger and pentops/log.go; silence both
	stdlog.SetOutput(io.Discard)
	log.DefaultLogger = log.NewCallbackLogger(func(level string, msg string, fields map[string]interface{}) {})
}

// Bundle is a set of source files keyed by path relative to the bundle root
// (e.g. "foo/v1/bar.j5s"). Order is the listing order returned to the compiler.
type Bundle struct {
	Files map[string]string `json:"files"`
	// Optional explicit orders (C14); default is sorted.
	FileOrder    []string `json:"file_order,omitempty"`
	PackageOrder []string `json:"package_order,omitempty"`
}

func PackageOf(filename string) string {
	i := strings.LastIndex(filename, "/")
	if i < 0 {
		return ""
	}
	return strings.ReplaceAll(filename[:i], "/", ".")
}

func (b *Bundle) Packages() []string {
	if b.PackageOrder != nil {
		return b.PackageOrder
	}
	seen := map[string]bool{}
	var out []string
	for f := range b.Files {
		p := PackageOf(f)
		if !seen[p] {
			seen[p] = true
			out = append(out, p)
		}
	}
	sort.Strings(out)
	return out
}

// LocalFileSource
func (b *Bundle) GetLocalFile(ctx context.Context, filename string) ([]byte, error) {
	if s, ok := b.Files[filename]; ok {
		return []byte(s), nil
	}
	return nil, fmt.Errorf("file not found: %s", filename)
}

func (b *Bundle) ListPackages() []string { return b.Packages() }

func (b *Bundle) ListSourceFiles(ctx context.Context, prefix string) ([]string, error) {
	var files []string
	if b.FileOrder != nil {
		for _, k := range b.FileOrder {
			if strings.HasPrefix(k, prefix) {
				files = append(files, k)
			}
		}
		return files, nil
	}
	for k := range b.Files {
		if strings.HasPrefix(k, prefix) {
			files = append(files, k)
		}
	}
	sort.Strings(files)
	return files, nil
}

type noDeps struct{}

func (noDeps) ListDependencyFiles(root string) []string { return nil }
func (noDeps) GetDependencyFile(filename string) (*descriptorpb.FileDescriptorProto, error) {
	return nil, fmt.Errorf("dependency file not found: %s", filename)
}

func NewSet(b *Bundle) (*protobuild.PackageSet, error) {
	return protobuild.NewPackageSet(noDeps{}, b)
}

// Compile compiles one package of the bundle on a fresh PackageSet.
func Compile(b *Bundle, pkg string) (linker.Files, error) {
	ps, err := NewSet(b)
	if err != nil {
		return nil, err
	}
	return ps.CompilePackage(context.Background(), pkg)
}

func Print(f linker.File) (string, error) {
	return protoprint.PrintFile(context.Background(), f, "")
}

// Reparse compiles printed .proto texts with protocompile. Imports resolve to
// the given texts first and then to the global registry (google, buf, j5 built-ins),
// the way internal/protosrc resolves them.
func Reparse(texts map[string]string, paths ...string) (linker.Files, error) {
	compiler := protocompile.Compiler{
		Resolver: protocompile.CompositeResolver{
			&protocompile.SourceResolver{Accessor: protocompile.SourceAccessorFromMap(texts)},
			protocompile.ResolverFunc(func(p string) (protocompile.SearchResult, error) {
				fd, err := protoregistry.GlobalFiles.FindFileByPath(p)
				if err != nil {
					return protocompile.SearchResult{}, err
				}
				return protocompile.SearchResult{Desc: fd}, nil
			}),
		},
		SourceInfoMode: protocompile.SourceInfoStandard,
	}
	return compiler.Compile(context.Background(), paths...)
}

// ReadImage runs the production path for generated .proto text: the files are
// laid out in an in-memory bundle root, protosrc.ReadFSImage compiles every
// .proto it finds, and the image is linked the way structure.APIFromImage does.
func ReadImage(texts map[string]string) (*source_j5pb.SourceImage, *protoregistry.Files, error) {
	fsys := fstest.MapFS{}
	for name, text := range texts {
		fsys[name] = &fstest.MapFile{Data: []byte(text)}
	}
	img, err := protosrc.ReadFSImage(context.Background(), fsys, nil, protocompile.CompositeResolver{})
	if err != nil {
		return nil, nil, err
	}
	files, err := protodesc.NewFiles(&descriptorpb.FileDescriptorSet{File: img.File})
	if err != nil {
		return img, nil, err
	}
	return img, files, nil
}
