package c20

import (
	"encoding/json"
	"fmt"
	"regexp"
	"testing"

	"buf.build/gen/go/bufbuild/protovalidate/protocolbuffers/go/buf/validate"
	"github.com/pentops/j5/internal/bcl/internal/verif/j5sx"
	"github.com/pentops/j5/internal/bcl/internal/verif/vf"
	"github.com/pentops/j5/lib/id62"
	"google.golang.org/protobuf/proto"
	"google.golang.org/protobuf/reflect/protoreflect"
	"pgregory.net/rapid"
)

// patCase: a j5s declaration with a key:id62 field in some position, and
// identifiers / near-misses to run against the pattern the compiler emitted.
type patCase struct {
	Position string   `json:"position"`
	Source   string   `json:"source"`
	IDs      [][]byte `json:"ids"`
	Bad      []string `json:"bad"`
}

func init() {
	lanes["pattern"] = func(raw json.RawMessage) ([]vf.Failure, error) {
		var c patCase
		if err := json.Unmarshal(raw, &c); err != nil {
			return nil, err
		}
		return checkPattern(c), nil
	}
}

var patSources = map[string]string{
	"plain":    "package pt.id.v1\n\nobject Thing {\n\tfield thingId key:id62\n}\n",
	"required": "package pt.id.v1\n\nobject Thing {\n\tfield thingId ! key:id62\n}\n",
	"optional": "package pt.id.v1\n\nobject Thing {\n\tfield thingId ? key:id62\n}\n",
	"array":    "package pt.id.v1\n\nobject Thing {\n\tfield thingId array:key:id62\n}\n",
	"map":      "package pt.id.v1\n\nobject Thing {\n\tfield thingId map:key:id62\n}\n",
	"entity":   "package pt.id.v1\n\nentity Thing {\n\tkey thingId key:id62 {\n\t\tprimary = true\n\t}\n\tstatus ACTIVE\n}\n",
	"request":  "package pt.id.v1\n\nservice Things {\n\tmethod GetThing {\n\t\thttpMethod = \"GET\"\n\t\thttpPath = \"/thing/:thingId\"\n\t\trequest {\n\t\t\tfield thingId key:id62\n\t\t}\n\t\tresponse {\n\t\t\tfield thingId key:id62\n\t\t}\n\t}\n}\n",
}

// stringPatterns collects the string pattern constraints on every field called
// thing_id (directly, as list items, or as map values).
func stringPatterns(fd protoreflect.FileDescriptor, out *[]string, where *[]string) {
	var walk func(mds protoreflect.MessageDescriptors)
	walk = func(mds protoreflect.MessageDescriptors) {
		for i := 0; i < mds.Len(); i++ {
			md := mds.Get(i)
			walk(md.Messages())
			if md.IsMapEntry() {
				continue
			}
			for k := 0; k < md.Fields().Len(); k++ {
				f := md.Fields().Get(k)
				if f.Name() != "thing_id" {
					continue
				}
				var fc *validate.FieldConstraints
				if f.Options() != nil {
					fc, _ = proto.GetExtension(f.Options(), validate.E_Field).(*validate.FieldConstraints)
				}
				var sr *validate.StringRules
				switch {
				case f.IsMap():
					sr = fc.GetMap().GetValues().GetString_()
				case f.IsList():
					sr = fc.GetRepeated().GetItems().GetString_()
				default:
					sr = fc.GetString_()
				}
				*where = append(*where, string(f.FullName()))
				if sr != nil && sr.Pattern != nil {
					*out = append(*out, sr.GetPattern())
				} else {
					*out = append(*out, "")
				}
			}
		}
	}
	walk(fd.Messages())
}

func checkPattern(c patCase) (fails []vf.Failure) {
	var pats, where []string
	var err error
	if f := vf.Guard("CompilePackage", func() {
		src := &j5sx.Bundle{Files: map[string]string{"pt/id/v1/thing.j5s": c.Source}}
		files, cerr := j5sx.Compile(src, "pt.id.v1")
		if cerr != nil {
			err = cerr
			return
		}
		for _, fd := range files {
			stringPatterns(fd, &pats, &where)
		}
	}); f != nil {
		return []vf.Failure{*f}
	}
	if err != nil {
		return []vf.Failure{vf.Failf("pattern|compile-error|"+c.Position, "key:id62 in position %s does not compile: %v", c.Position, err)}
	}
	if len(pats) == 0 {
		return []vf.Failure{vf.Failf("pattern|field-not-found|"+c.Position, "no thing_id field in the compiled output")}
	}
	for i, p := range pats {
		if p == "" {
			// no string pattern on this field: whether every position must carry
			// one is C12's subject (rule enforcement), not this property's
			continue
		}
		if p != id62.PatternString {
			fails = append(fails, vf.Failf("pattern|differs|"+c.Position, "%s: compiled pattern %q, published id62 pattern %q", where[i], p, id62.PatternString))
			continue
		}
		re, rerr := regexp.Compile(p)
		if rerr != nil {
			fails = append(fails, vf.Failf("pattern|not-re2|"+c.Position, "%s: %v", where[i], rerr))
			continue
		}
		for _, b := range c.IDs {
			var id id62.UUID
			copy(id[:], b)
			if s := id.String(); !re.MatchString(s) {
				fails = append(fails, vf.Failf("pattern|rejects-identifier|"+c.Position, "%s: compiled pattern rejects %q = String(%x)", where[i], s, b))
			}
		}
		for _, s := range c.Bad {
			if re.MatchString(s) {
				fails = append(fails, vf.Failf("pattern|accepts-malformed|"+c.Position, "%s: compiled pattern accepts %q (not 22 characters of [0-9A-Za-z])", where[i], s))
			}
		}
	}
	return fails
}

func TestPattern(t *testing.T) {
	r := vf.Start(t, prop, "pattern")
	positions := []string{"plain", "required", "optional", "array", "map", "entity", "request"}
	rapid.Check(t, func(t *rapid.T) {
		pos := rapid.SampledFrom(positions).Draw(t, "position")
		c := patCase{Position: pos, Source: patSources[pos]}
		n := rapid.IntRange(1, 8).Draw(t, "nids")
		for i := 0; i < n; i++ {
			b := rapid.SliceOfN(rapid.Byte(), 16, 16).Draw(t, "id")
			if rapid.IntRange(0, 3).Draw(t, "lead") == 0 {
				for k := 0; k < rapid.IntRange(1, 15).Draw(t, "nlead"); k++ {
					b[k] = 0
				}
			}
			c.IDs = append(c.IDs, b)
		}
		good := id62.UUID{}.String()
		c.Bad = []string{good[:21], good + "0", good[:21] + "-", good[:21] + "é", "", good[:10] + " " + good[11:]}
		r.Eval(true, vf.Hash(pos, fmt.Sprint(c.IDs)), "position:"+pos)
		r.Judge(t, c, checkPattern(c))
	})
}
