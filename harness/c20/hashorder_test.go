package c20

import (
	"encoding/hex"
	"encoding/json"
	"fmt"
	"os"
	"os/exec"
	"strings"
	"testing"

	"github.com/pentops/j5/internal/bcl/internal/verif/vf"
	"github.com/pentops/j5/lib/id62"
	"pgregory.net/rapid"
)

// "Hash-derived identifiers are a pure function of namespace and inputs": the
// value for one argument list may not depend on which other argument lists were
// derived before it. The oracle needs no knowledge of the digest: the same calls
// are made here in the drawn order and in a fresh process in the reverse order,
// and each argument list must get the same identifier in both. The lists of one
// case are regroupings of the same text (inputs joined or split at a separator,
// the namespace merged with the first input), the shapes any scheme that flattens
// the arguments would confuse.

type hashSeqCase struct {
	Calls []hashCase `json:"calls"`
}

func init() {
	lanes["hashorder"] = func(raw json.RawMessage) ([]vf.Failure, error) {
		var c hashSeqCase
		if err := json.Unmarshal(raw, &c); err != nil {
			return nil, err
		}
		return checkHashSeq(c), nil
	}
}

func hashAll(calls []hashCase) []string {
	out := make([]string, len(calls))
	for i, c := range calls {
		id := id62.NewHash(c.NS, c.Inputs...)
		out[i] = hex.EncodeToString(id[:])
	}
	return out
}

func checkHashSeq(c hashSeqCase) (fails []vf.Failure) {
	var here []string
	if f := vf.Guard("NewHash", func() { here = hashAll(c.Calls) }); f != nil {
		return append(fails, *f)
	}
	// equal argument lists, equal identifiers
	seen := map[string]string{}
	for i, call := range c.Calls {
		k, _ := json.Marshal(call)
		if prev, ok := seen[string(k)]; ok && prev != here[i] {
			fails = append(fails, vf.Failf("hash|impure", "NewHash(%q,%q) gave %s and %s in one sequence", call.NS, call.Inputs, prev, here[i]))
		}
		seen[string(k)] = here[i]
	}
	rev := make([]hashCase, len(c.Calls))
	for i, call := range c.Calls {
		rev[len(rev)-1-i] = call
	}
	there, err := hashesElsewhere(rev)
	if err != nil {
		return append(fails, vf.Failf("harness|subprocess", "%v", err))
	}
	for i, call := range c.Calls {
		if j := len(rev) - 1 - i; here[i] != there[j] {
			fails = append(fails, vf.Failf("hash|depends-on-earlier-calls", "NewHash(%q,%q) is %s as call %d of this sequence and %s as call %d of the reversed sequence in a fresh process\nsequence: %s", call.NS, call.Inputs, here[i], i+1, there[j], j+1, describe(c.Calls)))
			break
		}
	}
	return fails
}

func describe(calls []hashCase) string {
	var parts []string
	for _, c := range calls {
		parts = append(parts, fmt.Sprintf("(%q,%q)", c.NS, c.Inputs))
	}
	return strings.Join(parts, " ")
}

func hashesElsewhere(calls []hashCase) ([]string, error) {
	tmp, err := os.CreateTemp(os.Getenv("VERIF_OUT"), "c20-calls-*.json")
	if err != nil {
		return nil, err
	}
	defer os.Remove(tmp.Name())
	b, _ := json.Marshal(calls)
	tmp.Write(b)
	tmp.Close()
	outPath := tmp.Name() + ".out"
	defer os.Remove(outPath)
	cmd := exec.Command(os.Args[0], "-test.run", "^TestHashHelper$", "-test.count=1")
	cmd.Env = append(os.Environ(), "VERIF_C20_CALLS="+tmp.Name(), "VERIF_C20_OUT="+outPath)
	if outb, err := cmd.CombinedOutput(); err != nil {
		return nil, fmt.Errorf("%v: %s", err, outb)
	}
	raw, err := os.ReadFile(outPath)
	if err != nil {
		return nil, err
	}
	var out []string
	if err := json.Unmarshal(raw, &out); err != nil {
		return nil, err
	}
	if len(out) != len(calls) {
		return nil, fmt.Errorf("helper returned %d results for %d calls", len(out), len(calls))
	}
	return out, nil
}

func TestHashHelper(t *testing.T) {
	path := os.Getenv("VERIF_C20_CALLS")
	if path == "" {
		t.Skip("helper")
	}
	raw, err := os.ReadFile(path)
	if err != nil {
		t.Fatal(err)
	}
	var calls []hashCase
	if err := json.Unmarshal(raw, &calls); err != nil {
		t.Fatal(err)
	}
	b, _ := json.Marshal(hashAll(calls))
	if err := os.WriteFile(os.Getenv("VERIF_C20_OUT"), b, 0o644); err != nil {
		t.Fatal(err)
	}
}

var hashSeps = []string{"/", "", ":", ",", " ", "\x00", "|", "-", "_", ".", "\n", "//"}

func TestHashOrder(t *testing.T) {
	r := vf.Start(t, prop, "hashorder")
	// a failure must follow from the calls of its own case, not from those of the
	// cases before it
	r.ConfirmFresh()
	rapid.Check(t, func(t *rapid.T) {
		word := rapid.OneOf(rapid.SampledFrom([]string{"org", "tenant", "acme", "eu", "42", "x", "y", "", "a/b", "é名"}), rapid.StringN(0, 4, -1))
		base := hashCase{NS: word.Draw(t, "ns"), Inputs: rapid.SliceOfN(word, 1, 4).Draw(t, "inputs")}
		calls := []hashCase{base}
		cls := map[string]bool{}
		n := rapid.IntRange(1, 4).Draw(t, "nvariants")
		for i := 0; i < n; i++ {
			sep := rapid.SampledFrom(hashSeps).Draw(t, "sep")
			src := calls[rapid.IntRange(0, len(calls)-1).Draw(t, "from")]
			v := hashCase{NS: src.NS, Inputs: append([]string(nil), src.Inputs...)}
			switch rapid.IntRange(0, 4).Draw(t, "regroup") {
			case 0: // two neighbouring inputs become one
				if len(v.Inputs) >= 2 {
					k := rapid.IntRange(0, len(v.Inputs)-2).Draw(t, "at")
					v.Inputs = append(append(append([]string(nil), v.Inputs[:k]...), v.Inputs[k]+sep+v.Inputs[k+1]), v.Inputs[k+2:]...)
					cls["regroup:join-inputs"] = true
				}
			case 1: // the first input moves into the namespace
				if len(v.Inputs) >= 1 {
					v.NS, v.Inputs = v.NS+sep+v.Inputs[0], v.Inputs[1:]
					cls["regroup:namespace-takes-input"] = true
				}
			case 2: // an input is split where the separator occurs
				for k, in := range v.Inputs {
					if sep != "" && strings.Contains(in, sep) {
						parts := strings.SplitN(in, sep, 2)
						v.Inputs = append(append(append([]string(nil), v.Inputs[:k]...), parts...), v.Inputs[k+1:]...)
						cls["regroup:split-input"] = true
						break
					}
				}
			case 3: // the same call again
				cls["regroup:repeat"] = true
			default: // all inputs as one
				v.Inputs = []string{strings.Join(v.Inputs, sep)}
				cls["regroup:join-all"] = true
			}
			calls = append(calls, v)
		}
		c := hashSeqCase{Calls: calls}
		var cl []string
		for k := range cls {
			cl = append(cl, k)
		}
		r.Eval(len(cl) > 0, vf.Hash(c), cl...)
		if len(calls) == 3 && r.WantSample() {
			r.Sample(c)
		}
		r.Judge(t, c, checkHashSeq(c))
	})
}
