package c20

import (
	"encoding/hex"
	"encoding/json"
	"math/big"
	"strings"
	"sync"
	"testing"
	"unicode/utf8"

	"github.com/pentops/j5/internal/bcl/internal/verif/vf"
	"github.com/pentops/j5/lib/id62"
	"pgregory.net/rapid"
)

const prop = "C20"

type idCase struct {
	Hex string `json:"id_hex"`
}

type strCase struct {
	S string `json:"s"`
}

type hashCase struct {
	NS     string   `json:"namespace"`
	Inputs []string `json:"inputs"`
}

var lanes = map[string]vf.LaneFunc{
	"roundtrip": func(raw json.RawMessage) ([]vf.Failure, error) {
		var c idCase
		if err := json.Unmarshal(raw, &c); err != nil {
			return nil, err
		}
		return checkID(c), nil
	},
	"boundary": func(raw json.RawMessage) ([]vf.Failure, error) {
		var c idCase
		if err := json.Unmarshal(raw, &c); err != nil {
			return nil, err
		}
		return checkID(c), nil
	},
	"parse": func(raw json.RawMessage) ([]vf.Failure, error) {
		var c strCase
		if err := json.Unmarshal(raw, &c); err != nil {
			return nil, err
		}
		return checkStr(c), nil
	},
	"hash": func(raw json.RawMessage) ([]vf.Failure, error) {
		var c hashCase
		if err := json.Unmarshal(raw, &c); err != nil {
			return nil, err
		}
		return checkHash(c), nil
	},
}

func TestReplay(t *testing.T) {
	if !vf.RunReplayMode(t, prop, lanes) {
		t.Skip("no VERIF_REPLAY")
	}
}

func TestWitness(t *testing.T) { vf.Witnesses(t, prop, lanes) }

func isAlnum(b byte) bool {
	return (b >= '0' && b <= '9') || (b >= 'A' && b <= 'Z') || (b >= 'a' && b <= 'z')
}

// checkID: the rendering obligations of one identifier.
func checkID(c idCase) (fails []vf.Failure) {
	raw, err := hex.DecodeString(c.Hex)
	if err != nil || len(raw) != 16 {
		return []vf.Failure{vf.Failf("harness|badcase", "bad case %q", c.Hex)}
	}
	var id id62.UUID
	copy(id[:], raw)
	var s string
	if f := vf.Guard("String", func() { s = id.String() }); f != nil {
		return append(fails, *f)
	}
	if len(s) != 22 {
		fails = append(fails, vf.Failf("shape|len", "String(%s) = %q has length %d, want 22", c.Hex, s, len(s)))
	}
	for i := 0; i < len(s); i++ {
		if !isAlnum(s[i]) {
			fails = append(fails, vf.Failf("shape|alphabet", "String(%s) = %q has byte %q outside [0-9A-Za-z]", c.Hex, s, s[i]))
			break
		}
	}
	if !id62.Pattern.MatchString(s) {
		fails = append(fails, vf.Failf("shape|pattern", "String(%s) = %q does not match id62.Pattern", c.Hex, s))
	}
	var back id62.UUID
	var perr error
	if f := vf.Guard("Parse", func() { back, perr = id62.Parse(s) }); f != nil {
		return append(fails, *f)
	}
	if perr != nil {
		fails = append(fails, vf.Failf("roundtrip|error", "Parse(String(%s)=%q): %v", c.Hex, s, perr))
	} else if back != id {
		fails = append(fails, vf.Failf("roundtrip|diff", "Parse(String(%s)=%q) = %x", c.Hex, s, back[:]))
	}
	return fails
}

// digitValues recovers the implementation's own digit alphabet from the
// renderings of 0..61, so the reference below does not hard-code one.
var digitOnce sync.Once
var digitVal map[byte]int

func digits() map[byte]int {
	digitOnce.Do(func() {
		digitVal = map[byte]int{}
		for k := 0; k < 62; k++ {
			var id id62.UUID
			id[15] = byte(k)
			s := id.String()
			if len(s) == 0 {
				continue
			}
			digitVal[s[len(s)-1]] = k
		}
	})
	return digitVal
}

var two128 = new(big.Int).Lsh(big.NewInt(1), 128)

// refValue is an independent base-62 evaluation of a string consisting only of
// alphabet digits; ok=false when the string has any other byte or is empty.
func refValue(s string) (*big.Int, bool) {
	dv := digits()
	if len(dv) != 62 || len(s) == 0 {
		return nil, false
	}
	v := new(big.Int)
	b62 := big.NewInt(62)
	for i := 0; i < len(s); i++ {
		d, ok := dv[s[i]]
		if !ok {
			return nil, false
		}
		v.Mul(v, b62)
		v.Add(v, big.NewInt(int64(d)))
	}
	return v, true
}

func checkStr(c strCase) (fails []vf.Failure) {
	var got id62.UUID
	var err error
	if f := vf.Guard("Parse", func() { got, err = id62.Parse(c.S) }); f != nil {
		return append(fails, *f)
	}
	if len(c.S) > 1 && c.S[0] == '-' {
		// a negative number does not fit in 16 bytes whatever its magnitude
		if v, ok := refValue(c.S[1:]); ok && v.Sign() > 0 && err == nil {
			fails = append(fails, vf.Failf("accept|negative", "Parse(%q) accepted a negative value (got %x)", c.S, got[:]))
		}
	}
	if v, ok := refValue(c.S); ok {
		if v.Cmp(two128) >= 0 && err == nil {
			fails = append(fails, vf.Failf("accept|overflow", "Parse(%q) accepted a value >= 2^128 (got %x)", c.S, got[:]))
		}
		if err == nil && v.Cmp(two128) < 0 && len(c.S) == 22 {
			// a canonical-shape string that is accepted must denote its own value
			want := make([]byte, 16)
			v.FillBytes(want)
			if hex.EncodeToString(want) != hex.EncodeToString(got[:]) {
				fails = append(fails, vf.Failf("parse|value", "Parse(%q) = %x, base-62 value is %x", c.S, got[:], want))
			}
		}
	}
	return fails
}

func checkHash(c hashCase) (fails []vf.Failure) {
	var a, b id62.UUID
	if f := vf.Guard("NewHash", func() { a = id62.NewHash(c.NS, c.Inputs...) }); f != nil {
		return append(fails, *f)
	}
	var wg sync.WaitGroup
	res := make([]id62.UUID, 2)
	for i := range res {
		wg.Add(1)
		go func() {
			defer wg.Done()
			cp := append([]string(nil), c.Inputs...)
			res[i] = id62.NewHash(c.NS, cp...)
		}()
	}
	wg.Wait()
	b = id62.NewHash(c.NS, c.Inputs...)
	if a != b || a != res[0] || a != res[1] {
		fails = append(fails, vf.Failf("hash|impure", "NewHash(%q,%q) gave %x, %x, %x, %x", c.NS, c.Inputs, a[:], b[:], res[0][:], res[1][:]))
	}
	fails = append(fails, checkID(idCase{Hex: hex.EncodeToString(a[:])})...)
	return fails
}

// ---------------------------------------------------------------------------

func genID() *rapid.Generator[idCase] {
	return rapid.Custom(func(t *rapid.T) idCase {
		var raw []byte
		switch rapid.IntRange(0, 9).Draw(t, "shape") {
		case 0: // k leading zero bytes
			k := rapid.IntRange(1, 15).Draw(t, "k")
			raw = append(make([]byte, k), rapid.SliceOfN(rapid.Byte(), 16-k, 16-k).Draw(t, "tail")...)
		case 1: // near a power of 62
			k := rapid.IntRange(0, 21).Draw(t, "k")
			d := rapid.Int64Range(-3, 3).Draw(t, "d")
			v := new(big.Int).Exp(big.NewInt(62), big.NewInt(int64(k)), nil)
			v.Add(v, big.NewInt(d))
			if v.Sign() < 0 {
				v.SetInt64(0)
			}
			raw = make([]byte, 16)
			v.FillBytes(raw)
		case 2: // high bits set
			raw = rapid.SliceOfN(rapid.Byte(), 16, 16).Draw(t, "b")
			raw[0] |= 0xF0
		default:
			raw = rapid.SliceOfN(rapid.Byte(), 16, 16).Draw(t, "b")
		}
		return idCase{Hex: hex.EncodeToString(raw)}
	})
}

func TestRoundtrip(t *testing.T) {
	r := vf.Start(t, prop, "roundtrip")
	rapid.Check(t, func(t *rapid.T) {
		c := genID().Draw(t, "id")
		fails := checkID(c)
		nz := c.Hex != "00000000000000000000000000000000"
		cls := "uniform"
		if c.Hex[:2] == "00" {
			cls = "leading-zero-byte"
		}
		r.Eval(nz, vf.Hash(c.Hex), cls)
		if nz && r.WantSample() {
			var id id62.UUID
			raw, _ := hex.DecodeString(c.Hex)
			copy(id[:], raw)
			r.Sample(map[string]string{"id_hex": c.Hex, "rendered": id.String()})
		}
		r.Judge(t, c, fails)
	})
}

// TestBoundary enumerates the boundary set of the property completely.
func TestBoundary(t *testing.T) {
	r := vf.Start(t, prop, "boundary")
	seen := map[string]bool{}
	add := func(class string, v *big.Int) {
		if v.Sign() < 0 || v.Cmp(two128) >= 0 {
			return
		}
		raw := make([]byte, 16)
		v.FillBytes(raw)
		c := idCase{Hex: hex.EncodeToString(raw)}
		if seen[c.Hex] {
			return
		}
		seen[c.Hex] = true
		r.Eval(true, vf.Hash(c.Hex), class)
		if class == "pow62" && r.WantSample() {
			r.Sample(c)
		}
		r.JudgeNoFatal(c, checkID(c))
	}
	add("zero", big.NewInt(0))
	add("all-one", new(big.Int).Sub(two128, big.NewInt(1)))
	for i := 0; i < 128; i++ {
		add("single-bit", new(big.Int).Lsh(big.NewInt(1), uint(i)))
		add("single-zero-bit", new(big.Int).Xor(new(big.Int).Sub(two128, big.NewInt(1)), new(big.Int).Lsh(big.NewInt(1), uint(i))))
	}
	for k := 1; k <= 15; k++ {
		// k leading zero bytes followed by 0xff.. and by 0x01 00..
		v := new(big.Int).Sub(new(big.Int).Lsh(big.NewInt(1), uint(8*(16-k))), big.NewInt(1))
		add("leading-zero-bytes", v)
		add("leading-zero-bytes", new(big.Int).Lsh(big.NewInt(1), uint(8*(16-k)-8)))
	}
	for k := 0; k <= 22; k++ {
		p := new(big.Int).Exp(big.NewInt(62), big.NewInt(int64(k)), nil)
		for d := int64(-2); d <= 2; d++ {
			add("pow62", new(big.Int).Add(p, big.NewInt(d)))
		}
	}
	for d := int64(1); d <= 64; d++ {
		add("near-max", new(big.Int).Sub(two128, big.NewInt(d)))
		add("near-zero", big.NewInt(d))
	}
	r.SetExhaustive()
}

var alnum = []rune("0123456789ABCDEFGHIJKLMNOPQRSTUVWXYZabcdefghijklmnopqrstuvwxyz")

func genStr() *rapid.Generator[strCase] {
	return rapid.Custom(func(t *rapid.T) strCase {
		switch rapid.IntRange(0, 8).Draw(t, "kind") {
		case 8: // one character over and over (zero padding beyond the canonical length, ...)
			ch := rapid.SampledFrom([]rune{'0', '0', '0', 'z', 'Z', '7', '-', ' '}).Draw(t, "ch")
			n := rapid.SampledFrom([]int{0, 1, 21, 22, 23, 24, 40, 100, 300}).Draw(t, "replen")
			s := strings.Repeat(string(ch), n)
			if rapid.Bool().Draw(t, "tail") {
				s += string(rapid.SampledFrom(alnum).Draw(t, "tailch"))
			}
			return strCase{S: s}
		case 7: // a sign in front of digits
			n := rapid.SampledFrom([]int{1, 2, 21, 22, 23}).Draw(t, "signedlen")
			rs := rapid.SliceOfN(rapid.SampledFrom(alnum), n, n).Draw(t, "d")
			return strCase{S: rapid.SampledFrom([]string{"-", "+", "--", "-+"}).Draw(t, "sign") + string(rs)}
		case 6: // spellings of 16-byte identifiers in other conventions: hex, UUID forms
			hexd := []rune("0123456789abcdefABCDEF")
			n := rapid.SampledFrom([]int{16, 21, 22, 23, 31, 32, 33}).Draw(t, "hexlen")
			rs := rapid.SliceOfN(rapid.SampledFrom(hexd), n, n).Draw(t, "hex")
			if rapid.IntRange(0, 3).Draw(t, "allf") == 0 {
				for i := range rs {
					rs[i] = 'f'
				}
			}
			h := string(rs)
			switch rapid.IntRange(0, 3).Draw(t, "uuidform") {
			case 1:
				if n == 32 {
					h = h[:8] + "-" + h[8:12] + "-" + h[12:16] + "-" + h[16:20] + "-" + h[20:]
				}
			case 2:
				h = "urn:uuid:" + h
			case 3:
				h = "{" + h + "}"
			}
			return strCase{S: h}
		case 0: // any runes any length
			return strCase{S: rapid.String().Draw(t, "s")}
		case 1: // arbitrary bytes (may be invalid UTF-8)
			return strCase{S: string(rapid.SliceOfN(rapid.Byte(), 0, 40).Draw(t, "b"))}
		case 2: // digit strings around the 2^128 boundary: length 21..24
			n := rapid.IntRange(21, 24).Draw(t, "n")
			rs := rapid.SliceOfN(rapid.SampledFrom(alnum), n, n).Draw(t, "d")
			return strCase{S: string(rs)}
		case 3: // exact neighbourhood of 2^128 rendered in the implementation's alphabet
			d := rapid.Int64Range(-40, 40).Draw(t, "d")
			v := new(big.Int).Add(two128, big.NewInt(d))
			return strCase{S: renderRef(v)}
		case 4: // digits with one foreign character spliced in
			rs := rapid.SliceOfN(rapid.SampledFrom(alnum), 1, 30).Draw(t, "d")
			i := rapid.IntRange(0, len(rs)-1).Draw(t, "i")
			rs[i] = rapid.SampledFrom([]rune{'-', '+', '_', ' ', '.', '/', '=', 0, 'é', '٣', '\n', 0x10FFFF}).Draw(t, "x")
			return strCase{S: string(rs)}
		default: // long digit strings
			n := rapid.IntRange(0, 300).Draw(t, "n")
			rs := rapid.SliceOfN(rapid.SampledFrom(alnum), n, n).Draw(t, "d")
			return strCase{S: string(rs)}
		}
	})
}

// renderRef renders v in base 62 using the implementation's digit alphabet.
func renderRef(v *big.Int) string {
	dv := digits()
	inv := make([]byte, 62)
	for ch, k := range dv {
		inv[k] = ch
	}
	if v.Sign() == 0 {
		return string(inv[0])
	}
	v = new(big.Int).Set(v)
	b62 := big.NewInt(62)
	m := new(big.Int)
	var out []byte
	for v.Sign() > 0 {
		v.DivMod(v, b62, m)
		out = append([]byte{inv[m.Int64()]}, out...)
	}
	return string(out)
}

func TestParse(t *testing.T) {
	r := vf.Start(t, prop, "parse")
	if len(digits()) != 62 {
		r.JudgeNoFatal(strCase{}, []vf.Failure{vf.Failf("shape|alphabet62", "renderings of 0..61 use %d distinct final characters, want 62", len(digits()))})
		t.Fail()
		return
	}
	rapid.Check(t, func(t *rapid.T) {
		c := genStr().Draw(t, "s")
		fails := checkStr(c)
		v, isDigits := refValue(c.S)
		cls := "non-digit"
		if isDigits {
			if v.Cmp(two128) >= 0 {
				cls = "digits>=2^128"
			} else {
				cls = "digits<2^128"
			}
		} else if !utf8.ValidString(c.S) {
			cls = "invalid-utf8"
		}
		r.Eval(c.S != "", vf.Hash(c.S), cls)
		if cls == "digits>=2^128" && r.WantSample() {
			r.Sample(c)
		}
		r.Judge(t, c, fails)
	})
}

func TestHash(t *testing.T) {
	r := vf.Start(t, prop, "hash")
	rapid.Check(t, func(t *rapid.T) {
		c := hashCase{
			NS:     rapid.String().Draw(t, "ns"),
			Inputs: rapid.SliceOfN(rapid.String(), 0, 5).Draw(t, "inputs"),
		}
		fails := checkHash(c)
		r.Eval(len(c.Inputs) > 0, vf.Hash(c.NS, c.Inputs), "hash")
		if len(c.Inputs) > 1 && r.WantSample() {
			r.Sample(c)
		}
		r.Judge(t, c, fails)
	})
}
