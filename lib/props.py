"""Property table for the driver: package, lanes, budgets, evidence texts."""

PROPS = {}


def lane(test, lane, quick, thorough, shards=1, **kw):
    d = {"test": test, "lane": lane, "quick": quick, "thorough": thorough, "shards": shards, "min_frac": 0.99}
    d.update(kw)
    return d


PROPS["C20"] = {
    "pkg": "c20",
    "level": "exploration",
    "technique": "property-based testing (rapid) + complete enumeration of the stated boundary set; round-trip and big-integer reference oracles",
    "level_text": ("Random and boundary-exhaustive exploration of the identifier space and of parser inputs against a round-trip oracle "
                   "(Parse(String(id)) == id, length 22, alphabet, published pattern) and an independent base-62 big-integer reference "
                   "for the overflow rule. The boundary lane is complete for the values the property names; the rest is sampled."),
    "level_note": "Sampled, not exhaustive, over 2^128 ids and over strings; trusted base: Go math/big in the reference, rapid generators.",
    "rule": ("roundtrip: 16-byte ids drawn by rapid (uniform, k leading zero bytes, 62^k+-3, high bits set); boundary: complete "
             "enumeration of zero, all-one, 128 single-bit and single-zero-bit values, leading-zero-byte values, 62^k+-2 (k=0..22), "
             "64 values next to 0 and 2^128-1; parse: strings from any runes / raw bytes / base-62 digit strings of length 21-24 / "
             "the exact +-40 neighbourhood of 2^128 / digits with a foreign rune / up to 300 digits; hash: NewHash called 4 times, "
             "twice concurrently. Non-trivial: id != 0 (roundtrip, boundary), string non-empty (parse), >=1 input (hash); distinct by "
             "64-bit hash of the case."),
    "assumptions": ["the digit alphabet used by the overflow reference is recovered from String() of 0..61 (not hard-coded)",
                    "signed strings such as \"-1\" are outside the statement and not judged"],
    "lanes": [
        lane("TestBoundary", "boundary", 0, 0, norapid=True, must_classes=["pow62", "single-bit"]),
        lane("TestRoundtrip", "roundtrip", 100000, 400000, shards=16),
        lane("TestParse", "parse", 100000, 400000, shards=16, must_classes=["digits>=2^128", "digits<2^128", "non-digit"]),
        lane("TestHash", "hash", 5000, 50000, shards=4),
    ],
}
