"""Property table for the driver: package, lanes, budgets, evidence texts."""

PROPS = {}


def lane(test, lane, quick, thorough, shards=1, **kw):
    d = {"test": test, "lane": lane, "quick": quick, "thorough": thorough, "shards": shards, "min_frac": 0.99}
    d.update(kw)
    return d


def fuzz(test, seconds=90, procs=8):
    """Native coverage-guided fuzzing (go test -fuzz), thorough tier only, wall-clock budget. Go's fuzzer cannot be
    pinned to a seed: the reproducible unit is the saved input, re-judged through TestFuzzInput and the replay path."""
    return {"test": test, "lane": "fuzz", "quick": 0, "thorough": 0, "shards": 1, "min_frac": None, "norapid": True,
            "fuzz": True, "fuzztime": seconds, "fuzzprocs": procs, "thorough_only": True, "timeout_thorough": seconds + 600}


PROPS["C20"] = {
    "pkg": "c20",
    "level": "exploration",
    "technique": "property-based testing (rapid) + complete enumeration of the stated boundary set; round-trip and big-integer reference oracles",
    "level_text": ("Random and boundary-exhaustive exploration of the identifier space and of parser inputs against a round-trip oracle "
                   "(Parse(String(id)) == id, length 22, alphabet, published pattern) and an independent base-62 big-integer reference "
                   "for the overflow rule. The boundary lane is complete for the values the property names; the rest is sampled."),
    "level_note": "Sampled, not exhaustive, over 2^128 ids and over strings; trusted base: Go math/big in the reference, rapid generators.",
    "rule": ("roundtrip: 16-byte ids drawn by rapid (uniform, k leading zero bytes, 62^k+-3, high bits set); boundary: complete "
             "enumeration of zero, all-one, 128 single-bit and single-zero-bit values, leading-zero-byte values, 62^k+-2 (k=0..22), "
             "64 values next to 0 and 2^128-1; parse: strings from any runes / raw bytes / base-62 digit strings of length 21-24 / "
             "the exact +-40 neighbourhood of 2^128 / digits with a foreign rune / up to 300 digits; hash: NewHash called 4 times, "
             "twice concurrently; pattern: a key:id62 field in 7 positions (plain, required, optional, array item, map value, entity key, request/response) is compiled and the emitted (buf.validate) string pattern must equal the published pattern, match String() of generated ids and reject near-misses. Non-trivial: id != 0 (roundtrip, boundary), string non-empty (parse), >=1 input (hash); distinct by "
             "64-bit hash of the case."),
    "assumptions": ["the digit alphabet used by the overflow reference is recovered from String() of 0..61 (not hard-coded)",
                    "signed strings such as \"-1\" are outside the statement and not judged"],
    "lanes": [
        lane("TestBoundary", "boundary", 0, 0, norapid=True, must_classes=["pow62", "single-bit"]),
        lane("TestRoundtrip", "roundtrip", 100000, 400000, shards=16),
        lane("TestParse", "parse", 100000, 400000, shards=16, must_classes=["digits>=2^128", "digits<2^128", "non-digit"]),
        lane("TestHash", "hash", 5000, 50000, shards=4),
        lane("TestHashOrder", "hashorder", 150, 1500, shards=4, must_classes=["regroup:join-inputs", "regroup:namespace-takes-input", "regroup:join-all"]),
        lane("TestPattern", "pattern", 150, 1500, shards=4, must_classes=["position:array", "position:entity", "position:request"]),
    ],
}

PROPS["C11"] = {
    "pkg": "c11",
    "level": "exploration",
    "technique": "bounded-exhaustive token-sequence enumeration + property-based testing (rapid) with token mutators; validity-predicate oracle; native fuzz lane in thorough",
    "level_text": ("Every sequence of up to L spellings from a 29-entry token alphabet (L=4 quick: 1.46 M inputs, L=5 thorough: 42 M inputs; joined with and without spaces) is "
                   "enumerated completely, and random Unicode/byte strings, single/double token mutations of generated valid files and the "
                   "repository's own sources are explored, each in both fail-fast and collect-all mode, against a validity predicate: returns "
                   "within a watchdog, tree xor non-empty diagnostics, every diagnostic and node position inside the input with start<=end, "
                   "first collect-all diagnostic equals the fail-fast one, HumanString(0,1,3) does not panic."),
    "level_note": "Complete only up to L over the chosen spellings; termination is observed under a 30 s watchdog, not proven; node walk covers the exported tree (blocks, tags, qualifiers, assignments, values, descriptions, trailing comments).",
    "rule": ("exhaustive: all sequences of length<=L over the token alphabet (incl. unterminated string/regex/block comment, bad escape, second dot, "
             "multi-byte identifier, foreign character) x 2 joiners; random: rapid strings over all runes, raw bytes, hostile fragments; mutate: "
             "bclgen valid file with token delete/insert/swap/duplicate/truncate (25% twice); corpus: repo fixtures + unmutated bclgen files. "
             "Non-trivial: input yields at least one token (or is non-blank when the lexer rejects it); distinct by 64-bit hash of the text (the enumeration shards partition the sequences; their distinct counts are summed, so a text that two different sequences spell is counted once per shard). fuzz (thorough): native go fuzzing of FuzzParse for a wall-clock budget; crashers are re-judged through the same check and replay path."),
    "assumptions": ["a line is a maximal run between \n characters; columns are counted in runes; column == line length (EOL/EOF position) is inside the file"],
    "lanes": [
        lane("TestExhaustive", "exhaustive", 0, 0, norapid=True, shards=16, quick_shards=8, disjoint_shards=True, must_classes=["accepted", "parse-error", "lex-error"]),
        lane("TestRandom", "random", 30000, 150000, shards=8),
        lane("TestMutate", "mutate", 15000, 60000, shards=16, must_classes=["parse-error"]),
        lane("TestCorpus", "corpus", 5000, 20000, shards=4, must_classes=["accepted"]),
        lane("TestDeep", "deep", 0, 0, norapid=True, shards=1, must_classes=["shape:array", "shape:block"]),
        fuzz("FuzzParse"),
    ],
}

PROPS["C09"] = {
    "pkg": "c09",
    "level": "exploration",
    "technique": "property-based testing (rapid) with a grammar-directed source generator; round-trip (parse-format-parse) tree equality and idempotence oracles",
    "level_text": ("Generated BCL/j5s sources (every token kind and statement shape, escapes, regex slashes, nested arrays, comments, multi-line "
                   "descriptions, blank-line and indentation noise) that the parser accepts are formatted; the output must parse, denote the same "
                   "position-free tree (types, tags+marks, qualifiers, open/closed, nesting, keys, operators, literal kind+value, trailing comments, "
                   "descriptions as paragraphs of words), carry the same comment tokens, and be a fixed point of the formatter."),
    "level_note": "Sampled over the generator's space; trees are compared through the exported AST (literal kind and value via Value.GoString); comments and descriptions are compared modulo surrounding whitespace.",
    "rule": ("generated: bclgen.File (1-40 statements, depth<=4); strings: one string/regex literal over the escapable alphabet plus arbitrary runes "
             "in tag, qualifier, array and assignment position; corpus: repository .bcl/.j5s files. Inputs the parser rejects are discarded and counted. "
             "Non-trivial: text contains an escape, a '/' in a regex or value, an array, a block comment, a multi-line description, a qualifier, "
             "a trailing comment or non-canonical blank lines; distinct by 64-bit hash of the text."),
    "assumptions": ["CRLF-free input, as the quantifier states"],
    "lanes": [
        lane("TestCorpus", "corpus", 0, 0, norapid=True),
        lane("TestGenerated", "generated", 20000, 100000, shards=16, must_classes=["escaped-newline", "block-comment", "multiline-description", "array"]),
        lane("TestStrings", "strings", 20000, 100000, shards=8),
        fuzz("FuzzFmt"),
    ],
}

PROPS["C19"] = {
    "pkg": "c19",
    "level": "exploration",
    "technique": "property-based testing (rapid); differential oracle: independent LSP-style edit applier vs the formatter output, plus edit well-formedness predicate",
    "level_text": ("For generated sources the formatter accepts, FmtDiffs must return without error; the edits must be ascending, non-overlapping and "
                   "within [0,#lines]; applying them with an independent line-range applier (all ranges relative to the original text) must give "
                   "Fmt(x) up to trailing blank lines."),
    "level_note": "Sampled; #lines is len(split(text,'\\n')); the applier clamps (L=#lines,0) to end of document as LSP clients do.",
    "rule": ("generated: bclgen.File; lines: documents assembled from a pool of 23 line shapes (trailing comments, multi-line tokens, blank runs, "
             "two statements on a line); corpus: repository files as they are and with indentation stripped / blank lines doubled. "
             "Non-trivial: at least one edit is produced; distinct by 64-bit hash of the text."),
    "assumptions": [],
    "lanes": [
        lane("TestCorpus", "corpus", 0, 0, norapid=True),
        lane("TestGenerated", "generated", 20000, 100000, shards=16, must_classes=["has-edits", "trailing-comment", "multiline-block-comment"]),
        lane("TestLines", "lines", 30000, 150000, shards=8, must_classes=["has-edits", "two-statements-one-line", "multiline-token"]),
        fuzz("FuzzDiffs"),
    ],
}

PROPS["C01"] = {
    "pkg": "c01",
    "level": "exploration",
    "technique": "property-based testing (rapid): generated proto3 schemas x generated messages; round-trip oracle with an explicit field-by-field equivalence",
    "level_text": ("Schemas are generated as raw proto descriptors in the J5-supported subset (objects, flagged/implicit oneof wrappers, exposed oneofs, "
                   "flatten, enums incl. prefix-ambiguous names, arrays and maps of scalars/enums/objects/oneofs, every scalar kind, key/date/decimal/"
                   "timestamp/bytes, j5 and protobuf Any, recursion, nesting) and messages inside the documented wire domain; encode must succeed, "
                   "decode of the output must succeed, and the result must equal the original under exactly the stated equivalence (decimals numeric, "
                   "empty flattened object absent, Any by type+payload)."),
    "level_note": "Sampled; schemas compiled from generated j5s are added as a second lane once the j5s generator exists. Equivalence is the harness's own walker, not proto.Equal on normalised copies.",
    "rule": ("raw: pgen.Draw(Supported) 1-6 messages/0-3 enums per schema, 1-6 mgen messages per schema (root populated densely, depth<=4). "
             "Non-trivial: message has a nested object, a set oneof (wrapper or exposed), an array/map of messages, a 64-bit boundary value, an "
             "optional field at its zero value, an Any, or text needing escapes / non-BMP runes. Distinct by hash(schema bytes, root, message bytes)."),
    "assumptions": ["the harness's reading of which proto shapes are oneof wrappers / exposed oneofs / flattened (j5ref) matches the documented annotations"],
    "lanes": [
        lane("TestRaw", "raw", 1500, 6000, shards=16, must_classes=["msg:exposed-oneof-set", "msg:wrapper-oneof-set", "msg:map-of-messages", "schema:flatten", "schema:any", "schema:plain-oneof-named-type", "msg:date-leap-century"]),
        lane("TestCompiled", "compiled", 250, 800, shards=16),
    ],
}

PROPS["C08"] = {
    "pkg": "c08",
    "level": "exploration",
    "technique": "property-based testing (rapid): differential against an independent descriptor-driven reference encoder, plus a strict RFC 8259 parser",
    "level_text": ("Every encoding of a generated (schema, message) pair is parsed by the harness's own strict RFC 8259 parser (no NaN, no bad escapes, no "
                   "trailing bytes, duplicate keys detected) and compared member by member with a reference document computed from descriptor and "
                   "message alone: bare 32-bit ints/floats/bools, quoted 64-bit ints and decimals, padded std base64, RFC3339 'Z' timestamps (same instant), "
                   "zero-padded dates, short enum names, oneof = {!type, key}, Any = {!type, value}, flatten inlined, member present iff set, JSON names. "
                   "A second lane adds non-finite floats and out-of-range dates/timestamps and requires only error-or-valid-JSON."),
    "level_note": "Sampled; the reference encoder is the harness's reading of README 'Scalar Types' and annotations.proto; floats compared by value, decimals numerically, timestamps by instant.",
    "rule": ("raw: as C01 (pgen Supported x mgen); extended: same with NaN/+-Inf floats, years outside 0001-9999. Non-trivial: document has a oneof/Any "
             "(!type), an array of objects, text needing escapes, or >2 value classes (raw); contains a non-finite float or out-of-range date/time (extended). "
             "Distinct by hash(schema bytes, root, message bytes)."),
    "assumptions": ["same j5ref interpretation as C01"],
    "lanes": [
        lane("TestRaw", "raw", 1500, 6000, shards=16, must_classes=["msg:exposed-oneof-set", "msg:wrapper-oneof-set", "schema:flatten", "schema:any"]),
        lane("TestExtended", "extended", 600, 3000, shards=8, must_classes=["msg:non-finite-float", "msg:out-of-range-date"]),
        lane("TestCompiled", "compiled", 250, 800, shards=16),
    ],
}

PROPS["C06"] = {
    "pkg": "c06",
    "level": "exploration",
    "technique": "bounded-exhaustive shape x position x kind matrix + property-based hostile mutation of canonical documents (rapid) + deep-nesting ladder; totality oracle (no panic, returns under watchdog); native fuzz lane in thorough",
    "level_text": ("A fixed schema carrying every J5 field kind in every position (plain, optional, array element, map value, oneof arm, exposed-oneof arm, "
                   "flattened, nested) is attacked with a complete matrix of 27 JSON shapes per cell (null, wrong types, nested nulls, !type-only, two arms, "
                   "duplicate keys...), a nesting ladder up to 12 000 levels (200 000 in thorough) on recursive types, huge tokens, rapid-generated "
                   "mutations of canonical documents of generated schemas (subtree replacement, duplicate keys, truncation, stray bytes, invalid UTF-8) "
                   "and arbitrary url.Values. Oracle: the call returns nil or an error, without panic, within a 20 s watchdog."),
    "level_note": "The matrix is complete for the listed shapes/positions/kinds only; termination is observed (watchdog), not proven; a Go fatal error kills the worker and is attributed through the case journal.",
    "rule": ("matrix: 19 kinds x 20 positions x 27 shapes on fixed.v1.All (+ root/containers); deep: 12 templates x depths {1..12000}; mutate: pgen Supported "
             "schema, mgen message, canonical encoding, 1-3 tree mutations + optional byte mutation, 4 documents per message; query: 0-4 keys from field "
             "names/dotted paths/any string with 0-3 values. Non-trivial: the input is not a document the encoder could have produced (matrix, deep>1, "
             "mutated != canonical, >=1 query key). Distinct by hash of (target, input)."),
    "assumptions": [],
    "lanes": [
        lane("TestMatrix", "matrix", 0, 0, norapid=True, must_classes=["pos:array-element", "pos:map-value", "pos:oneof-type-only", "pos:grid:plain", "pos:grid:query"]),
        lane("TestDeep", "deep", 0, 0, norapid=True),
        lane("TestMutate", "mutate", 1200, 5000, shards=16),
        lane("TestQuery", "query", 20000, 80000, shards=8, must_classes=["punct-key"]),
        fuzz("FuzzDecode"),
    ],
}

PROPS["C03"] = {
    "pkg": "c03",
    "level": "exploration",
    "technique": "property-based testing (rapid): metamorphic spelling variations of a reference encoding (must decode to the original message) and single-fault injection (must be rejected); differential query-vs-JSON lane",
    "level_text": ("The harness's own reference encoding of a generated message is (A) rewritten with any combination of the documented alternate spellings "
                   "(quoted/bare numbers incl. uint64 > 2^63 and decimals, URL-safe / unpadded base64, enum with prefix, RFC3339 at another offset, member "
                   "reorder, whitespace, explicit null for absent members) and must decode to a message equivalent to the original; (B) given exactly one "
                   "fault from the listed classes at a random position (top level, nested, array element, map value, oneof arm) and must be rejected "
                   "without panic; (C) scalar members moved to url.Values (dotted paths, repeated values for scalar arrays) must decode to the same "
                   "message as the same members spelled in JSON."),
    "level_note": "Sampled. Inputs the statement does not classify are never generated (1e2 / 1.0 into integers, month 13 in a date, trailing bytes, NaN strings). Faults inside an Any's pre-encoded payload are not injected (opaque to the outer decoder without a resolver).",
    "rule": ("spelling: 4 variants per (schema, message); fault: 6 single-fault documents per (schema, message), fault class and site drawn by rapid; "
             "query: one url.Values per (schema, message). Non-trivial: >=2 variations combined (spelling), fault at depth>=1 (fault), >=2 query keys "
             "or a dotted path (query). Distinct by hash(schema, root, document)."),
    "assumptions": ["README 'Scalar Types': all number types (ints, floats, decimal) may be quoted or unquoted; base64 URL or standard, with or without padding"],
    "lanes": [
        lane("TestSpelling", "spelling", 800, 4000, shards=16, must_classes=["var:bare-int64", "var:base64-url", "var:enum-with-prefix", "var:timestamp-offset", "var:explicit-null", "var:reorder"]),
        lane("TestFault", "fault", 800, 4000, shards=16, must_classes=["fault:two-keys-in-oneof", "fault:type-contradicts-key", "fault:type-contradicts-key:type-last", "fault:unknown-key", "fault:two-members-of-plain-oneof", "pos:array-element", "pos:map-value", "pos:oneof-arm"]),
        lane("TestQuery", "query", 1500, 6000, shards=8, must_classes=["nested-path", "scalar-array", "list-shaped-element"]),
        lane("TestSpellingCompiled", "spelling-j5s", 200, 500, shards=16),
        lane("TestFaultCompiled", "fault-j5s", 200, 500, shards=16),
        lane("TestQueryCompiled", "query-j5s", 200, 500, shards=8),
    ],
}

PROPS["C10"] = {
    "pkg": "c10",
    "race": True,
    "level": "exploration",
    "technique": "property-based generation of concurrent workloads (rapid) executed under the Go race detector; differential against a sequential private codec",
    "level_text": ("Each case builds a schema with never-seen full names, 1-4 messages and 2-8 goroutines running generated sequences of encode / decode / "
                   "query-decode calls on one shared codec (a fresh instance, or the package-level default), released by a start barrier so that first uses "
                   "of a type overlap. The binary is built with -race (halt_on_error): any happens-before violation on executed accesses aborts the worker "
                   "and is attributed through the case journal; panics and deadlock (60 s) are failures; every call's result must equal the result of the "
                   "same call on a private codec run sequentially."),
    "level_note": "The race detector sees only executed accesses; schedules are whatever the Go scheduler produces, not enumerated; the thorough tier runs its shards at GOMAXPROCS 2, 3, 4, 8 and 16 to vary them. A journalled case that killed the worker is replayed in up to 12 fresh processes (25 repetitions of the scenario in each) to confirm; the sequential model of a case is computed after its concurrent phase so that process-wide state is cold for the concurrent operations.",
    "rule": ("fresh/global: pgen Supported schema with a unique package per case, mgen messages, threads x ops drawn by rapid (50% of cases force every "
             "goroutine's first op onto the same type; 25% pre-warm one type). Non-trivial: >=2 goroutines start on the same type that the shared "
             "cache has never seen. Distinct by hash(roots, messages, op lists)."),
    "assumptions": ["messages are cloned per call: the property is about the shared codec, not about sharing one message between goroutines"],
    "lanes": [
        lane("TestFresh", "fresh", 400, 2000, shards=16, gomaxprocs_cycle=[2, 3, 4, 8, 16], must_classes=["cold-type-contended", "recursive-types", "unbuildable-type", "types-in-three-packages", "message-outside-encoder-domain"]),
        lane("TestGlobal", "global", 300, 1500, shards=8, gomaxprocs_cycle=[2, 4, 8, 16], must_classes=["cold-type-contended"]),
    ],
}

PROPS["C18"] = {
    "pkg": "c18",
    "level": "exploration",
    "technique": "property-based testing (rapid) over arbitrary linked proto3 descriptor sets; totality + self-consistency predicates on the reflected schemas, codec smoke on every reflected type",
    "level_text": ("Raw proto3 files built from messages, nesting, enums with and without *_UNSPECIFIED, real/exposed/synthetic oneofs, maps with any key kind, "
                   "every scalar kind incl. fixed/sfixed, well-known types, self and mutual recursion, unchecked flatten, and (j5.ext.v1.*), (buf.validate.field), "
                   "(j5.list.v1.field) options consistent or not with their field. SchemaSetFromFiles / SchemaCache.Schema / Reflector.NewRoot must return "
                   "(value or error) without panic inside a watchdog; on success every property's proto path must resolve to a field of matching kind and "
                   "cardinality, property names must be unique per object, and the codec must encode (no error) and decode (no panic) an empty and a populated message."),
    "level_note": "Sampled; unbounded recursion kills the worker (stack overflow) and is attributed through the case journal.",
    "rule": ("arbitrary: pgen.Draw(Arbitrary) + one mgen message per message type. Non-trivial: the set has an unsupported scalar kind, a non-J5 well-known type, "
             "recursion, an unchecked flatten, a non-string map key, an enum without UNSPECIFIED or any validate/list/j5 option. Distinct by hash(files, messages)."),
    "assumptions": [],
    "lanes": [
        lane("TestArbitrary", "arbitrary", 1500, 6000, shards=16, must_classes=["nested-depth>=3", "nested-name-reused", "nested-twin-chains", "field-numbers-out-of-order", "enum-numbers-out-of-order", "flatten-cycle-off-root", "opt:generic:j5.ext.v1.field", "opt:generic:buf.validate.field", "opt:generic:j5.list.v1.field", "opt:generic:j5.ext.v1.message"]),
    ],
}

PROPS["C07"] = {
    "pkg": "c07",
    "level": "exploration",
    "technique": "complete isolation matrix (field type x rule x presence x container, each alone in a file) + property-based generation of whole bundles (rapid) + line/word mutation of valid sources; acceptance and totality/positioned-error oracles",
    "level_text": ("(b) acceptance: every bundle from the model-first j5s generator, and every cell of a complete matrix {field type/format} x {each rule, list rule, "
                   "ext attribute} x {none,!,?} x {plain,array,map} placed alone in a file (plus each kind of service, topic and entity alone), must compile and link; "
                   "(a) totality: random bytes, generic BCL text and 1-3 line/word mutations of generated valid files go through CompilePackage, LintFile and "
                   "LintAll: no panic, no hang (60 s), and a failure carries at least one position which lies inside the offending file."),
    "level_note": "The matrix is complete over the rule set the generator knows; float rules are excluded (the compiler rejects them with a deliberate 'not implemented' diagnostic).",
    "rule": ("accept: j5sgen.Draw(DefaultOpts) bundles (1-2 packages x 1-2 files, inline types to depth 3, imports, services, topics); matrix: enumerated; "
             "garbage: bytes / bclgen text / mutated generated file. Non-trivial: every accept and matrix case; garbage inputs that are not blank. Distinct by hash of the sources."),
    "assumptions": ["'inside the documented language' = what README and internal/j5s/README describe and the repository's own fixtures use; float rules are outside it"],
    "lanes": [
        lane("TestMatrix", "matrix", 0, 0, norapid=True, timeout_quick=900),
        lane("TestAccept", "accept", 400, 2500, shards=16),
        lane("TestGarbage", "garbage", 1500, 8000, shards=16, must_classes=["kind:mutated", "kind:bcl", "kind:bytes"]),
        lane("TestSemantic", "semantic", 400, 2500, shards=16, must_classes=["semantic:cross-file-cycle", "semantic:unknown-type", "semantic:required-and-optional", "semantic-at:oneof", "semantic-at:request", "semantic-at:inline-object", "semantic-at:entity-event", "semantic:field:unknown-enum"]),
        lane("TestAttributes", "attributes", 1600, 4000, shards=16, must_classes=["depth:2", "depth:3", "block:method", "block:entity", "block:field", "block:service", "block:topic", "assignment:accepted"]),
        fuzz("FuzzCompile"),
    ],
}

PROPS["C02"] = {
    "pkg": "c02",
    "level": "exploration",
    "technique": "property-based testing (rapid) with a model-first j5s generator; reference-model oracle: the expected descriptor contract is derived from the model by the README rules and compared both ways with the compiled descriptors",
    "level_text": ("A bundle model (1-3 packages x 1-3 files; objects, oneofs, enums top-level, explicitly nested and inline to depth 3; every field type and "
                   "qualifier form; arrays and maps; imports by package/alias, cross-file and cross-package refs; services with every verb and path parameters; "
                   "publish/reqres/upsert topics) is rendered to j5s text and compiled. An expected contract computed from the model alone - every message, "
                   "field (proto name, JSON name, number, type, cardinality, proto3-optional, required, oneof), enum and value (prefix, numbering), service, method "
                   "(request/response types, verb, path with {snake} parameters, body), topic role and name, implicit request/upsert field - must equal the "
                   "compiled descriptors line for line, in both directions; every referenced type's file must be imported."),
    "level_note": "Sampled; entities are covered by C17's own model. The expected model uses the harness's own snake/camel/SCREAMING functions, exact for the generator's vocabulary (no acronym runs or digits).",
    "rule": ("contract: j5sgen.Draw without rules (rules do not change structure). Non-trivial: >=2 files in a package, a cross-package reference, inline nesting "
             "depth>=2 or a service with a path parameter. Distinct by hash of the rendered sources."),
    "assumptions": ["README: field numbers are 1-based declaration positions; inline types nest under their parent message named CamelCase(field) unless overridden; enum prefix defaults to SCREAMING_SNAKE(name)_"],
    "lanes": [
        lane("TestContract", "contract", 400, 2000, shards=16, must_classes=["multi-file-package", "ref-cross-package", "inline-depth>=2", "path-parameter", "base-path-parameter", "topic:reqres", "topic:upsert", "topic:event", "reqres-multi", "method-options", "service-options", "enum-explicit-zero", "inline-shadows-type", "inline-shadows-type:with-reference", "inline-name-override"]),
        lane("TestMixed", "mixed", 300, 2000, shards=8, must_classes=["target:proto:object", "target:proto:enum", "target:other-package", "proto-uses-j5s", "import:alias", "import:file", "container:map"]),
    ],
}

PROPS["C14"] = {
    "pkg": "c14",
    "level": "exploration",
    "technique": "property-based testing (rapid): metamorphic comparison of byte-exact outputs across permuted listings, call orders, reused vs fresh PackageSets, repetitions and (thorough) separate processes",
    "level_text": ("For generated multi-file, multi-package bundles (map-valued enum option info, imports, services, topics, odd names) the deterministic marshalling of every "
                   "FileDescriptorProto and the PrintFile text are compared byte for byte between a baseline compile and: two in-process repetitions, a compile "
                   "with the file and package listings permuted, a compile of all packages on one shared PackageSet in a permuted (and repeating) call order, and in "
                   "the thorough tier a compile in a separate process (different Go map seeds)."),
    "level_note": "Sampled; separate processes sample a handful of hash seeds, not all. Go map iteration order differs between ranges even within a process, which is what the in-process repetitions exploit.",
    "rule": ("determinism: j5sgen.Draw (<=3 packages x <=3 files, odd names on). Non-trivial: >=2 files in a package and >=2 packages, or an enum option info map. "
             "Distinct by hash(sources, file order, call order)."),
    "assumptions": [],
    "lanes": [
        lane("TestDeps", "deps", 400, 4000, shards=4, must_classes=["neighbour:sub-package", "neighbour:longer-name", "own-files:2"]),
        lane("TestDeterminism", "determinism", 150, 800, shards=16, must_classes=["enum-option-info", "multi-package", "multi-file-package", "stale-generated-file", "nested-package", "earlier-compile", "imports-sharing-default-name"]),
    ],
}

PROPS["C13"] = {
    "pkg": "c13",
    "level": "exploration",
    "technique": "property-based generation of edit histories (rapid): metamorphic oracle - every element of compile(P_k) must reappear unchanged in compile(P_k+1)",
    "level_text": ("A generated bundle is edited 1-5 times, each edit appending one field to an object / nested or inline object / oneof / request / response / topic "
                   "message, one option to a top-level or inline enum, or one declaration to the end of a file. After each edit every message, field (name, number, "
                   "type, cardinality, optional, required, JSON name, oneof), enum value, service and method line of the previous compile must be present unchanged "
                   "in the new compile. The whole history is the replay unit and shrinks as one value."),
    "level_note": "Sampled; the comparison uses the same contract lines as C02 (read from the real descriptors on both sides, no expected model).",
    "rule": ("append: j5sgen.Draw (<=2 packages x <=2 files) + 1-5 append edits. Non-trivial: some edit hits a declaration that has inline/nested types or is not the "
             "last of its file. Distinct by hash(final sources, edit kinds)."),
    "assumptions": [],
    "lanes": [
        lane("TestAppend", "append", 150, 800, shards=16, must_classes=["not-last-in-file", "edit:option-to-enum", "edit:field-to-object", "edit:declaration-to-file", "name:shadows-top-level-type", "name:sorts-first", "name:option-ends-in-unspecified", "name:derives-existing-type-name", "name:option-with-number-in-use"]),
    ],
}

PROPS["C05"] = {
    "pkg": "c05",
    "level": "exploration",
    "technique": "property-based testing (rapid) + exhaustive pass over the repository's own proto files; round-trip oracle print -> protocompile -> descriptor equivalence -> print again",
    "level_text": ("Every file compiled from generated j5s bundles (descriptions, every rule and annotation, odd names such as userID / line2, enum option info, "
                   "services, topics) and every .proto file under the repository's proto/ tree is printed with protoprint, re-parsed and linked with "
                   "bufbuild/protocompile using the same import resolution, and compared with the original descriptor: package, import set, message tree, every field "
                   "(name, number, type, type name, label, proto3-optional, JSON name, oneof membership), enums and values, services and methods, every option and "
                   "extension value (both sides re-read through one resolver, proto.Equal), leading comments per descriptor. Printing the re-parsed file must give the same text."),
    "level_note": "Field / declaration order inside a message is not compared (not part of the statement). The repo lane is exhaustive over a finite set; the generated lane is sampled.",
    "rule": ("generated: j5sgen.Draw with odd names; repo: all proto/*/**.proto. Non-trivial: the bundle has descriptions, an option needing a nested message or map, "
             "an inline (nested) type or string rules; every repo file. Distinct by hash of the sources / (root, file)."),
    "assumptions": [],
    "lanes": [
        lane("TestRepo", "repo", 0, 0, norapid=True),
        lane("TestGenerated", "generated", 200, 1200, shards=16, must_classes=["description", "enum-option-info", "service", "topic"]),
    ],
}

PROPS["C12"] = {
    "pkg": "c12",
    "level": "exploration",
    "technique": "property-based testing (rapid): differential between a reference rule evaluator written from the j5s rule semantics and bufbuild/protovalidate-go on messages of the compiled type, with boundary-directed candidate values",
    "level_text": ("Single-field declarations (string length/pattern, key id62/uuid/custom/informal, integer bounds x both exclusivity flags x 4 formats, bytes length, "
                   "bool const, enum defined-only / in / not-in, arrays with min/max/unique and per-item rules; required / optional / plain) are compiled, and for "
                   "candidate values below / at / above every induced boundary (lengths counted in code points with multi-byte runes, matching and non-matching "
                   "pattern witnesses, undefined enum numbers, absent vs zero) protovalidate's verdict on a dynamic message must equal the reference verdict: accept iff accept."),
    "level_note": "Sampled declarations, boundary-complete candidates per declaration. Date/decimal/timestamp/float rules have no protovalidate counterpart and are not judged. For a proto3 field without presence 'absent' is its zero value.",
    "rule": ("rules: one declaration + 5-20 candidate values per case. Non-trivial: the declaration yields both verdicts (otherwise counted as degenerate). "
             "Distinct by hash(declaration, candidates)."),
    "assumptions": ["bounds are inclusive unless the exclusive flag is true; required means present (non-zero for fields without presence); pattern is an RE2 search"],
    "lanes": [
        lane("TestRules", "rules", 600, 3000, shards=16, must_classes=["both-verdicts", "kind:integer:INT32", "kind:enum", "kind:array:string", "kind:map:string", "kind:map:key", "siblings:1", "siblings:2", "subject-in-oneof:required"]),
    ],
}

PROPS["C04"] = {
    "pkg": "c04",
    "level": "exploration",
    "technique": "property-based testing (rapid) with a model-first j5s generator; reference-model oracle: the expected J5 schema of every declared type is derived from the model and compared, in a semantic normal form, with the schema reflected from the compiled descriptors and from the printed .proto text",
    "level_text": ("Generated bundles carry every rule and annotation the generator can express (string/bytes lengths, patterns, integer bounds and both exclusivity "
                   "flags, bool const, date/decimal bounds, array and map rules, enum in/not-in, key formats incl. custom patterns, flatten, list rules, descriptions, "
                   "required / optional). For every object, oneof and enum (inline, nested and generated request/response/message types included) the expected schema is "
                   "flattened into path=value lines and compared both ways with RootSchema.ToJ5Root() of SchemaSetFromFiles over (a) the compiled descriptors and (b) the "
                   "descriptors re-parsed from the printed .proto text. Each differing path class is its own finding key."),
    "level_note": "Normal form: empty rule messages = absent, exclusive_*/unique_items=false = unset, informal key = key without format, map key schema ignored. Entities are not in this model. The three well-known string patterns the reader turns into formats are not in the pattern pool.",
    "rule": ("readback: j5sgen.Draw (<=2 packages x <=2 files). Non-trivial: at least one rule, list rule, key format, flatten or description is present. Distinct by hash of the sources."),
    "assumptions": ["nested / inline types are named <Parent>_<Child> in the schema set (the reader's convention for nested messages)"],
    "lanes": [
        lane("TestReadback", "readback", 300, 1500, shards=16, must_classes=["rules:string", "rules:integer", "rules:array", "rules:enum:names-unspecified", "rules:enum:several-names", "list:string", "key:custom", "flatten", "description", "key-entity:foreign", "key-entity:primary", "key-entity:tenant"]),
    ],
}

PROPS["C16"] = {
    "pkg": "c16",
    "level": "exploration",
    "technique": "property-based testing (rapid) + enumerated recursion shapes and field kinds per request position; staged totality oracle plus a content oracle computed from the model",
    "level_text": ("Generated bundles (services, topics, entities, every field type, imports) and two enumerated families - 5 recursion shapes x {GET,POST} x {request,response}, "
                   "18 field kinds x {query, body, response, path} - go through the whole downstream chain: CompilePackage -> PrintFile -> protosrc.ReadFSImage -> "
                   "structure.APIFromImage -> j5client.APIFromSource -> codec.ProtoToJSON(client API) -> export.BuildSwagger -> json.Marshal. Every stage must return without "
                   "error, panic or hang (60 s; fatal errors are attributed through the journal) and emit well-formed JSON. From the model alone the check then requires: "
                   "exactly the declared services and methods, declared verb and :jsonName path, path parameters = request properties named in the path, remaining "
                   "properties in the query (GET) or the body (other verbs), declared response properties, and every schema reachable from a method present in the client API."),
    "level_note": "Sampled plus two exhaustive small families. Entities are exercised for totality here; their content is C17's subject.",
    "rule": ("pipeline: j5sgen.Draw with entities; recursive / kinds: enumerated. Non-trivial: the bundle has a service with a path parameter or an entity; every enumerated case. "
             "Distinct by hash of the sources / (shape, verb, position)."),
    "assumptions": [],
    "lanes": [
        lane("TestRecursive", "recursive", 0, 0, norapid=True),
        lane("TestKinds", "kinds", 0, 0, norapid=True),
        lane("TestPipeline", "pipeline", 200, 1200, shards=16, must_classes=["service", "entity", "path-parameter", "path-parameter:odd-name", "path-parameter:enum"]),
        lane("TestListMethods", "listmethods", 300, 3000, shards=8, must_classes=["list-verb:GET", "list-verb:POST", "query-without-response-object", "nested-object", "rule:sorting", "rule:filtering"]),
        lane("TestAttributes", "attributes", 1200, 4000, shards=16, min_frac=0.05, must_classes=["assignment:accepted", "block:method", "block:entity"]),
    ],
}

PROPS["C17"] = {
    "pkg": "c17",
    "level": "exploration",
    "technique": "property-based testing (rapid) over generated entity declarations; reference-model predicates derived from the statement, evaluated on the compiled descriptors and on the derived client API",
    "level_text": ("Entity declarations with 1-4 keys of mixed primary / foreign / tenant / shard flags, 0-5 data fields of any type, 1-5 statuses, 0-4 events with fields, 0-2 "
                   "command services, 0-2 summaries and optional query settings are compiled; the expected component set is computed from the declaration alone: Keys / Data / "
                   "State / EventType / Event messages and the Status enum exist under the entity's name; Keys lists the keys in order with primary keys required; statuses are "
                   "numbered in order after <E>_STATUS_UNSPECIFIED; State = metadata + flattened keys + data + status and Event = metadata + flattened keys + event oneof, all "
                   "required; the event oneof has exactly one option per event pointing at the nested message of that name; the query service has Get / List / Events (GET) "
                   "whose path parameters are the primary (and shard) keys in declaration order; one command service per command, one event topic, one upsert topic per "
                   "summary; every part carries the same entity annotation. The client API must group them into a StateEntity with the declared primary key, events and command services."),
    "level_note": ("Sampled. Exact names are asserted for the generator's vocabulary only (CamelCase words); the casing lane names the entity in any "
                   "other casing (all caps, lower camel, underscores, digits, acronym runs), finds the components by their entity annotations and messaging roles instead, and requires "
                   "that the package compiles, that the same structural predicates hold and that every component name spells the entity name."),
    "rule": ("entity: j5sgen.Draw(EntityOnly) with 1-2 files each holding an entity. Non-trivial: >=2 keys with different flag combinations, or >=1 event and >=1 summary. Distinct by hash of the sources. "
             "casing: one entity per package, named from a pool of 16 casings or a random re-casing of a word; every case is non-trivial."),
    "assumptions": ["README entity section; the statement of C17"],
    "lanes": [
        lane("TestEntity", "entity", 200, 1200, shards=16, must_classes=["shard-key", "foreign-key", "tenant-key", "events:0", "summaries:2", "summary-unnamed-after-named", "commands:2", "command-options", "entity-nested-schema", "enum-option-explicit-number", "key:primary-false"]),
        lane("TestCasing", "casing", 120, 600, shards=4, must_classes=["casing:all-caps", "casing:all-lower", "casing:underscore", "casing:ends-in-capital", "casing:lower-camel"]),
    ],
}

PROPS["C15"] = {
    "pkg": "c15",
    "level": "exploration",
    "technique": "property-based testing (rapid): export -> re-import -> export round trip with proto equality and an independent reference-resolution walk, over generated j5s packages and generated raw proto files",
    "level_text": ("The source API built by structure.APIFromImage (first export) is re-imported with j5schema.PackageSetFromSourceAPI; the import must succeed, an independent walk over "
                   "the rebuilt set must find a target behind every reference, every exported schema must be present again, none may be added, and ToJ5Root of each rebuilt schema must be "
                   "proto.Equal to the first export. Differences are located by a field-path differ. The first export is scanned for rules, list rules, enum info, entity markers, any "
                   "membership, ext blocks, so the evidence shows the droppable features actually travelled through the loop."),
    "level_note": "Sampled. Whether the first export itself is complete is C04's subject; this check decides only the round trip.",
    "rule": ("j5s: j5sgen bundles (1-3 packages with imports, entities, services, topics, every field kind and rule) compiled, printed, read back by protosrc.ReadFSImage and exported by "
             "APIFromImage. raw: pgen Annotated-mode file (the supported subset: nested, recursive, wrappers, maps, arrays, plus validate / list / j5 field annotations consistent with each field, enum option info, any membership) optionally plus a second file in another package or a sub-package whose "
             "message references the first file's messages and enums and itself. Non-trivial: the export has >=3 schemas and carries at least one rules / list_rules / info / entity / "
             "types field. Distinct by hash of the sources."),
    "assumptions": ["APIFromImage is the export the property names; cases it rejects are discarded here and decided by C16/C18"],
    "lanes": [
        lane("TestJ5S", "j5s", 300, 2000, shards=16, must_classes=["multi-package"]),
        lane("TestRaw", "raw", 600, 6000, shards=16, must_classes=["cross:1", "cross:2", "ann:enum-info", "ann:any", "ann:list-rules", "ann:repeated-rules", "ann:date-rules", "ann:key-id62", "enum-no-default"]),
    ],
}
