"""Property table for the driver: package, lanes, budgets, evidence texts."""

PROPS = {}


def lane(test, lane, quick, thorough, shards=1, **kw):
    d = {"test": test, "lane": lane, "quick": quick, "thorough": thorough, "shards": shards, "min_frac": 0.99}
    d.update(kw)
    return d


PROPS["C20"] = {
    "pkg": "c20",
    "level": "exploration",
    "technique": "property-based testing (rapid) + complete enumeration of the stated boundary set; round-trip and big-integer reference oracles",
    "level_text": ("Random and boundary-exhaustive exploration of the identifier space and of parser inputs against a round-trip oracle "
                   "(Parse(String(id)) == id, length 22, alphabet, published pattern) and an independent base-62 big-integer reference "
                   "for the overflow rule. The boundary lane is complete for the values the property names; the rest is sampled."),
    "level_note": "Sampled, not exhaustive, over 2^128 ids and over strings; trusted base: Go math/big in the reference, rapid generators.",
    "rule": ("roundtrip: 16-byte ids drawn by rapid (uniform, k leading zero bytes, 62^k+-3, high bits set); boundary: complete "
             "enumeration of zero, all-one, 128 single-bit and single-zero-bit values, leading-zero-byte values, 62^k+-2 (k=0..22), "
             "64 values next to 0 and 2^128-1; parse: strings from any runes / raw bytes / base-62 digit strings of length 21-24 / "
             "the exact +-40 neighbourhood of 2^128 / digits with a foreign rune / up to 300 digits; hash: NewHash called 4 times, "
             "twice concurrently. Non-trivial: id != 0 (roundtrip, boundary), string non-empty (parse), >=1 input (hash); distinct by "
             "64-bit hash of the case."),
    "assumptions": ["the digit alphabet used by the overflow reference is recovered from String() of 0..61 (not hard-coded)",
                    "signed strings such as \"-1\" are outside the statement and not judged"],
    "lanes": [
        lane("TestBoundary", "boundary", 0, 0, norapid=True, must_classes=["pow62", "single-bit"]),
        lane("TestRoundtrip", "roundtrip", 100000, 400000, shards=16),
        lane("TestParse", "parse", 100000, 400000, shards=16, must_classes=["digits>=2^128", "digits<2^128", "non-digit"]),
        lane("TestHash", "hash", 5000, 50000, shards=4),
    ],
}

PROPS["C11"] = {
    "pkg": "c11",
    "level": "exploration",
    "technique": "bounded-exhaustive token-sequence enumeration + property-based testing (rapid) with token mutators; validity-predicate oracle; native fuzz lane in thorough",
    "level_text": ("Every sequence of up to L spellings from a 30-entry token alphabet (L=3 quick, 4 thorough; joined with and without spaces) is "
                   "enumerated completely, and random Unicode/byte strings, single/double token mutations of generated valid files and the "
                   "repository's own sources are explored, each in both fail-fast and collect-all mode, against a validity predicate: returns "
                   "within a watchdog, tree xor non-empty diagnostics, every diagnostic and node position inside the input with start<=end, "
                   "first collect-all diagnostic equals the fail-fast one, HumanString(0,1,3) does not panic."),
    "level_note": "Complete only up to L over the chosen spellings; termination is observed under a 30 s watchdog, not proven; node walk covers the exported tree (blocks, tags, qualifiers, assignments, values, descriptions, trailing comments).",
    "rule": ("exhaustive: all sequences of length<=L over the token alphabet (incl. unterminated string/regex/block comment, bad escape, second dot, "
             "multi-byte identifier, foreign character) x 2 joiners; random: rapid strings over all runes, raw bytes, hostile fragments; mutate: "
             "bclgen valid file with token delete/insert/swap/duplicate/truncate (25% twice); corpus: repo fixtures + unmutated bclgen files. "
             "Non-trivial: input yields at least one token (or is non-blank when the lexer rejects it); distinct by 64-bit hash of the text."),
    "assumptions": ["a line is a maximal run between \n characters; columns are counted in runes; column == line length (EOL/EOF position) is inside the file"],
    "lanes": [
        lane("TestExhaustive", "exhaustive", 0, 0, norapid=True, shards=16, must_classes=["accepted", "parse-error", "lex-error"]),
        lane("TestRandom", "random", 30000, 150000, shards=8),
        lane("TestMutate", "mutate", 15000, 60000, shards=16, must_classes=["parse-error"]),
        lane("TestCorpus", "corpus", 5000, 20000, shards=4, must_classes=["accepted"]),
    ],
}
