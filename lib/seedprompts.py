#!/usr/bin/env python3
"""Writes the briefs for one blind round of seeded changes (DESIGN.md §7.4 (a)).

  seedprompts.py <round-dir> <out-dir> <suffix-of-previous-rounds...>
  e.g. seedprompts.py /tmp/seed6 /tmp/seed6-out "" b c d e

For every property a scratch git worktree <round-dir>/<ID> of /repo HEAD is created and a brief
<round-dir>/prompts/<ID>.txt written. The sub-agent is given the brief and nothing from /verif.
"""
import json, subprocess, os, sys
rd, out, sufs = sys.argv[1], sys.argv[2], sys.argv[3:]
os.makedirs(rd + '/prompts', exist_ok=True); os.makedirs(out, exist_ok=True)
ROOT = os.path.dirname(os.path.dirname(os.path.abspath(__file__)))
for l in open(ROOT + '/properties.jsonl'):
    d = json.loads(l)
    i = d['id']
    wt = rd + '/' + i
    if not os.path.exists(wt):
        subprocess.run(['git', '-C', '/repo', 'worktree', 'add', '--detach', wt, 'HEAD'], stdout=subprocess.DEVNULL, stderr=subprocess.DEVNULL)
    anchors = json.dumps(d['anchors'], indent=1)
    prev = '\n'.join('    previous change %d: %s' % (n + 1, json.load(open(ROOT + '/seeded/%s%s/meta.json' % (i, suf)))['summary']) for n, suf in enumerate(sufs))
    open(rd + '/prompts/%s.txt' % i, 'w').write(f"""You are helping evaluate a verification effort for the Go repository pentops/j5 (a schema language and
toolkit: BCL parser, j5s-to-protobuf compiler, schema reflection, JSON codec).

Your scratch copy of the repository is the git worktree {wt} (it is at the current HEAD). Work ONLY inside
{wt} and {out}/{i}/ . Do NOT read, list or touch /verif or /repo or any other {rd}/* directory.
IMPORTANT: never use `git stash` (the stash is shared between worktrees and other agents are working in sibling worktrees):
to switch between patched and unpatched states use `git diff > {out}/{i}/patch.diff` and `git apply -R` / `git apply`.
There is no network. Build and test with:
    cd {wt} && GOFLAGS=-mod=mod GOPROXY=off go build ./... && GOFLAGS=-mod=mod GOPROXY=off go test -vet=off -count=1 ./...
(if `git status` shows go.sum/go.mod modified by -mod=mod, restore them with `git checkout -- go.mod go.sum` before taking the diff)

The semantic property under study ({i}): {d['title']}

STATEMENT: {d['statement']}

QUANTIFIED OVER: {d['quantifier']['text']}

WHY THE EXISTING TESTS CANNOT SETTLE IT: {d['why_tests_cant']}

WHERE IT LIVES (anchors): {anchors}

YOUR TASK: produce ONE realistic change to the NON-TEST source code of the repository (the kind of slip a maintainer
could plausibly make in a refactor, optimisation, feature change or bug fix; not sabotage that obviously does nothing else) such that
  1. the repository still compiles (`go build ./...`),
  2. the repository's entire existing test suite still passes, unedited (`go test -vet=off -count=1 ./...` - all packages ok),
  3. the property above is BROKEN: there is at least one input / program / history for which the statement is false, and
  4. the breakage needs something specific to manifest (a particular field type, flag combination, name shape, value range,
     nesting depth, ordering, position in the file, interaction of two features, a rarely used language feature, ...) - it must
     not break the most trivial input, but it MUST be reachable from the quantified space above: stay strictly inside what the
     QUANTIFIED OVER text allows (for instance, if it says CRLF-free text, do not rely on CRLF).
{len(sufs)} previous exercises already produced the changes below for this property - do something DIFFERENT from all of them:
another function, another clause of the statement, another feature of the input language or data model. Read the code the
anchors point at (and the code it calls) end to end first, and pick the corner a randomised test generator written from the
property text alone would be least likely to reach: a rarely combined pair of features, a boundary value, a second occurrence,
an unusual position, an interaction with another subsystem, state carried over from an earlier call.
{prev}
Keep the change small (ideally 1-15 lines in one or two files). Do not touch *_test.go files, testdata, generated *.pb.go files or go.mod/go.sum.

DELIVERABLES, all under {out}/{i}/ :
  - patch.diff : output of `git -C {wt} diff` containing only your source change (must apply with `git apply` to a clean HEAD).
  - a demonstration: a self-contained Go test file `demo_test.go` plus a one-line note of which package directory of the
    repository it must be copied into to run (e.g. lib/j5schema). The demo test must PASS on the unmodified HEAD and FAIL
    with your patch applied, and its failure must exhibit the property violation itself (the concrete input and the wrong
    result), not an incidental difference. Verify both directions yourself. It must not depend on helpers defined in the
    package's other _test.go files. Do not leave demo_test.go inside the worktree when you take the diff.
  - meta.json : {{"id": "{i}", "summary": "<one sentence: what the change does>", "files": [..], "trigger": "<what an input needs for the breakage to show>",
                 "demo_package_dir": "<dir>", "demo_run": "<go test command>", "suite_passes": true, "violates": "<which clause of the statement>"}}
Finish by restoring the worktree to a clean state with your patch NOT applied (`git -C {wt} checkout -- . && git -C {wt} clean -fdq`).
If, while reading or probing the UNMODIFIED code, you notice existing defects that violate the property (an input inside the
quantified space for which the statement is already false on HEAD), list up to three of them, one line each, at the end - with the
concrete input. These are as valuable as the change itself.
In your final message, report the summary, the trigger, and confirm the three verifications (builds, suite passes, demo passes on HEAD / fails with patch). Keep the final message under 200 words.
""")
print(len(os.listdir(rd)) - 1, "worktrees")
