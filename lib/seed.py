#!/usr/bin/env python3
"""Adopt and verify a seeded change produced by a sub-agent.

  seed.py adopt <ID> [<srcdir>]   copy <srcdir> (default /tmp/seed-out/<ID>) to /verif/seeded/<ID>/, then verify:
                                   patch applies to a scratch worktree of /repo HEAD, builds, the repository's own suite
                                   passes with it, the demonstration passes on HEAD and fails with the patch.
  seed.py run <ID> [PROP...]       apply seeded/<ID>/patch.diff to /repo's working tree (git apply), run the quick checks
                                   for PROP (default: the seed's own property) against it, undo with git checkout.
Scratch worktrees live under /var/tmp/verif-seed and are removed afterwards.
"""
import json, os, re, shutil, subprocess, sys, time

ROOT = os.path.dirname(os.path.dirname(os.path.abspath(__file__)))
ENV = dict(os.environ, GOFLAGS="-mod=mod", GOPROXY="off")

def sh(cmd, **kw):
    return subprocess.run(cmd, shell=isinstance(cmd, str), stdout=subprocess.PIPE, stderr=subprocess.STDOUT, text=True, env=ENV, **kw)

def suite(wt):
    r = sh("cd %s && go test -vet=off -count=1 -json ./... 2>/dev/null" % wt)
    p = f = 0
    fails = []
    for l in r.stdout.splitlines():
        try:
            e = json.loads(l)
        except Exception:
            continue
        if e.get("Test") and e.get("Action") == "pass": p += 1
        if e.get("Test") and e.get("Action") == "fail": f += 1; fails.append(e["Package"] + "::" + e["Test"])
    return p, f, fails

def adopt(sid, src):
    dst = os.path.join(ROOT, "seeded", sid)
    if os.path.abspath(src) != os.path.abspath(dst):
        shutil.rmtree(dst, ignore_errors=True)
        shutil.copytree(src, dst)
    meta = json.load(open(os.path.join(dst, "meta.json")))
    base = "/var/tmp/verif-seed"
    os.makedirs(base, exist_ok=True)
    wt = os.path.join(base, sid)
    sh(["git", "-C", "/repo", "worktree", "remove", "--force", wt]); shutil.rmtree(wt, ignore_errors=True)
    r = sh(["git", "-C", "/repo", "worktree", "add", "--detach", wt, "HEAD"])
    assert r.returncode == 0, r.stdout
    res = {"id": sid}
    try:
        demo_dir = meta.get("demo_package_dir", "").strip("/").replace("./", "")
        demos = [f for f in os.listdir(dst) if f.endswith("_test.go")]
        def run_demo():
            for d in demos:
                shutil.copy(os.path.join(dst, d), os.path.join(wt, demo_dir, "zz_seed_" + d))
            r = sh("cd %s && go test -vet=off -count=1 ./%s 2>&1 | tail -40" % (wt, demo_dir))
            for d in demos:
                os.remove(os.path.join(wt, demo_dir, "zz_seed_" + d))
            ok = re.search(r"^ok\s", r.stdout, re.M) is not None and "FAIL" not in r.stdout
            return ok, r.stdout
        ok, out = run_demo()
        res["demo_passes_on_head"] = ok
        if not ok: res["demo_head_output"] = out[-1500:]
        r = sh(["git", "-C", wt, "apply", os.path.join(dst, "patch.diff")])
        res["patch_applies"] = r.returncode == 0
        if r.returncode != 0:
            res["apply_output"] = r.stdout
        else:
            b = sh("cd %s && go build ./... 2>&1 | tail -5" % wt)
            res["builds"] = b.stdout.strip() == ""
            p, f, fails = suite(wt)
            res["suite"] = {"pass": p, "fail": f, "failed": fails[:5]}
            ok, out = run_demo()
            res["demo_fails_with_patch"] = not ok
            res["demo_patch_output"] = out[-1200:]
            touched = sh(["git", "-C", wt, "diff", "--stat"]).stdout
            res["touches_tests"] = bool(re.search(r"_test\.go|testdata", touched))
    finally:
        sh(["git", "-C", "/repo", "worktree", "remove", "--force", wt]); shutil.rmtree(wt, ignore_errors=True)
    res["verified"] = bool(res.get("demo_passes_on_head") and res.get("patch_applies") and res.get("builds")
                           and res.get("suite", {}).get("fail") == 0 and res.get("suite", {}).get("pass", 0) >= 274
                           and res.get("demo_fails_with_patch") and not res.get("touches_tests"))
    meta["verified_by_me"] = {k: v for k, v in res.items() if k not in ("demo_patch_output",)}
    json.dump(meta, open(os.path.join(dst, "meta.json"), "w"), indent=1)
    print(json.dumps({k: v for k, v in res.items() if k != "demo_patch_output"}, indent=1))
    print("--- demo output with patch (tail) ---\n" + res.get("demo_patch_output", "")[-700:])
    return 0 if res["verified"] else 1

def run(sid, props):
    dst = os.path.join(ROOT, "seeded", sid)
    if not props:
        props = [re.match(r"C\d+", sid).group(0)]
    st = sh(["git", "-C", "/repo", "status", "--porcelain"]).stdout.strip()
    assert st == "", "/repo working tree is not clean:\n" + st
    r = sh(["git", "-C", "/repo", "apply", os.path.join(dst, "patch.diff")])
    assert r.returncode == 0, r.stdout
    rc_all = 0
    try:
        for p in props:
            env = dict(os.environ, VERIF_REPLAY_DIR="/var/tmp/verif-seed/replays-%s-%s" % (sid, p))
            env.setdefault("VERIF_TIMEOUT", "600")
            env["VERIF_EVIDENCE_DIR"] = "/var/tmp/verif-seed/evidence"
            t0 = time.time()
            r = subprocess.run([os.path.join(ROOT, "run"), p, os.environ.get("SEED_TIER", "quick")], env=env, stdout=subprocess.PIPE, stderr=subprocess.STDOUT, text=True, cwd=ROOT)
            dt = time.time() - t0
            verdict = {0: "MISSED", 1: "DETECTED", 2: "INCONCLUSIVE"}.get(r.returncode, "rc=%d" % r.returncode)
            keys = sorted(set(re.findall(r"keys=(\S+)", r.stdout)))
            print("%-12s seed=%s prop=%s %.1fs %s" % (verdict, sid, p, dt, ",".join(keys)[:300]))
            if verdict != "DETECTED":
                print("\n".join(r.stdout.splitlines()[-4:]))
            shutil.rmtree(env["VERIF_REPLAY_DIR"], ignore_errors=True)
    finally:
        sh(["git", "-C", "/repo", "checkout", "--", "."])
        st = sh(["git", "-C", "/repo", "status", "--porcelain"]).stdout.strip()
        if st: print("WARNING: /repo not clean after undo:\n" + st)
    return rc_all

if __name__ == "__main__":
    a = sys.argv[1:]
    if a[0] == "adopt":
        sys.exit(adopt(a[1], a[2] if len(a) > 2 else "/tmp/seed-out/" + a[1]))
    elif a[0] == "run":
        sys.exit(run(a[1], a[2:]))
