#!/usr/bin/env python3
"""Maintains /verif/known_findings.json (never called by checks at run time).
  findings.py fixed <prop> <commit> <key> <regress-file> <description>
  findings.py open  <prop> <key> <lane> <witness-file> <description>
"""
import json, os, sys
ROOT = os.path.dirname(os.path.dirname(os.path.abspath(__file__)))
P = os.path.join(ROOT, "known_findings.json")
d = json.load(open(P)) if os.path.exists(P) else {"findings": []}
a = sys.argv[1:]
if a[0] == "fixed":
    _, prop, commit, key, reg, desc = a
    d["findings"] = [f for f in d["findings"] if not (f["property"] == prop and f["key"] == key)]
    d["findings"].append({"property": prop, "status": "fixed", "key": key, "commit": commit, "regress": reg,
                          "description": desc, "line": "fixed: property=%s %s %s" % (prop, commit, desc)})
elif a[0] == "open":
    _, prop, key, lane, wit, desc = a
    d["findings"] = [f for f in d["findings"] if not (f["property"] == prop and f["key"] == key)]
    d["findings"].append({"property": prop, "status": "open", "key": key, "lane": lane, "witness": wit, "description": desc})
d["findings"].sort(key=lambda f: (f["property"], f["status"], f["key"]))
json.dump(d, open(P, "w"), indent=1)
print("ok", len(d["findings"]))
