#!/usr/bin/env python3
"""Regenerates /verif/MANIFEST.json from lib/props.py (single source of truth)."""
import json
import os
import sys

ROOT = os.path.dirname(os.path.dirname(os.path.abspath(__file__)))
sys.path.insert(0, os.path.join(ROOT, "lib"))
from props import PROPS  # noqa: E402

ALL = ["C%02d" % i for i in range(1, 21)]
BASELINE = json.load(open("/root/.vp/BASELINE.json"))["cmd"] if os.path.exists("/root/.vp/BASELINE.json") else ""

checks = []
for pid in ALL:
    P = PROPS.get(pid)
    if not P or P.get("unclaimed"):
        continue
    checks.append({
        "property_id": pid,
        "quick_cmd": "./run %s quick" % pid,
        "thorough_cmd": "./run %s thorough" % pid,
        "evidence_file": "/verif/evidence/%s.json" % pid,
        "replay_cmd_template": "./run %s --replay {path}" % pid,
        "engine": "rapid-harness",
        "level_claimed": {"category": P["level"], "text": P["level_text"], "design_ref": P.get("design_ref", "DESIGN.md §3 " + pid)},
        "level_note": P["level_note"],
        "technique": P["technique"],
    })

na = []
for pid in ALL:
    P = PROPS.get(pid)
    if not P or P.get("unclaimed"):
        na.append({"property_id": pid, "reason": (P or {}).get("unclaimed", "check not built yet in this session (planned in DESIGN.md §3); not claimed until its quick tier runs clean on the unchanged tree")})

m = {
    "version": 1,
    "setup_cmd": "./run --build",
    "hooks": {
        "guard": "verif",
        "enable": "none needed: the harness is a separate Go module (module path under github.com/pentops/j5/internal/bcl/internal/verif, replace => /repo) that imports /repo's current working tree, internal packages included; no source in /repo is instrumented",
        "baseline_off_cmd": BASELINE,
        "source_commits": [],
        "add_only": True,
    },
    "engines": [{
        "name": "rapid-harness",
        "path": "/verif/harness",
        "serves_properties": [c["property_id"] for c in checks],
        "kind_free_text": "property-based testing with pgregory.net/rapid v1.3.0 (structured generators, shrinking), bounded-exhaustive enumerations, Go native fuzzing in thorough lanes, Go race detector for C10; python3 driver /verif/run shards, merges evidence, confirms every violation by generator-free replay",
    }],
    "checks": checks,
    "not_applicable": na,
    "notes": "All checks compile against /repo's working tree at run time (go test -c). Known genuine defects are listed in /verif/known_findings.json (open: suppressed by structural key and reported as KNOWN-FINDING; fixed: suppress nothing).",
}
json.dump(m, open(os.path.join(ROOT, "MANIFEST.json"), "w"), indent=1)
print("wrote MANIFEST.json: %d checks, %d not_applicable" % (len(checks), len(na)))
