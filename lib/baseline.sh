#!/bin/bash
# Runs the repository's own suite (guard off) and prints pass/fail counts.
cd /repo && GOFLAGS=-mod=mod GOPROXY=off go test -vet=off -count=1 -json ./... 2>/dev/null | python3 -c "
import sys,json
p=f=0
fails=[]
for l in sys.stdin:
    try: e=json.loads(l)
    except: continue
    if e.get('Test') and e.get('Action')=='pass': p+=1
    if e.get('Test') and e.get('Action')=='fail': f+=1; fails.append(e['Package']+'::'+e['Test'])
print('pass',p,'fail',f)
for x in fails: print(' FAIL',x)
"
git -C /repo status --short | head
