#!/usr/bin/env python3
"""Sensitivity runs: apply a breaking change to a scratch worktree of /repo and run checks against it.

  sens.py revert:<commit-ish|grep> PROP [PROP...]     reverse-apply a fix commit
  sens.py <patch.diff> PROP [PROP...]                 apply a patch (e.g. seeded/<id>/patch.diff)
options: --keep-replays DIR   copy replay files of detected violations to DIR
         --tier quick|thorough
Prints one line per (mutant, property): DETECTED / MISSED / INCONCLUSIVE and the seconds taken.
The scratch worktree lives under /var/tmp/verif-mut and is removed afterwards.
"""
import os, subprocess, sys, time, shutil, json, re

ROOT = os.path.dirname(os.path.dirname(os.path.abspath(__file__)))

def sh(cmd, **kw):
    return subprocess.run(cmd, shell=isinstance(cmd, str), stdout=subprocess.PIPE, stderr=subprocess.STDOUT, text=True, **kw)

def main():
    args = sys.argv[1:]
    keep = None
    tier = "quick"
    while args and args[0].startswith("--"):
        if args[0] == "--keep-replays":
            keep = args[1]; args = args[2:]
        elif args[0] == "--tier":
            tier = args[1]; args = args[2:]
    mut, props = args[0], args[1:]
    name = re.sub(r"[^A-Za-z0-9]+", "-", mut)[-40:].strip("-")
    base = "/var/tmp/verif-mut"
    os.makedirs(base, exist_ok=True)
    wt = os.path.join(base, name)
    sh(["git", "-C", "/repo", "worktree", "remove", "--force", wt])
    shutil.rmtree(wt, ignore_errors=True)
    r = sh(["git", "-C", "/repo", "worktree", "add", "--detach", wt, "HEAD"])
    if r.returncode != 0:
        print(r.stdout); return 2
    try:
        if mut.startswith("revert:"):
            key = mut[len("revert:"):]
            c = sh(["git", "-C", "/repo", "log", "--format=%H", "--grep", key, "-1"]).stdout.strip() or key
            d = sh(["git", "-C", "/repo", "show", c, "--format="]).stdout
            r = subprocess.run(["git", "-C", wt, "apply", "-R", "--3way"], input=d, text=True, stdout=subprocess.PIPE, stderr=subprocess.STDOUT)
        else:
            r = sh(["git", "-C", wt, "apply", os.path.abspath(mut)])
        if r.returncode != 0:
            print("patch does not apply:", r.stdout); return 2
        b = sh("cd %s && GOFLAGS=-mod=mod GOPROXY=off go build ./... 2>&1 | tail -5" % wt)
        if b.stdout.strip():
            print("mutant does not build:\n" + b.stdout); return 2
        rc_all = 0
        for p in props:
            env = dict(os.environ)
            env["VERIF_REPO"] = wt
            rdir = os.path.join(base, name + "-replays")
            env["VERIF_REPLAY_DIR"] = os.path.join(rdir, p)
            env.setdefault("VERIF_TIMEOUT", "400")
            env["VERIF_EVIDENCE_DIR"] = os.path.join(base, "evidence")
            t0 = time.time()
            r = subprocess.run([os.path.join(ROOT, "run"), p, tier], env=env, stdout=subprocess.PIPE, stderr=subprocess.STDOUT, text=True, cwd=ROOT)
            dt = time.time() - t0
            verdict = {0: "MISSED", 1: "DETECTED", 2: "INCONCLUSIVE"}.get(r.returncode, "rc=%d" % r.returncode)
            keys = sorted(set(re.findall(r"keys=(\S+)", r.stdout)))
            print("%-12s %-4s %-40s %6.1fs %s" % (verdict, p, name, dt, " ".join(keys)[:200]))
            if r.returncode == 2:
                print(r.stdout[-1500:])
            if keep and r.returncode == 1 and os.path.isdir(env["VERIF_REPLAY_DIR"]):
                os.makedirs(keep, exist_ok=True)
                for f in os.listdir(env["VERIF_REPLAY_DIR"]):
                    shutil.copy(os.path.join(env["VERIF_REPLAY_DIR"], f), os.path.join(keep, f))
            shutil.rmtree(rdir, ignore_errors=True)
        # evidence files were rewritten against the mutant: restore them from git
        sh(["git", "-C", ROOT, "checkout", "--", "evidence"])
        return rc_all
    finally:
        sh(["git", "-C", "/repo", "worktree", "remove", "--force", wt])
        shutil.rmtree(wt, ignore_errors=True)
        for f in os.listdir(os.path.join(ROOT, ".build")):
            if f.startswith("alt-") or re.search(r"-[0-9a-f]{8}\.test$", f):
                os.remove(os.path.join(ROOT, ".build", f))

if __name__ == "__main__":
    sys.exit(main())
