#!/bin/bash
# Runs every registered check in one tier and prints one summary line per property.
# usage: lib/runall.sh quick|thorough [seed]
cd "$(dirname "$0")/.."
tier=${1:-quick}; export VERIF_SEED=${2:-1}
rc_all=0
for p in $(python3 -c "import sys; sys.path.insert(0,'lib'); import props; print(' '.join(sorted(props.PROPS)))"); do
  t0=$(date +%s)
  out=$(./run $p $tier 2>&1); rc=$?
  t1=$(date +%s)
  echo "$p rc=$rc $((t1-t0))s $(echo "$out" | grep -v '^KNOWN-FINDING' | tail -1 | cut -c1-200)"
  if [ $rc -ne 0 ]; then rc_all=1; echo "$out" | grep -v '^KNOWN-FINDING' | tail -15; fi
done
exit $rc_all
